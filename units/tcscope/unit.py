"""Unit `tcscope` (C19): the local-variable scopes of the type checker (src/checks/type_checker.rs), whose
`id_to_def_pos` is what rename (and go-to-definition, highlight) resolve a use with.  Two families of slices,
regenerated from the source on every run (control flow kept, every other condition nondeterministic):

* block balance: every function that opens or closes a scope (`self.bindings.enter_block()` / `exit_block()`) leaves
  the scope stack at the depth it found it on every path (early returns and `?` included), never closes a scope it
  did not open, every loop iteration is balanced, and every binding it makes (parameters, receiver, match payloads, loop
  variables, catch variables) is made inside a scope it opened (only a `let` binds in the current scope), in a loop that
  checks a block per iteration (the cases of a `match`) inside a scope opened in that same iteration;
* binding order: in the `let` arm and the `for` arm of infer_expr_, the expression that is evaluated before the
  binding exists (the right-hand side; the iterated expression) is checked before the destination is bound, on
  every path."""
import os
import re
import sys

HERE = os.path.dirname(os.path.abspath(__file__))
ROOT = os.path.dirname(os.path.dirname(HERE))
sys.path.insert(0, os.path.join(ROOT, "vc"))
sys.path.insert(0, os.path.join(ROOT, "units"))
import rewrite as rw  # noqa: E402
from gen import Contract, UnitFile, Tag  # noqa: E402
from extract import ExtractError, skeleton_hash  # noqa: E402
from slicer import Slicer  # noqa: E402
import common  # noqa: E402

TC = "src/checks/type_checker.rs"
RLIMIT = 30
MIN_FUNCTIONS = 8

ASSUMPTIONS = {
    "nondet": "a dropped condition may go either way", "nondet_u8": "a dropped match may take any arm",
    "SymbolName": "opaque stand-in for ast::SymbolName", "clone": "Clone returns an equal value", "Type": "opaque", "Position": "opaque",
    "TcBlock": "FxHashMap<SymbolName, (Type, Position)> behind a ghost map view `tbm`", "vtb_new": "FxHashMap::default() is the empty map",
    "vtb_get": "FxHashMap::get", "DefMap": "FxHashMap<SyntaxId, Position> behind a ghost map view `dm`", "TyMap": "FxHashMap<SyntaxId, Type> (opaque)", "insert": "FxHashMap::insert",
    "BindMap": "FxHashMap<SyntaxId, Vec<(SymbolName, Type)>> (opaque)", "all_bindings": "LocalBindings::all_bindings (for completion; reads only)", "vtb_insert_last": "`blocks.last_mut().expect(..)` followed by `insert`: panics on an empty stack (an obligation), adds the entry to the last block",
}
LEMMAS = {"lemma_lookup_skip": {"C19"}, "lemma_lookup_update": {"C19"}, "lemma_lookup_other": {"C19"}}
UNVERIFIED = {"C21": ["the scope slices say in which scope a name is bound while an expression is checked; that the type recorded for it is the right one is the type checker's inference (bounded annotation corpus only)"], "C19": [
    "the scope slices keep only control flow, the calls that open / close a scope, the calls that bind a destination and the calls that check the expression named in the arm; (LocalBindings get / set / enter_block / exit_block, set_binding and the local-variable path of infer_var are under contract here: a use of a local records the position of its innermost binding); that nothing else touches the scope stack or id_to_def_pos wrongly, is not proved (rename.bounded[rename_corpus] covers it on a corpus)",
]}

GLUE_LB = """
#[verifier::external_body] pub struct SymbolName { _o: u8 }
impl Clone for SymbolName {
    #[verifier::external_body]
    fn clone(&self) -> (r: Self) ensures r == *self { unimplemented!() }
}
#[verifier::external_body] pub struct Type { _o: u8 }
#[verifier::external_body] pub struct Position { _o: u8 }
impl Clone for Position {
    #[verifier::external_body]
    fn clone(&self) -> (r: Self) ensures r == *self { unimplemented!() }
}
/// the part of ast::Symbol these functions read
pub struct Symbol { pub name: SymbolName, pub position: Position, pub id: SyntaxId }
#[verifier::external_body] pub struct TcBlock { _o: u8 }
/// the bindings of one scope as a map
pub uninterp spec fn tbm(b: TcBlock) -> Map<SymbolName, (Type, Position)>;
#[verifier::external_body]
pub fn vtb_new() -> (r: TcBlock) ensures tbm(r) == Map::<SymbolName, (Type, Position)>::empty() { unimplemented!() }
#[verifier::external_body]
pub fn vtb_get<'a>(b: &'a TcBlock, name: &SymbolName) -> (r: Option<&'a (Type, Position)>)
    ensures r is Some <==> tbm(*b).contains_key(*name), r is Some ==> *r->Some_0 == tbm(*b)[*name],
{ unimplemented!() }
#[verifier::external_body]
pub fn vtb_insert_last(bs: &mut Vec<TcBlock>, name: SymbolName, v: (Type, Position))
    requires old(bs)@.len() >= 1,
    ensures final(bs)@.len() == old(bs)@.len(),
        forall|j: int| 0 <= j < old(bs)@.len() - 1 ==> final(bs)@[j] == old(bs)@[j],
        tbm(final(bs)@[old(bs)@.len() - 1]) == tbm(old(bs)@[old(bs)@.len() - 1]).insert(name, v),
{ unimplemented!() }
"""

GLUE_TV = """
#[verifier::external_body] pub struct DefMap { _o: u8 }
#[verifier::external_body] pub struct TyMap { _o: u8 }
#[verifier::external_body] pub struct BindMap { _o: u8 }
/// id_to_def_pos as a map
pub uninterp spec fn dm(m: DefMap) -> Map<SyntaxId, Position>;
impl DefMap {
    #[verifier::external_body]
    pub fn insert(&mut self, id: SyntaxId, p: Position) -> (r: Option<Position>) ensures dm(*final(self)) == dm(*old(self)).insert(id, p) { unimplemented!() }
}
impl TyMap {
    #[verifier::external_body]
    pub fn insert(&mut self, id: SyntaxId, t: Type) -> (r: Option<Type>) { unimplemented!() }
}
impl BindMap {
    #[verifier::external_body]
    pub fn insert(&mut self, id: SyntaxId, v: Vec<(SymbolName, Type)>) -> (r: Option<Vec<(SymbolName, Type)>>) { unimplemented!() }
}
impl Clone for Type {
    #[verifier::external_body]
    fn clone(&self) -> (r: Self) ensures r == *self { unimplemented!() }
}
impl LocalBindings {
    #[verifier::external_body]
    pub fn all_bindings(&self) -> (r: Vec<(SymbolName, Type)>) { unimplemented!() }
}
/// the fields of TypeCheckVisitor these functions touch
pub struct TypeCheckVisitor { pub bindings: LocalBindings, pub id_to_ty: TyMap, pub id_to_def_pos: DefMap, pub id_to_bindings: BindMap }
"""

GLUE = """
#[verifier::external_body]
pub fn nondet() -> (r: bool) { unimplemented!() }
#[verifier::external_body]
pub fn nondet_u8() -> (r: u8) { unimplemented!() }
"""

_SHADOW = "fun main() {\n  let total = 10\n  let add = fun(n: Int): Int { n + total }\n  if total > 5 {\n    let total: Int = total * 2\n    println(string_repr(add(total)))\n  }\n  for total in [total, total + 1] { println(string_repr(total)) }\n  println(string_repr(total))\n}\nmain()\n"
_ANNOT = ("fun describe(r: Result<Int, String>): String {\n  let value = \"no value\"\n  match r {\n    Ok(value) => { string_repr(value) }\n    Err(reason) => {\n      let shown = value\n      reason ^ \": \" ^ shown\n    }\n  }\n}\n"
          "println(describe(Ok(42)))\nprintln(describe(Err(\"boom\")))\n")
WITNESSES = [
    {"match": r"tcscope\.", "kind": "refactor-corpus", "props": ["C21"], "expect": {}, "check_errors_not_more": True, "input": [_ANNOT],
     "command": ["reftest-add-type-annotation", "{file}", "{offset}", "{offset}"], "note": "add_type_annotation in a match arm that reads an outer variable with the name of an earlier arm's payload"},
    {"match": r"tcscope\.", "kind": "rename-corpus", "props": ["C19"], "expect": {}, "note": "renames around hinted shadowing lets and a shadowing for variable",
     "input": [{"what": "outer variable read by a hinted shadowing let and by a for header", "at": "let total = 10", "delta": 4, "count": 8, "src": _SHADOW},
               {"what": "hinted shadowing let", "at": "let total: Int", "delta": 4, "count": 2, "src": _SHADOW},
               {"what": "shadowing for variable", "at": "for total", "delta": 4, "count": 2, "src": _SHADOW}]},
]

ENTER = r"\bself\s*\.\s*bindings\s*\.\s*(?P<op>enter_block|exit_block)\s*\(\s*\)"
DEPTH_RX = ENTER + r"|\bself\s*\.\s*(?P<bind>set_binding|set_dest_binding)\s*\("


class DepthSlicer(Slicer):
    """keeps enter_block / exit_block; `depth` is a ghost counter"""
    def __init__(self, src, let_spans=()):
        Slicer.__init__(self, src, DEPTH_RX, flag_rx=r"\bno_such_flag_zz\b")
        self.ret = "return Ghost(depth);"
        self.loop_may_exit = True
        self.n_enter = self.n_exit = self.n_bind = 0
        self.let_spans = let_spans       # (start, end) offsets of `let` arms: binding in the current scope is what a `let` does
        self._off = 0
        self.n_loops_seen = 0
        self.loop_ctx = []

    USE_RX = re.compile(r"\bself\s*\.\s*(?:check_block|infer_block|visit_block)\s*\(")

    def control(self, k, b, indent):
        t = self.toks[k]
        if t.text in ("while", "for", "loop"):
            # the loops are numbered in the order in which they are emitted (the ghost snapshot __dN of
            # _with_loop_invariants); a loop whose body checks a block and binds names must bind them in a scope
            # opened in the same iteration, or the names of one iteration are still bound in the next one
            self.n_loops_seen += 1
            open_ = self._body_open(k, b) if t.text != "loop" else k + 1
            body = self.text(open_, self.close(open_) + 1)
            self.loop_ctx.append((self.n_loops_seen, bool(self.USE_RX.search(body))))
            r = Slicer.control(self, k, b, indent)
            self.loop_ctx.pop()
            return r
        return Slicer.control(self, k, b, indent)

    def effects_in(self, a, b, indent):
        if a >= b:
            return
        base = self.toks[a].start
        seg = self.src.text[base:self.toks[b - 1].end]
        for m in self.effect_rx.finditer(seg):
            self._off = base + m.start()
            self.out.append((indent + self.render_effect(m), self.src.line_of(self._off)))
            self.n_effects += 1

    def render_effect(self, m):
        if m.group("bind"):
            self.n_bind += 1
            if any(a <= self._off < b for (a, b) in self.let_spans):
                return "{}   // a `let` binds in the current scope"
            for (n_, uses) in reversed(self.loop_ctx):
                if uses:
                    return "proof { assert(depth > d_entry); assert(depth > __d%d); }   // binds inside a scope opened in this iteration" % n_
            return "proof { assert(depth > d_entry); }   // binds inside a scope this function opened"
        if m.group("op") == "enter_block":
            self.n_enter += 1
            return "proof { depth = depth + 1; }"
        self.n_exit += 1
        return "proof { assert(depth > d_entry); depth = depth - 1; }   // closes a scope this function opened"


class OrderSlicer(Slicer):
    """keeps the checks of the named expression and the binding of the destination"""
    def __init__(self, src, expr_name):
        rx = (r"\bself\s*\.\s*(?P<chk>check_expr|infer_expr)\s*\((?P<args>[^;{}]*)\)|\bself\s*\.\s*(?P<bind>set_dest_binding)\s*\(")
        Slicer.__init__(self, src, rx, flag_rx=r"\bno_such_flag_zz\b")
        self.ret = "return (checked, bound_before_check);"
        self.expr_name = expr_name
        self.n_checks = self.n_binds = 0

    def render_effect(self, m):
        if m.group("bind"):
            self.n_binds += 1
            return "if !checked { bound_before_check = true; }"
        if re.search(r"\b%s\b" % self.expr_name, m.group("args")):
            self.n_checks += 1
            return "checked = true;"
        return "{}"


def _body_tokens(src, host):
    toks = src.toks
    idx = [k for k, t in enumerate(toks) if host.start <= t.start < host.end]
    depth = 0
    for k in idx:
        tt = toks[k].text
        if toks[k].kind == "punct" and tt in "([":
            depth += 1
        elif toks[k].kind == "punct" and tt in ")]":
            depth -= 1
        elif tt == "{" and depth == 0:
            return k
    raise ExtractError("%s: body not found" % host.name)


def _with_loop_invariants(lines, inv):
    """every `while` / `loop` of the slice gets the invariant text `inv` (`{N}` = a fresh ghost snapshot name)"""
    out, n = [], 0
    for (t, ln) in lines:
        m = re.match(r"^(\s*)(while nondet\(\) \{|loop \{)\s*$", t)
        if m:
            n += 1
            out.append(("%slet ghost __d%d = depth;" % (m.group(1), n), ln))
            head = "while nondet()" if m.group(2).startswith("while") else "loop"
            out.append(("%s#[verifier::loop_isolation(false)] %s" % (m.group(1), head), ln))
            out.append(("%s    invariant %s," % (m.group(1), inv.replace("{N}", "__d%d" % n)), ln))
            out.append(("%s{" % m.group(1), ln))
        else:
            out.append((t, ln))
    return out


def build(tier):
    u = UnitFile("tcscope")
    u.raw(common.HEADER)
    u.raw(GLUE, kind="prelude")
    # the inferred types that add-type-annotation offers (C21) are read in the same scopes that rename (C19) resolves uses in
    props = {"C19", "C21"}
    src = u.source(TC)
    # ---- block balance -----------------------------------------------------------------------------------
    hosts = [it for it in src.all_fns() if re.search(ENTER, it.text)]
    hosts = [h for h in hosts if h.name not in ("enter_block", "exit_block")]
    if len(hosts) < 6:
        raise ExtractError("type_checker.rs: only %d functions open or close a scope" % len(hosts))
    let_spans = []
    for m in re.finditer(r"Expression_::Let\([^)]*\)\s*=>\s*\{", src.text):
        k_ = next(k for k, t in enumerate(src.toks) if t.start == m.end() - 1)
        let_spans.append((m.start(), src.toks[DepthSlicer(src).close(k_)].end))
    seen = {}
    for host in hosts:
        sl = DepthSlicer(src, let_spans)
        k0 = _body_tokens(src, host)
        c = sl.close(k0)
        sl.block(k0 + 1, c, "    ")
        seen[host.name] = seen.get(host.name, 0) + 1
        gname = "scope_depth_%s%s" % (host.name, "" if seen[host.name] == 1 else "_%d" % seen[host.name])
        u.fn_props[gname] = props
        u.skeletons[gname] = skeleton_hash(host.text)
        u.items.append({"name": "%s (scope-depth slice: %d enter_block, %d exit_block, %d bindings)" % (host.name, sl.n_enter, sl.n_exit, sl.n_bind), "generated_as": gname, "kind": "slice",
                        "where": host.where, "sha256_16": host.sha(), "skeleton": u.skeletons[gname]})
        tag = Tag("repo", fn=gname, repo_file=TC, repo_line=host.line0, props=props)
        u.raw("#[verifier::exec_allows_no_decreases_clause]", fn=gname, props=props)
        u.emit("pub fn %s(Ghost(d_entry): Ghost<int>) -> (r: Ghost<int>)" % gname, tag)
        u.raw("    ensures", fn=gname, props=props)
        oid = "tcscope.%s.post[every_path_leaves_the_scope_stack_at_the_depth_it_found]" % gname
        u.clauses.append((oid, props, "r@ == d_entry"))
        u.emit("        r@ == d_entry,", Tag("contract", fn=gname, clause=oid, props=props))
        u.emit("{", tag)
        u.emit("    let ghost mut depth: int = d_entry;", Tag("glue", fn=gname, props=props))
        for (t, ln) in _with_loop_invariants(sl.out, "depth == {N}, {N} >= d_entry"):
            u.emit(t, Tag("repo", fn=gname, repo_file=TC, repo_line=ln, props=props))
        u.emit("    Ghost(depth)", Tag("glue", fn=gname, props=props))
        u.emit("}", tag)
    # ---- binding order in the `let` and `for` arms of infer_expr_ --------------------------------------------
    host = src.find_fn("infer_expr_", impl="TypeCheckVisitor") if False else [it for it in src.all_fns() if it.name == "infer_expr_"][0]
    for arm_rx, expr_name, gname, what in (
            (r"Expression_::Let\(\s*dest\s*,\s*hint\s*,\s*(\w+)\s*\)\s*=>\s*\{", None, "order_let_arm", "the_right_hand_side_is_checked_before_the_destination_is_bound"),
            (r"Expression_::ForIn\(\s*dest\s*,\s*(\w+)\s*,\s*\w+\s*\)\s*=>\s*\{", None, "order_for_arm", "the_iterated_expression_is_checked_before_the_loop_variable_is_bound")):
        m = re.search(arm_rx, host.text)
        if not m:
            raise ExtractError("infer_expr_: arm %s not found" % arm_rx)
        ename = m.group(1)
        open_off = host.start + m.end() - 1
        toks = src.toks
        k0 = next(k for k, t in enumerate(toks) if t.start == open_off)
        sl = OrderSlicer(src, ename)
        c = sl.close(k0)
        sl.block(k0 + 1, c, "    ")
        if sl.n_binds < 1 or sl.n_checks < 1:
            raise ExtractError("infer_expr_ %s: %d checks of `%s`, %d bindings of the destination" % (gname, sl.n_checks, ename, sl.n_binds))
        arm_text = src.text[toks[k0].start:toks[c].end]
        u.fn_props[gname] = props
        u.skeletons[gname] = skeleton_hash(arm_text)
        line0 = src.line_of(toks[k0].start)
        u.items.append({"name": "infer_expr_ %s (order slice: %d checks of `%s`, %d bindings)" % (gname, sl.n_checks, ename, sl.n_binds), "generated_as": gname, "kind": "slice",
                        "where": "%s:%d" % (TC, line0), "sha256_16": "-", "skeleton": u.skeletons[gname]})
        tag = Tag("repo", fn=gname, repo_file=TC, repo_line=line0, props=props)
        u.raw("#[verifier::exec_allows_no_decreases_clause]", fn=gname, props=props)
        u.emit("pub fn %s() -> (r: (bool, bool))" % gname, tag)
        u.raw("    ensures", fn=gname, props=props)
        oid = "tcscope.%s.post[%s]" % (gname, what)
        u.clauses.append((oid, props, "!r.1"))
        u.emit("        !r.1,", Tag("contract", fn=gname, clause=oid, props=props))
        u.emit("{", tag)
        u.emit("    let mut checked = false; let mut bound_before_check = false;", Tag("glue", fn=gname, props=props))
        for (t, ln) in sl.out:
            u.emit(t, Tag("repo", fn=gname, repo_file=TC, repo_line=ln, props=props))
        u.emit("    (checked, bound_before_check)", Tag("glue", fn=gname, props=props))
        u.emit("}", tag)
    # ---- LocalBindings: a name reads as its innermost binding -------------------------------------------------------
    u.raw("#[derive(Clone, Copy, PartialEq, Eq)]")
    u.add_type("src/parser/ast.rs", "SyntaxId")
    u.raw(GLUE_LB, kind="prelude")
    u.add_type(TC, "LocalBindings", rules=[rw.simple("T1", r"FxHashMap<SymbolName, \(Type, Position\)>", "TcBlock")])
    specs = open(os.path.join(ROOT, "units", "bindings", "specs.rs")).read()
    for a_, b_ in (("BlockBindings", "TcBlock"), ("InternedSymbolId", "SymbolName"), ("Option<Value>", "Option<(Type, Position)>"), ("v: Value", "v: (Type, Position)"), ("bbm(", "tbm(")):
        specs = specs.replace(a_, b_)
    u.raw(specs, kind="spec")
    IMPL = "LocalBindings"
    BS, OLDB, FINB = "self.blocks@", "old(self).blocks@", "final(self).blocks@"
    u.add_fn(TC, "enter_block", impl=IMPL, rules=[rw.simple("R2", r"FxHashMap::default\(\)", "vtb_new()")],
             contract=Contract(ensures=[("a_new_empty_scope_on_top", "%s.len() == %s.len() + 1, %s.drop_last() == %s, tbm(%s.last()) == Map::<SymbolName, (Type, Position)>::empty()" % (FINB, OLDB, FINB, OLDB, FINB)),
                                        ("every_name_reads_as_before", "forall|n: SymbolName| lookup(%s, n) == lookup(%s, n)" % (FINB, OLDB))],
                               body_prelude="proof { assert forall|n: SymbolName| lookup(%s.push(vtb_new_spec()), n) == lookup(%s, n) by { } }" % (OLDB, OLDB) if False else None,
                               props=props))
    u.add_fn(TC, "exit_block", impl=IMPL,
             contract=Contract(ensures=[("the_innermost_scope_is_dropped", "%s.len() >= 1 ==> %s == %s.drop_last()" % (OLDB, FINB, OLDB))], props=props))
    u.add_fn(TC, "get", impl=IMPL, rules=["R6", "R4", rw.simple("R2", r"block\.get\(name\)", "vtb_get(block, name)")],
             contract=Contract(
                 ensures=[("innermost_binding", "match r { Some(tp) => lookup(%s, *name) == Some(*tp), None => lookup(%s, *name) is None }" % (BS, BS))],
                 loops={1: dict(invariant=[("not_in_the_inner_scopes", "{I} <= %s.len(), lookup(%s, *name) == lookup(%s.take({I} as int), *name)" % (BS, BS, BS))],
                                body_prelude="proof { lemma_lookup_skip(%s.take({I} as int), *name); assert(%s.take({I} as int).drop_last() =~= %s.take({I} as int - 1)); }" % (BS, BS, BS),
                                decreases="{I}")},
                 body_prelude="proof { assert(%s.take(%s.len() as int) =~= %s); }" % (BS, BS, BS),
                 props=props))
    u.add_fn(TC, "set", impl=IMPL,
             rules=[rw.simple("R13l", r"let block = self\.blocks\.last_mut\(\)\.expect\(\"[^\"]*\"\);\s*block\.insert\(symbol\.name\.clone\(\), \(ty, symbol\.position\.clone\(\)\)\);",
                              "vtb_insert_last(&mut self.blocks, symbol.name.clone(), (ty, symbol.position.clone()));")],
             contract=Contract(
                 requires=[("some_scope", "%s.len() >= 1" % OLDB)],
                 ensures=[("the_name_reads_as_the_new_binding", "lookup(%s, symbol.name) == Some((ty, symbol.position))" % FINB),
                          ("other_names_untouched", "forall|o: SymbolName| o != symbol.name ==> lookup(%s, o) == lookup(%s, o)" % (FINB, OLDB)),
                          ("bound_in_the_innermost_scope", "%s.len() == %s.len(), %s.drop_last() =~= %s.drop_last()" % (FINB, OLDB, FINB, OLDB))],
                 hints=[dict(anchor="vtb_insert_last(", where="after_stmt", name="innermost_scope_updated",
                             text="proof { let i = %s.len() - 1; lemma_lookup_update(%s, self.blocks@, i, symbol.name, (ty, symbol.position));\n"
                                  "    assert forall|o: SymbolName| o != symbol.name implies lookup(self.blocks@, o) == lookup(%s, o) by { lemma_lookup_other(%s, self.blocks@, i, symbol.name, (ty, symbol.position), o); } }" % (OLDB, OLDB, OLDB, OLDB))],
                 props=props))
    # ---- what a definition position is: set_binding records the symbol's own position, a use records the innermost binding's
    u.raw(GLUE_TV, kind="prelude")
    VB, VOLD, VFIN = "self.bindings.blocks@", "old(self).bindings.blocks@", "final(self).bindings.blocks@"
    u.add_fn(TC, "set_binding", impl="TypeCheckVisitor", wrap_impl="TypeCheckVisitor",
             contract=Contract(
                 requires=[("some_scope", "%s.len() >= 1" % VOLD)],
                 ensures=[("the_definition_of_a_binding_is_its_own_symbol", "dm(final(self).id_to_def_pos) == dm(old(self).id_to_def_pos).insert(symbol.id, symbol.position)"),
                          ("the_name_reads_as_this_binding", "lookup(%s, symbol.name) == Some((ty, symbol.position))" % VFIN),
                          ("other_names_untouched", "forall|o: SymbolName| o != symbol.name ==> lookup(%s, o) == lookup(%s, o)" % (VFIN, VOLD))],
                 props=props))
    u.add_range_fn(TC, "infer_var", "self.id_to_bindings", "if let Some((value_ty, position)) = self.bindings.get(&sym.name) {",
                   impl="TypeCheckVisitor",
                   sig="pub fn infer_var_local(v: &mut TypeCheckVisitor, expr_id: SyntaxId, sym: &Symbol) -> (r: Option<Type>)", suffix="\n    None",
                   rules=[rw.simple("R1s", r"\bself\.", "v."), rw.simple("R1r", r"return value_ty\.clone\(\);", "return Some(value_ty.clone());")],
                   contract=Contract(
                       ensures=[("a_use_of_a_local_refers_to_its_innermost_binding",
                                 "match lookup(old(v).bindings.blocks@, sym.name) { Some(tp) => r == Some(tp.0) && dm(final(v).id_to_def_pos) == dm(old(v).id_to_def_pos).insert(sym.id, tp.1), None => r is None && dm(final(v).id_to_def_pos) == dm(old(v).id_to_def_pos) }"),
                                ("scopes_untouched", "final(v).bindings == old(v).bindings")],
                       props=props))
    u.add_canary_proof()
    u.raw(common.FOOTER)
    return u
