"""Unit `tcscope` (C19): the local-variable scopes of the type checker (src/checks/type_checker.rs), whose
`id_to_def_pos` is what rename (and go-to-definition, highlight) resolve a use with.  Two families of slices,
regenerated from the source on every run (control flow kept, every other condition nondeterministic):

* block balance: every function that opens or closes a scope (`self.bindings.enter_block()` / `exit_block()`) leaves
  the scope stack at the depth it found it on every path (early returns and `?` included), never closes a scope it
  did not open, every loop iteration is balanced, and every binding it makes (parameters, receiver, match payloads, loop
  variables, catch variables) is made inside a scope it opened (only a `let` binds in the current scope);
* binding order: in the `let` arm and the `for` arm of infer_expr_, the expression that is evaluated before the
  binding exists (the right-hand side; the iterated expression) is checked before the destination is bound, on
  every path."""
import os
import re
import sys

HERE = os.path.dirname(os.path.abspath(__file__))
ROOT = os.path.dirname(os.path.dirname(HERE))
sys.path.insert(0, os.path.join(ROOT, "vc"))
sys.path.insert(0, os.path.join(ROOT, "units"))
from gen import UnitFile, Tag  # noqa: E402
from extract import ExtractError, skeleton_hash  # noqa: E402
from slicer import Slicer  # noqa: E402
import common  # noqa: E402

TC = "src/checks/type_checker.rs"
RLIMIT = 30
MIN_FUNCTIONS = 8

ASSUMPTIONS = {
    "nondet": "a dropped condition may go either way", "nondet_u8": "a dropped match may take any arm",
}
LEMMAS = {}
UNVERIFIED = {"C19": [
    "the scope slices keep only control flow, the calls that open / close a scope, the calls that bind a destination and the calls that check the expression named in the arm; that LocalBindings::get searches the scopes innermost-first, that infer_var records the position found, and that nothing else touches the scope stack, is not proved (rename.bounded[rename_corpus] covers it on a corpus)",
]}

GLUE = """
#[verifier::external_body]
pub fn nondet() -> (r: bool) { unimplemented!() }
#[verifier::external_body]
pub fn nondet_u8() -> (r: u8) { unimplemented!() }
"""

_SHADOW = "fun main() {\n  let total = 10\n  let add = fun(n: Int): Int { n + total }\n  if total > 5 {\n    let total: Int = total * 2\n    println(string_repr(add(total)))\n  }\n  for total in [total, total + 1] { println(string_repr(total)) }\n  println(string_repr(total))\n}\nmain()\n"
WITNESSES = [
    {"match": r"tcscope\.", "kind": "rename-corpus", "props": ["C19"], "expect": {}, "note": "renames around hinted shadowing lets and a shadowing for variable",
     "input": [{"what": "outer variable read by a hinted shadowing let and by a for header", "at": "let total = 10", "delta": 4, "count": 8, "src": _SHADOW},
               {"what": "hinted shadowing let", "at": "let total: Int", "delta": 4, "count": 2, "src": _SHADOW},
               {"what": "shadowing for variable", "at": "for total", "delta": 4, "count": 2, "src": _SHADOW}]},
]

ENTER = r"\bself\s*\.\s*bindings\s*\.\s*(?P<op>enter_block|exit_block)\s*\(\s*\)"
DEPTH_RX = ENTER + r"|\bself\s*\.\s*(?P<bind>set_binding|set_dest_binding)\s*\("


class DepthSlicer(Slicer):
    """keeps enter_block / exit_block; `depth` is a ghost counter"""
    def __init__(self, src, let_spans=()):
        Slicer.__init__(self, src, DEPTH_RX, flag_rx=r"\bno_such_flag_zz\b")
        self.ret = "return Ghost(depth);"
        self.loop_may_exit = True
        self.n_enter = self.n_exit = self.n_bind = 0
        self.let_spans = let_spans       # (start, end) offsets of `let` arms: binding in the current scope is what a `let` does
        self._off = 0

    def effects_in(self, a, b, indent):
        if a >= b:
            return
        base = self.toks[a].start
        seg = self.src.text[base:self.toks[b - 1].end]
        for m in self.effect_rx.finditer(seg):
            self._off = base + m.start()
            self.out.append((indent + self.render_effect(m), self.src.line_of(self._off)))
            self.n_effects += 1

    def render_effect(self, m):
        if m.group("bind"):
            self.n_bind += 1
            if any(a <= self._off < b for (a, b) in self.let_spans):
                return "{}   // a `let` binds in the current scope"
            return "proof { assert(depth > d_entry); }   // binds inside a scope this function opened"
        if m.group("op") == "enter_block":
            self.n_enter += 1
            return "proof { depth = depth + 1; }"
        self.n_exit += 1
        return "proof { assert(depth > d_entry); depth = depth - 1; }   // closes a scope this function opened"


class OrderSlicer(Slicer):
    """keeps the checks of the named expression and the binding of the destination"""
    def __init__(self, src, expr_name):
        rx = (r"\bself\s*\.\s*(?P<chk>check_expr|infer_expr)\s*\((?P<args>[^;{}]*)\)|\bself\s*\.\s*(?P<bind>set_dest_binding)\s*\(")
        Slicer.__init__(self, src, rx, flag_rx=r"\bno_such_flag_zz\b")
        self.ret = "return (checked, bound_before_check);"
        self.expr_name = expr_name
        self.n_checks = self.n_binds = 0

    def render_effect(self, m):
        if m.group("bind"):
            self.n_binds += 1
            return "if !checked { bound_before_check = true; }"
        if re.search(r"\b%s\b" % self.expr_name, m.group("args")):
            self.n_checks += 1
            return "checked = true;"
        return "{}"


def _body_tokens(src, host):
    toks = src.toks
    idx = [k for k, t in enumerate(toks) if host.start <= t.start < host.end]
    depth = 0
    for k in idx:
        tt = toks[k].text
        if toks[k].kind == "punct" and tt in "([":
            depth += 1
        elif toks[k].kind == "punct" and tt in ")]":
            depth -= 1
        elif tt == "{" and depth == 0:
            return k
    raise ExtractError("%s: body not found" % host.name)


def _with_loop_invariants(lines, inv):
    """every `while` / `loop` of the slice gets the invariant text `inv` (`{N}` = a fresh ghost snapshot name)"""
    out, n = [], 0
    for (t, ln) in lines:
        m = re.match(r"^(\s*)(while nondet\(\) \{|loop \{)\s*$", t)
        if m:
            n += 1
            out.append(("%slet ghost __d%d = depth;" % (m.group(1), n), ln))
            head = "while nondet()" if m.group(2).startswith("while") else "loop"
            out.append(("%s#[verifier::loop_isolation(false)] %s" % (m.group(1), head), ln))
            out.append(("%s    invariant %s," % (m.group(1), inv.replace("{N}", "__d%d" % n)), ln))
            out.append(("%s{" % m.group(1), ln))
        else:
            out.append((t, ln))
    return out


def build(tier):
    u = UnitFile("tcscope")
    u.raw(common.HEADER)
    u.raw(GLUE, kind="prelude")
    props = {"C19"}
    src = u.source(TC)
    # ---- block balance -----------------------------------------------------------------------------------
    hosts = [it for it in src.all_fns() if re.search(ENTER, it.text)]
    hosts = [h for h in hosts if h.name not in ("enter_block", "exit_block")]
    if len(hosts) < 6:
        raise ExtractError("type_checker.rs: only %d functions open or close a scope" % len(hosts))
    let_spans = []
    for m in re.finditer(r"Expression_::Let\([^)]*\)\s*=>\s*\{", src.text):
        k_ = next(k for k, t in enumerate(src.toks) if t.start == m.end() - 1)
        let_spans.append((m.start(), src.toks[DepthSlicer(src).close(k_)].end))
    seen = {}
    for host in hosts:
        sl = DepthSlicer(src, let_spans)
        k0 = _body_tokens(src, host)
        c = sl.close(k0)
        sl.block(k0 + 1, c, "    ")
        seen[host.name] = seen.get(host.name, 0) + 1
        gname = "scope_depth_%s%s" % (host.name, "" if seen[host.name] == 1 else "_%d" % seen[host.name])
        u.fn_props[gname] = props
        u.skeletons[gname] = skeleton_hash(host.text)
        u.items.append({"name": "%s (scope-depth slice: %d enter_block, %d exit_block, %d bindings)" % (host.name, sl.n_enter, sl.n_exit, sl.n_bind), "generated_as": gname, "kind": "slice",
                        "where": host.where, "sha256_16": host.sha(), "skeleton": u.skeletons[gname]})
        tag = Tag("repo", fn=gname, repo_file=TC, repo_line=host.line0, props=props)
        u.raw("#[verifier::exec_allows_no_decreases_clause]", fn=gname, props=props)
        u.emit("pub fn %s(Ghost(d_entry): Ghost<int>) -> (r: Ghost<int>)" % gname, tag)
        u.raw("    ensures", fn=gname, props=props)
        oid = "tcscope.%s.post[every_path_leaves_the_scope_stack_at_the_depth_it_found]" % gname
        u.clauses.append((oid, props, "r@ == d_entry"))
        u.emit("        r@ == d_entry,", Tag("contract", fn=gname, clause=oid, props=props))
        u.emit("{", tag)
        u.emit("    let ghost mut depth: int = d_entry;", Tag("glue", fn=gname, props=props))
        for (t, ln) in _with_loop_invariants(sl.out, "depth == {N}, {N} >= d_entry"):
            u.emit(t, Tag("repo", fn=gname, repo_file=TC, repo_line=ln, props=props))
        u.emit("    Ghost(depth)", Tag("glue", fn=gname, props=props))
        u.emit("}", tag)
    # ---- binding order in the `let` and `for` arms of infer_expr_ --------------------------------------------
    host = src.find_fn("infer_expr_", impl="TypeCheckVisitor") if False else [it for it in src.all_fns() if it.name == "infer_expr_"][0]
    for arm_rx, expr_name, gname, what in (
            (r"Expression_::Let\(\s*dest\s*,\s*hint\s*,\s*(\w+)\s*\)\s*=>\s*\{", None, "order_let_arm", "the_right_hand_side_is_checked_before_the_destination_is_bound"),
            (r"Expression_::ForIn\(\s*dest\s*,\s*(\w+)\s*,\s*\w+\s*\)\s*=>\s*\{", None, "order_for_arm", "the_iterated_expression_is_checked_before_the_loop_variable_is_bound")):
        m = re.search(arm_rx, host.text)
        if not m:
            raise ExtractError("infer_expr_: arm %s not found" % arm_rx)
        ename = m.group(1)
        open_off = host.start + m.end() - 1
        toks = src.toks
        k0 = next(k for k, t in enumerate(toks) if t.start == open_off)
        sl = OrderSlicer(src, ename)
        c = sl.close(k0)
        sl.block(k0 + 1, c, "    ")
        if sl.n_binds < 1 or sl.n_checks < 1:
            raise ExtractError("infer_expr_ %s: %d checks of `%s`, %d bindings of the destination" % (gname, sl.n_checks, ename, sl.n_binds))
        arm_text = src.text[toks[k0].start:toks[c].end]
        u.fn_props[gname] = props
        u.skeletons[gname] = skeleton_hash(arm_text)
        line0 = src.line_of(toks[k0].start)
        u.items.append({"name": "infer_expr_ %s (order slice: %d checks of `%s`, %d bindings)" % (gname, sl.n_checks, ename, sl.n_binds), "generated_as": gname, "kind": "slice",
                        "where": "%s:%d" % (TC, line0), "sha256_16": "-", "skeleton": u.skeletons[gname]})
        tag = Tag("repo", fn=gname, repo_file=TC, repo_line=line0, props=props)
        u.raw("#[verifier::exec_allows_no_decreases_clause]", fn=gname, props=props)
        u.emit("pub fn %s() -> (r: (bool, bool))" % gname, tag)
        u.raw("    ensures", fn=gname, props=props)
        oid = "tcscope.%s.post[%s]" % (gname, what)
        u.clauses.append((oid, props, "!r.1"))
        u.emit("        !r.1,", Tag("contract", fn=gname, clause=oid, props=props))
        u.emit("{", tag)
        u.emit("    let mut checked = false; let mut bound_before_check = false;", Tag("glue", fn=gname, props=props))
        for (t, ln) in sl.out:
            u.emit(t, Tag("repo", fn=gname, repo_file=TC, repo_line=ln, props=props))
        u.emit("    (checked, bound_before_check)", Tag("glue", fn=gname, props=props))
        u.emit("}", tag)
    u.add_canary_proof()
    u.raw(common.FOOTER)
    return u
