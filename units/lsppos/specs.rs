// ---- units/lsppos/specs.rs: ghost specification of LSP position conversion, written from the
// property statement (C29) and the LSP definition of a position (0-based line, UTF-16 column),
// over the char-sequence model of prelude/text.rs.  Everything here is PROVED by Verus.

/// char index of the start of the line that contains char position k
pub open spec fn lstart(cs: Seq<char>, k: int) -> int
    decreases k,
{
    if k <= 0 { 0 } else if cs[k - 1] == '\n' { k } else { lstart(cs, k - 1) }
}
/// number of newlines in cs
pub open spec fn nl_count(cs: Seq<char>) -> nat
    decreases cs.len(),
{
    if cs.len() == 0 { 0 } else { nl_count(cs.drop_last()) + (if cs.last() == '\n' { 1nat } else { 0nat }) }
}
/// char index of the first newline at or after `from`, or -1
pub open spec fn first_nl(cs: Seq<char>, from: int) -> int
    decreases cs.len() - from,
{
    if from < 0 || from >= cs.len() { -1 } else if cs[from] == '\n' { from } else { first_nl(cs, from + 1) }
}
/// char index of the start of line n (0-based), or -1 if the text has fewer than n newlines
pub open spec fn line_start_ix(cs: Seq<char>, n: nat) -> int
    decreases n,
{
    if n == 0 { 0 } else {
        let m = line_start_ix(cs, (n - 1) as nat);
        if m < 0 { -1 } else { let j = first_nl(cs, m); if j < 0 { -1 } else { j + 1 } }
    }
}
/// walking right from char index k on the line that starts at ls: the first position that is the end
/// of the text, a newline, or at least `character` UTF-16 units into the line
pub open spec fn walk(cs: Seq<char>, ls: int, k: int, character: nat) -> int
    decreases cs.len() - k,
{
    if k >= cs.len() { cs.len() as int }
    else if u16_cs(cs.subrange(ls, k)) >= character || cs[k] == '\n' { k }
    else { walk(cs, ls, k + 1, character) }
}
/// LSP (line, character) -> byte offset, clamped to the end of the line / of the text
pub open spec fn lc_to_off(cs: Seq<char>, line: nat, character: nat) -> nat {
    let ls = line_start_ix(cs, line);
    if ls < 0 { blen_cs(cs) } else { off(cs, walk(cs, ls, ls, character)) }
}
/// byte offset (at char index k) -> LSP character
pub open spec fn off_to_character(cs: Seq<char>, k: int) -> nat {
    u16_cs(cs.subrange(lstart(cs, k), k))
}
/// 0-based line of char index k
pub open spec fn line_ix(cs: Seq<char>, k: int) -> nat { nl_count(cs.take(k)) }

pub proof fn lemma_lstart(cs: Seq<char>, k: int)
    requires 0 <= k <= cs.len(),
    ensures 0 <= lstart(cs, k) <= k,
        lstart(cs, k) == 0 || cs[lstart(cs, k) - 1] == '\n',
        forall|j: int| lstart(cs, k) <= j < k ==> cs[j] != '\n',
    decreases k,
{
    if k > 0 && cs[k - 1] != '\n' { lemma_lstart(cs, k - 1); }
}
pub proof fn lemma_first_nl(cs: Seq<char>, from: int)
    requires 0 <= from <= cs.len(),
    ensures ({ let j = first_nl(cs, from);
        (j < 0 ==> forall|i: int| from <= i < cs.len() ==> cs[i] != '\n')
        && (j >= 0 ==> from <= j < cs.len() && cs[j] == '\n' && forall|i: int| from <= i < j ==> cs[i] != '\n') }),
    decreases cs.len() - from,
{
    if from < cs.len() && cs[from] != '\n' { lemma_first_nl(cs, from + 1); }
}
/// the first newline is determined by its characterisation
pub proof fn lemma_first_nl_is(cs: Seq<char>, from: int, j: int)
    requires 0 <= from <= j < cs.len(), cs[j] == '\n', forall|i: int| from <= i < j ==> cs[i] != '\n',
    ensures first_nl(cs, from) == j,
    decreases j - from,
{
    if from < j { lemma_first_nl_is(cs, from + 1, j); }
}
pub proof fn lemma_first_nl_none(cs: Seq<char>, from: int)
    requires 0 <= from <= cs.len(), forall|i: int| from <= i < cs.len() ==> cs[i] != '\n',
    ensures first_nl(cs, from) == -1,
    decreases cs.len() - from,
{
    if from < cs.len() { lemma_first_nl_none(cs, from + 1); }
}
pub proof fn lemma_line_start_ix_range(cs: Seq<char>, n: nat)
    ensures -1 <= line_start_ix(cs, n) <= cs.len(),
    decreases n,
{
    if n > 0 {
        lemma_line_start_ix_range(cs, (n - 1) as nat);
        let m = line_start_ix(cs, (n - 1) as nat);
        if m >= 0 { lemma_first_nl(cs, m); }
    }
}
pub proof fn lemma_line_start_ix_stays_none(cs: Seq<char>, n: nat, m: nat)
    requires n <= m, line_start_ix(cs, n) < 0,
    ensures line_start_ix(cs, m) < 0,
    decreases m - n,
{
    if n < m { lemma_line_start_ix_stays_none(cs, n, (m - 1) as nat); }
}
/// the start of line number `line_ix(k)` is `lstart(k)`
pub proof fn lemma_line_start_of_line_ix(cs: Seq<char>, k: int)
    requires 0 <= k <= cs.len(),
    ensures line_start_ix(cs, line_ix(cs, k)) == lstart(cs, k),
    decreases k,
{
    if k == 0 {
        assert(cs.take(0) =~= Seq::<char>::empty());
    } else {
        lemma_line_start_of_line_ix(cs, k - 1);
        assert(cs.take(k).drop_last() =~= cs.take(k - 1));
        assert(cs.take(k).last() == cs[k - 1]);
        if cs[k - 1] == '\n' {
            lemma_lstart(cs, k - 1);
            lemma_first_nl_is(cs, lstart(cs, k - 1), k - 1);
        }
    }
}
pub proof fn lemma_walk_range(cs: Seq<char>, ls: int, k: int, character: nat)
    requires 0 <= ls <= k <= cs.len(),
    ensures k <= walk(cs, ls, k, character) <= cs.len(),
    decreases cs.len() - k,
{
    if k < cs.len() && !(u16_cs(cs.subrange(ls, k)) >= character || cs[k] == '\n') { lemma_walk_range(cs, ls, k + 1, character); }
}
pub proof fn lemma_walk_back(cs: Seq<char>, ls: int, p: int, k: int)
    requires 0 <= ls <= p <= k <= cs.len(), forall|j: int| ls <= j < k ==> cs[j] != '\n',
    ensures walk(cs, ls, p, u16_cs(cs.subrange(ls, k))) == k,
    decreases k - p,
{
    if p < k {
        lemma_u16_split(cs, ls, p, k);
        lemma_walk_back(cs, ls, p + 1, k);
    }
}
/// C29, first sentence: offset -> (line, character) -> offset is the identity on char boundaries
pub proof fn lemma_round_trip(cs: Seq<char>, k: int)
    requires 0 <= k <= cs.len(),
    ensures lc_to_off(cs, line_ix(cs, k), off_to_character(cs, k)) == off(cs, k),
{
    lemma_line_start_of_line_ix(cs, k);
    lemma_lstart(cs, k);
    lemma_walk_back(cs, lstart(cs, k), lstart(cs, k), k);
}
/// and (line, character) of an offset is a fixed point the other way round: converting the offset
/// that a position denotes back gives a position that denotes the same offset
pub proof fn lemma_round_trip_idempotent(cs: Seq<char>, line: nat, character: nat)
    ensures ({ let o = lc_to_off(cs, line, character);
        is_cbt(cs, o as int) && lc_to_off(cs, line_ix(cs, cix(cs, o as int)), off_to_character(cs, cix(cs, o as int))) == o }),
{
    let ls = line_start_ix(cs, line);
    lemma_line_start_ix_range(cs, line);
    lemma_off_zero(cs);
    if ls < 0 {
        lemma_cix(cs, cs.len() as int);
        lemma_round_trip(cs, cs.len() as int);
    } else {
        lemma_walk_range(cs, ls, ls, character);
        let k = walk(cs, ls, ls, character);
        lemma_cix(cs, k);
        lemma_round_trip(cs, k);
    }
}
