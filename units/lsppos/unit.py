"""Unit `lsppos` (C29): offset_to_lsp_position, garden_pos_to_lsp_range, line_char_to_offset,
whole_document_range (src/lsp.rs), extracted verbatim and proved equal to ghost conversion functions
written from the LSP definition of a position; the round trip is a proved lemma over those."""
import os
import re
import sys

HERE = os.path.dirname(os.path.abspath(__file__))
ROOT = os.path.dirname(os.path.dirname(HERE))
sys.path.insert(0, os.path.join(ROOT, "vc"))
sys.path.insert(0, os.path.join(ROOT, "units"))
import rewrite as rw  # noqa: E402
from gen import Contract, UnitFile  # noqa: E402
import common  # noqa: E402

LSP = "src/lsp.rs"
POS = "src/parser/position.rs"
VFS = "src/parser/vfs.rs"
RLIMIT = 200
MIN_FUNCTIONS = 4

ASSUMPTIONS = {
    "axiom_clen": "char::len_utf8 is between 1 and 4, and 1 for ASCII", "axiom_clen16": "char::len_utf16 is 1 or 2",
    "axiom_len_bound": "a str is at most isize::MAX bytes long",
    "vt_len": "str::len is the sum of the chars' UTF-8 lengths", "vt_slice": "&s[a..b]: panics unless both are char boundaries; the chars between them",
    "vt_slice_from": "&s[a..]", "vt_find_char": "str::find(char): byte index of the first occurrence",
    "vt_rfind_char": "str::rfind(char): byte index of the last occurrence", "vt_utf16_count": "s.encode_utf16().count() is the sum of the chars' UTF-16 lengths",
    "vtc_len_utf8": "char::len_utf8", "vtc_len_utf16": "char::len_utf16", "vu_min": "usize::min",
    "CharIndices": "std::str::CharIndices", "vt_char_indices": "str::char_indices yields (byte offset, char) for each char in order",
    "next": "Iterator::next of CharIndices",
    "vt_is_empty": "str::is_empty", "vt_is_char_boundary": "str::is_char_boundary: true exactly at the byte offsets where a char starts, and at the end", "vt_ends_with_char": "str::ends_with(char)",
    "vt_lines_count": "str::lines().count(): one line per '\\n', plus one for a non-empty unterminated last line",
    "vt_last_line_utf16": "str::lines().last() of a text that does not end in '\\n' is the text after its last '\\n' (a bare trailing '\\r' is kept, Rust >= 1.77)",
    "vu_saturating_sub": "usize::saturating_sub",
    "PathBuf": "opaque", "vc_clone": "Clone", "vs_string_eq_lit": "-", "vs_string_eq": "-", "vs_string_from_lit": "-",
}
LEMMAS = {
    "lemma_round_trip": {"C29"}, "lemma_round_trip_idempotent": {"C29"},
    "lemma_off_step": {"C29"}, "lemma_off_zero": {"C29"}, "lemma_off_mono": {"C29"}, "lemma_off_inj": {"C29"},
    "lemma_cix": {"C29"}, "lemma_cix_props": {"C29"}, "lemma_blen_concat": {"C29"}, "lemma_off_sub": {"C29"},
    "lemma_u16_bounds": {"C29"}, "lemma_u16_split": {"C29"}, "lemma_lstart": {"C29"}, "lemma_first_nl": {"C29"},
    "lemma_first_nl_is": {"C29"}, "lemma_first_nl_none": {"C29"}, "lemma_line_start_ix_range": {"C29"},
    "lemma_line_start_ix_stays_none": {"C29"}, "lemma_line_start_of_line_ix": {"C29"}, "lemma_walk_range": {"C29"},
    "lemma_walk_back": {"C29"}, "lemma_rfind_line_start": {"C29"}, "lemma_find_next_line": {"C29"},
    "lemma_lines_count": {"C29"},
}
UNVERIFIED = {"C28": [
    "only the position conversions are under contract here (they do not panic, and line_char_to_offset returns an in-range character boundary for every line / character); what each handler does with that offset (completions, hover, signature help ...) is covered by the bounded position sweep only",
], "C29": [
    "the callers of these four functions in lsp.rs (handle_* request handlers): that they pass a Garden position of the same text whose line numbers are the lines of its offsets (that is C23's pos_ok, proved for lexer positions only); since 4e64319 this matters for exactness only: for an offset of another text the conversion is proved not to panic and to give the position of the last character boundary at or before it",
    "second sentence of C29 (text edits applied as LSP defines give the command-line result): every edit the server returns for formatting / code actions replaces whole_document_range(src) by the new text, so it reduces to whole_document_range covering the document (proved here) and to the handlers passing the same offsets to the same refactoring functions (not under contract); rename edits (handle_rename) are per-occurrence ranges built by garden_pos_to_lsp_range (proved here)",
    "`as u32` truncation of line/character: the contracts state equality of the truncated values; documents with more than u32::MAX lines or UTF-16 units on a line are outside the LSP protocol",
]}

GLUE = """
#[verifier::external_body] pub struct PathBuf { _o: u8 }
// gen_lsp_types::{Position, Range}: two public u32 fields / two public Position fields (ASSUMED shape)
pub struct Position { pub line: u32, pub character: u32 }
pub struct Range { pub start: Position, pub end: Position }
impl Clone for Position {
    fn clone(&self) -> (r: Self) ensures r == *self { Position { line: self.line, character: self.character } }
}
impl Clone for Range {
    fn clone(&self) -> (r: Self) ensures r == *self { Range { start: self.start.clone(), end: self.end.clone() } }
}
/// document order of LSP positions
pub open spec fn pos_le(a: Position, b: Position) -> bool { a.line < b.line || (a.line == b.line && a.character <= b.character) }

#[verifier::external_body]
pub fn vt_is_empty(s: &str) -> (r: bool) ensures r == (s@.len() == 0) { s.is_empty() }
#[verifier::external_body]
pub fn vt_ends_with_char(s: &str, c: char) -> (r: bool) ensures r == (s@.len() > 0 && s@.last() == c) { s.ends_with(c) }
#[verifier::external_body]
pub fn vu_saturating_sub(a: usize, b: usize) -> (r: usize) ensures r == (if a >= b { a - b } else { 0 }) { a.saturating_sub(b) }
"""
GLUE_AFTER_SPECS = """
/// `s.is_char_boundary(i)`: the start, the end, or the first byte of a char; false past the end
#[verifier::external_body]
pub fn vt_is_char_boundary(s: &str, i: usize) -> (r: bool) ensures r == is_cbt(s@, i as int) { s.is_char_boundary(i) }
/// the last char boundary at or before byte offset o
pub open spec fn floor_cb(cs: Seq<char>, o: int) -> int decreases o {
    if o <= 0 || is_cbt(cs, o) { o } else { floor_cb(cs, o - 1) }
}
pub proof fn lemma_floor_cb(cs: Seq<char>, o: int)
    requires 0 <= o <= blen_cs(cs),
    ensures is_cbt(cs, floor_cb(cs, o)), 0 <= floor_cb(cs, o) <= o, is_cbt(cs, o) ==> floor_cb(cs, o) == o,
    decreases o,
{
    lemma_off_zero(cs);
    assert(off(cs, 0) == 0);
    if o <= 0 || is_cbt(cs, o) { } else { lemma_floor_cb(cs, o - 1); }
}
/// `s.lines().count()`
#[verifier::external_body]
pub fn vt_lines_count(s: &str) -> (r: usize)
    ensures r == nl_count(s@) + (if s@.len() > 0 && s@.last() != '\\n' { 1nat } else { 0nat }),
{ s.lines().count() }
/// `s.lines().last().map_or(0, |l| l.encode_utf16().count())`
#[verifier::external_body]
pub fn vt_last_line_utf16(s: &str) -> (r: usize)
    ensures s@.len() > 0 && s@.last() != '\\n' ==> r == u16_cs(s@.subrange(lstart(s@, s@.len() as int), s@.len() as int)),
        s@.len() == 0 ==> r == 0,
{ s.lines().last().map_or(0, |l| l.encode_utf16().count()) }

pub proof fn lemma_rfind_line_start(cs: Seq<char>, k: int, ls: int)
    requires 0 <= k <= cs.len(),
        (ls == 0 && forall|j: int| 0 <= j < cs.take(k).len() ==> cs.take(k)[j] != '\\n')
        || (exists|j: int| 0 <= j < cs.take(k).len() && cs.take(k)[j] == '\\n' && #[trigger] off(cs.take(k), j) + 1 == ls && forall|i: int| j < i < cs.take(k).len() ==> cs.take(k)[i] != '\\n'),
    ensures ls == off(cs, lstart(cs, k)), 0 <= lstart(cs, k) <= k,
{
    lemma_lstart(cs, k);
    lemma_off_zero(cs);
    let sub = cs.take(k);
    if ls == 0 && forall|j: int| 0 <= j < sub.len() ==> sub[j] != '\\n' {
        let l = lstart(cs, k);
        if l != 0 { assert(sub[l - 1] == '\\n'); }
    } else {
        let j = choose|j: int| 0 <= j < sub.len() && sub[j] == '\\n' && #[trigger] off(sub, j) + 1 == ls && forall|i: int| j < i < sub.len() ==> sub[i] != '\\n';
        let l = lstart(cs, k);
        assert(cs[j] == sub[j]);
        if l <= j { assert(cs[j] != '\\n'); }
        if l > j + 1 { assert(sub[l - 1] == '\\n'); }
        assert(cs.take(k) =~= cs.subrange(0, k));
        lemma_off_sub(cs, 0, k, j);
        lemma_off_step(cs, j);
    }
}
pub proof fn lemma_find_next_line(cs: Seq<char>, m: int, i: int)
    requires 0 <= m <= cs.len(),
        exists|k: int| 0 <= k < cs.subrange(m, cs.len() as int).len() && cs.subrange(m, cs.len() as int)[k] == '\\n' && #[trigger] off(cs.subrange(m, cs.len() as int), k) == i
            && (forall|j: int| 0 <= j < k ==> cs.subrange(m, cs.len() as int)[j] != '\\n'),
    ensures first_nl(cs, m) >= 0, off(cs, m) + i + 1 == off(cs, first_nl(cs, m) + 1), is_cbt(cs, off(cs, m) + i + 1),
        cix(cs, off(cs, m) + i + 1) == first_nl(cs, m) + 1, off(cs, m) + i + 1 <= blen_cs(cs),
{
    let sub = cs.subrange(m, cs.len() as int);
    let k = choose|k: int| 0 <= k < sub.len() && sub[k] == '\\n' && #[trigger] off(sub, k) == i && (forall|j: int| 0 <= j < k ==> sub[j] != '\\n');
    assert(cs[m + k] == '\\n') by { assert(sub[k] == cs[m + k]); }
    assert forall|j: int| m <= j < m + k implies cs[j] != '\\n' by { assert(sub[j - m] == cs[j]); }
    lemma_first_nl_is(cs, m, m + k);
    lemma_off_sub(cs, m, cs.len() as int, k);
    lemma_off_step(cs, m + k);
    lemma_cix(cs, m + k + 1);
    lemma_off_mono(cs, m + k + 1, cs.len() as int); lemma_off_zero(cs);
}
/// the LSP position of the end of the text, in terms of what `lines()` reports
pub proof fn lemma_lines_count(cs: Seq<char>)
    ensures line_ix(cs, cs.len() as int) == nl_count(cs),
        cs.len() > 0 && cs.last() == '\\n' ==> off_to_character(cs, cs.len() as int) == 0,
        cs.len() == 0 ==> off_to_character(cs, cs.len() as int) == 0 && nl_count(cs) == 0,
{
    assert(cs.take(cs.len() as int) =~= cs);
    let n = cs.len() as int;
    if n == 0 || cs.last() == '\\n' {
        assert(lstart(cs, n) == n);
        assert(cs.subrange(n, n) =~= Seq::<char>::empty());
    }
}
"""

# the position denoted by (line_number, byte offset `o`) of the document
def o2l(o, ln):
    return ("({{ let o = floor_cb(src@, (if {o} <= blen_cs(src@) {{ {o} as int }} else {{ blen_cs(src@) as int }}));"
            " r.character == off_to_character(src@, cix(src@, o)) as u32 && r.line == {ln} as u32 }})").format(o=o, ln=ln)


def clamp_cb(o):
    return "is_cbt(src@, (if {o} <= blen_cs(src@) {{ {o} as int }} else {{ blen_cs(src@) as int }}))".format(o=o)


RULES = [
    rw.simple("R2", r"\boffset\.min\(src\.len\(\)\)", "vu_min(offset, vt_len(src))"),
    rw.simple("R2", r"\bsrc\.is_char_boundary\((\w+)\)", r"vt_is_char_boundary(src, \1)"),
    # R13b: `X.rfind(c).map_or(D, |v| BODY)` is `match X.rfind(c) { Some(v) => BODY, None => D }`
    rw.simple("R13b", r"src\[\.\.(\w+)\]\.(r?find)\(('(?:\\.|[^'])')\)\.map_or\((\w+), \|(\w+)\| ([^)]*)\)",
              r"match vt_\2_char(vt_slice(src, 0, \1), \3) { Some(\5) => \6, None => \4 }"),
    rw.simple("R1", r"src\[(\w+)\.\.(\w+)\]\.encode_utf16\(\)\.count\(\)", r"vt_utf16_count(vt_slice(src, \1, \2))"),
    # R4r: `for _ in 0..N {` is N iterations
    rw.simple("R4r", r"for _ in 0\.\.(\w+) \{", lambda m: "let mut __i1: usize = 0; while __i1 < %s { __i1 += 1;" % m.group(1)),
    rw.simple("R1", r"src\[(\w+)\.\.\]\.(r?find)\(('(?:\\.|[^'])')\)", r"vt_\2_char(vt_slice_from(src, \1), \3)"),
    # R4ci: `for (i, c) in X.char_indices() {` is IntoIterator::into_iter + next (definition of `for`)
    rw.simple("R4ci", r"for \((\w+), (\w+)\) in src\[(\w+)\.\.\]\.char_indices\(\) \{",
              r"let mut __it2 = vt_char_indices(vt_slice_from(src, \3)); while let Some((\1, \2)) = __it2.next() {"),
    rw.simple("R2", r"\b(\w+)\.len_utf16\(\)", r"vtc_len_utf16(\1)"),
    rw.simple("R2", r"\b(\w+)\.len_utf8\(\)", r"vtc_len_utf8(\1)"),
    rw.simple("R2", r"\bsrc\.len\(\)", "vt_len(src)"),
    # R14: a match arm `PAT => EXPR,` is `PAT => { EXPR },`
    rw.simple("R14", r"(Some\(\w+\)|None) => ((?!\{)[^\n]*?),\n", r"\1 => { \2 },\n"),
    rw.simple("R2", r"\bsrc\.is_empty\(\)", "vt_is_empty(src)"),
    rw.simple("R2", r"\bsrc\.ends_with\(('(?:\\.|[^'])')\)", r"vt_ends_with_char(src, \1)"),
    rw.simple("R2", r"\bsrc\.lines\(\)\.count\(\)", "vt_lines_count(src)"),
    rw.simple("R13b", r"src\.lines\(\)\.last\(\)\.map_or\(0, \|l\| l\.encode_utf16\(\)\.count\(\)\)", "vt_last_line_utf16(src)"),
    rw.simple("R2", r"\b(\w+)\.saturating_sub\((\w+)\)", r"vu_saturating_sub(\1, \2)"),
    rw.simple("local", r"&GardenPosition\b", "&GardenPosition"),
]
RULE_NOTES = {
    "R13b": "`X.map_or(D, |v| BODY)` on an Option -> `match X { Some(v) => BODY, None => D }` (definition of Option::map_or)",
    "R4r": "`for _ in 0..N {` -> counting loop with N iterations (definition of Range iteration)",
    "R4ci": "`for (i, c) in X.char_indices()` -> `let mut it = X.char_indices(); while let Some((i, c)) = it.next()` (definition of `for`)",
    "R14": "match arm `PAT => EXPR,` -> `PAT => { EXPR },` (so that a proof hint can precede EXPR)",
    "R1": "str slicing / searching -> prelude function with the std-documented specification",
    "R2": "std method -> prelude function with the std-documented specification",
}

def _lsp_witness(doc, what):
    """An LSP session over `doc`: go-to-definition from every use of `foo`, highlights of all its
    occurrences and whole-document formatting; the expected answers are computed here from the LSP
    definition of a position (0-based line, UTF-16 column)."""
    import json as _j
    uri = "file:///w.gdn"

    def pos(off):
        line = doc.count("\n", 0, off)
        ls = doc.rfind("\n", 0, off) + 1
        return {"line": line, "character": len(doc[ls:off].encode("utf-16-le")) // 2}
    occ = [m.start() for m in re.finditer(r"\bfoo\b", doc)]
    rng = lambda a, b: {"start": pos(a), "end": pos(b)}
    msgs = [{"jsonrpc": "2.0", "method": "textDocument/didOpen", "params": {"textDocument": {"uri": uri, "languageId": "garden", "version": 1, "text": doc}}}]
    exp = []
    n = 0
    for o in occ[1:]:
        for d in (0, 1, 3):
            n += 1
            msgs.append({"jsonrpc": "2.0", "id": n, "method": "textDocument/definition", "params": {"textDocument": {"uri": uri}, "position": pos(o + d)}})
            exp.append([n, {"range": rng(occ[0], occ[0] + 3), "uri": uri}])
    n += 1
    msgs.append({"jsonrpc": "2.0", "id": n, "method": "textDocument/documentHighlight", "params": {"textDocument": {"uri": uri}, "position": pos(occ[0] + 1)}})
    exp.append([n, [{"range": rng(o, o + 3)} for o in occ]])
    n += 1
    msgs.append({"jsonrpc": "2.0", "id": n, "method": "textDocument/formatting", "params": {"textDocument": {"uri": uri}, "options": {"tabSize": 2, "insertSpaces": True}}})
    exp.append([n, "whole-document", rng(0, len(doc))])
    oracle = ("(lambda got, exp: '' if got == exp else 'LSP answers %r differ from the positions the LSP definition gives %r' % (got, exp))("
              "[[o.get('id'), o.get('result')] if not (isinstance(o.get('result'), list) and o['result'] and 'newText' in o['result'][0]) "
              "else [o.get('id'), 'whole-document', o['result'][0]['range']] for o in jsons(full_out) if 'id' in o], " + repr(exp) + ")")
    return {"match": r"lsppos\.", "kind": "lsp", "props": ["C29"], "input": msgs, "expect": {"py": oracle}, "note": what}


WITNESSES = [
    _lsp_witness('fun foo(): Int { 1 }\n\nlet s = "\U0001F600\u00e9\U0001F600"  let r = foo()\nfoo( )', "non-ASCII text before an identifier; no trailing newline"),
    _lsp_witness('// \u00e9\U0001F600\nfun foo(): Int { 1 }\n\n\nlet t = ("\u4e16\u754c", foo( ))\n\n', "multi-byte comment line, blank lines, trailing newlines"),
    _lsp_witness('fun foo(): Int { 1 }\nlet u = "\U0001F600"  foo( )\n', "single trailing newline"),
    _lsp_witness('fun foo(): Int { 1 }\r\n\r\nlet s = "\u00e9\U0001F600"  let r = foo()\r\n  foo( )\r\nfoo( )', "CRLF line endings, positions on later lines"),
    _lsp_witness('// \u4e16\r\nfun foo(): Int { 1 }\r\nlet t = ("\u754c", foo( ))\r\n', "CRLF with multi-byte characters before the line"),
]
_SWEEP = common.lsp_sweep_witnesses(r"lsppos\.line_char_to_offset", ["C28", "C29"])
WITNESSES.append({"match": r"lsppos\.line_char_to_offset", "kind": "lsp-sweep", "props": ["C28", "C29"], "input": _SWEEP, "expect": {}, "timeout": 600,
                  "note": "position sweeps over %d documents (every UTF-16 column, including the middle of surrogate pairs and out-of-range positions)" % len(_SWEEP)})


BOUNDED = [
    {"name": "quick_fix_ranges", "kind": "lsp-fix-ranges", "props": ["C29"], "input": common.LSP_FIX_PROGRAMS, "n_inputs": len(common.LSP_FIX_PROGRAMS), "bound": common.LSP_FIX_BOUND, "expect": {}},
]


def build(tier):
    u = UnitFile("lsppos")
    u.raw(common.HEADER)
    u.raw(common.prelude("strings.rs"), kind="prelude")
    u.raw(common.prelude("text.rs"), kind="prelude")
    u.raw(GLUE, kind="prelude")
    u.raw(open(os.path.join(HERE, "specs.rs")).read(), kind="spec")
    u.raw(GLUE_AFTER_SPECS, kind="prelude")
    u.add_type(VFS, "VfsId")
    u.add_type(VFS, "VfsPathBuf")
    u.add_type(POS, "Position", subst=[(r"\bstruct Position\b", "struct GardenPosition")])
    c29 = {"C29"}
    u.add_fn(LSP, "offset_to_lsp_position", rules=RULES, contract=Contract(
        ensures=[("is_lsp_position_of_offset", o2l("offset", "line_number"))],
        loops={1: dict(invariant=[("in_range", "offset <= blen_cs(src@)"),
                                  ("same_boundary_below", "floor_cb(src@, offset as int) == floor_cb(src@, o0 as int)")],
                       decreases="offset",
                       body_prelude="proof { lemma_off_zero(src@); assert(off(src@, 0) == 0); }")},
        hints=[
            dict(anchor="while", where="before", name="clamped",
                 text="let ghost o0 = offset; proof { lemma_floor_cb(src@, o0 as int); }"),
            dict(anchor="let line_start", where="before", name="boundary_facts",
                 text="proof { lemma_cix_props(src@, offset as int); lemma_cix(src@, 0); lemma_off_zero(src@);\n"
                      "    assert(src@.subrange(0, cix(src@, offset as int)) =~= src@.take(cix(src@, offset as int))); }"),
            dict(anchor="let line_start", where="after_stmt", name="line_start_is_after_last_newline",
                 text="proof { lemma_rfind_line_start(src@, cix(src@, offset as int), line_start as int);\n"
                      "    lemma_cix(src@, lstart(src@, cix(src@, offset as int)));\n"
                      "    lemma_off_mono(src@, lstart(src@, cix(src@, offset as int)), cix(src@, offset as int)); }"),
        ],
        props=c29, safety_props={"C28", "C29"}))
    u.add_fn(LSP, "garden_pos_to_lsp_range", rules=RULES, contract=Contract(
        ensures=[("start_is_lsp_position", o2l("pos.start_offset", "pos.line_number").replace("r.", "r.start.")),
                 ("end_is_lsp_position", o2l("pos.end_offset", "pos.end_line_number").replace("r.", "r.end."))],
        props=c29, safety_props={"C28", "C29"}))
    M = "cix(src@, line_start as int)"
    u.add_fn(LSP, "line_char_to_offset", rules=RULES, contract=Contract(
        ensures=[("is_offset_of_lsp_position", "r == lc_to_off(src@, line as nat, character as nat)"),
                 # the handlers slice the document at this offset: off a character boundary or past the end they panic (C28)
                 ("on_char_boundary", "is_cbt(src@, r as int)", {"C28", "C29"}), ("in_range", "r <= blen_cs(src@)", {"C28", "C29"})],
        body_prelude="proof { lemma_cix(src@, 0); lemma_off_zero(src@); }",
        loops={
            1: dict(invariant=[
                ("counted", "__i1 <= line"), ("in_range", "line_start <= blen_cs(src@)"), ("on_boundary", "is_cbt(src@, line_start as int)"),
                ("is_start_of_line_i", "cix(src@, line_start as int) == line_start_ix(src@, __i1 as nat)")],
                decreases="line - __i1",
                body_prelude="proof { lemma_cix_props(src@, line_start as int); lemma_first_nl(src@, %s); }" % M),
            2: dict(invariant=[
                ("iterates_rest_of_text", "ci_src(&__it2) == src@.subrange(m, src@.len() as int), 0 <= ci_pos(&__it2) <= src@.len() - m"),
                ("line_start_fixed", "0 <= m <= src@.len(), off(src@, m) == line_start, m == line_start_ix(src@, line as nat)"),
                ("units_counted", "units == u16_cs(src@.subrange(m, m + ci_pos(&__it2)))"),
                ("offset_tracks", "offset == off(src@, m + ci_pos(&__it2))"),
                ("walk_so_far", "walk(src@, m, m, character as nat) == walk(src@, m, m + ci_pos(&__it2), character as nat)")],
                ensures=[("exhausted", "ci_pos(&__it2) >= src@.len() - m")],
                decreases="src@.len() - m - ci_pos(&__it2)",
                body_prelude="""proof {
    let p = ci_pos(&__it2) - 1;
    lemma_off_sub(src@, m, src@.len() as int, p);
    lemma_off_sub(src@, m, src@.len() as int, p + 1);
    lemma_off_step(src@, m + p);
    lemma_u16_split(src@, m, m + p, m + p + 1);
    lemma_u16_bounds(src@.subrange(m, m + p));
    assert(src@.subrange(m + p, m + p + 1) =~= seq![src@[m + p]]);
    assert(u16_cs(seq![src@[m + p]]) == clen16(src@[m + p])) by { assert(seq![src@[m + p]].drop_last() =~= Seq::<char>::empty()); assert(u16_cs(Seq::<char>::empty()) == 0); }
    lemma_off_mono(src@, 0, m + p + 1); lemma_off_zero(src@); lemma_off_mono(src@, m + p + 1, src@.len() as int);
    lemma_cix(src@, m + p);
}"""),
        },
        hints=[
            dict(anchor="Some(i) => {", where="after", name="next_line_start",
                 text="proof { lemma_find_next_line(src@, %s, i as int); }" % M),
            dict(anchor="None => {", where="after", name="fewer_lines_than_asked",
                 text="""proof {
    let m0 = %s;
    assert forall|i: int| m0 <= i < src@.len() implies src@[i] != '\\n' by { assert(src@.subrange(m0, src@.len() as int)[i - m0] == src@[i]); }
    lemma_first_nl_none(src@, m0);
    lemma_line_start_ix_stays_none(src@, __i1 as nat, line as nat);
    lemma_cix(src@, src@.len() as int); lemma_off_zero(src@);
}""" % M),
            dict(anchor="let mut units", where="before", name="line_start_char_index",
                 text="let ghost m = %s;\nproof { lemma_cix_props(src@, line_start as int); lemma_u16_bounds(src@.subrange(m, m)); lemma_off_sub(src@, m, src@.len() as int, 0); }" % M),
            dict(anchor="offset", where="before", nth=-1, name="end_of_text",
                 text="proof { lemma_off_zero(src@); lemma_cix(src@, src@.len() as int); }"),
        ],
        props=c29, safety_props={"C28", "C29"}))
    u.add_fn(LSP, "whole_document_range", rules=RULES, contract=Contract(
        ensures=[("starts_at_origin", "r.start.line == 0 && r.start.character == 0"),
                 ("ends_at_lsp_position_of_end_of_text",
                  "r.end.line == line_ix(src@, src@.len() as int) as u32 && r.end.character == off_to_character(src@, src@.len() as int) as u32")],
        body_prelude="proof { lemma_lines_count(src@); }",
        props=c29, safety_props={"C28", "C29"}))
    # the requested range of a code action: put in order, then compared with each fix's range
    c28 = {"C28", "C29"}
    u.add_fn(LSP, "normalized_range", contract=Contract(
        ensures=[("start_is_not_after_end", "pos_le(r.start, r.end)"),
                 ("the_same_two_positions", "(r.start == range.start && r.end == range.end) || (r.start == range.end && r.end == range.start)"),
                 ("a_range_in_order_is_kept", "pos_le(range.start, range.end) ==> r == *range")],
        props=c28, safety_props=c28))
    u.add_fn(LSP, "ranges_overlap", contract=Contract(
        requires=[("both_in_order", "pos_le(a.start, a.end), pos_le(b.start, b.end)")],
        ensures=[("overlap_is_sharing_a_position", "r == (pos_le(a.start, b.end) && pos_le(b.start, a.end))"),
                 ("symmetric", "r == (pos_le(b.start, a.end) && pos_le(a.start, b.end))")],
        props=c28, safety_props=c28))
    u.add_canary_proof()
    u.raw(common.FOOTER)
    return u
