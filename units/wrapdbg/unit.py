"""Unit `wrapdbg` (C21, first half): the text splice of wrap_in_dbg (src/wrap_in_dbg.rs): the result is the source
with `dbg(` inserted at the start and `)` at the end of the span of the expression the parser found at the selection,
every other character kept.  That the wrapped program behaves the same is checked on a corpus only (bounded)."""
import os
import sys

HERE = os.path.dirname(os.path.abspath(__file__))
ROOT = os.path.dirname(os.path.dirname(HERE))
sys.path.insert(0, os.path.join(ROOT, "vc"))
sys.path.insert(0, os.path.join(ROOT, "units"))
import rewrite as rw  # noqa: E402
from gen import Contract, UnitFile  # noqa: E402
import common  # noqa: E402

WD = "src/wrap_in_dbg.rs"
TA = "src/add_type_annotation.rs"
POS = "src/parser/position.rs"
VFS = "src/parser/vfs.rs"
RLIMIT = 60
MIN_FUNCTIONS = 1

ASSUMPTIONS = {
    "axiom_clen": "char::len_utf8 is between 1 and 4, and 1 for ASCII", "axiom_clen16": "-", "axiom_len_bound": "a str is at most isize::MAX bytes long",
    "vt_len": "-", "vt_slice": "&s[a..b]: panics unless both are char boundaries; the chars between them", "vt_slice_from": "&s[a..]",
    "vt_find_char": "(unused here)", "vt_rfind_char": "(unused here)", "vt_utf16_count": "(unused here)",
    "vtc_len_utf8": "-", "vtc_len_utf16": "-", "vu_min": "-", "CharIndices": "(unused here)", "vt_char_indices": "(unused here)", "next": "(unused here)",
    "vc_clone": "-", "vs_string_eq_lit": "-", "vs_string_eq": "-", "vs_string_from_lit": "-",
    "PathBuf": "opaque", "VfsId": "opaque", "ExprView": "the `position` field of the ast::Expression found at the selection",
    "vS_new": "String::new() is the empty text", "vS_push_str": "String::push_str appends the text", "vS_push_string": "String::push_str(&String) appends the text",
}
LEMMAS = {k: {"C21"} for k in ("lemma_off_step", "lemma_off_zero", "lemma_off_mono", "lemma_off_inj", "lemma_cix", "lemma_cix_props",
                              "lemma_blen_concat", "lemma_off_sub", "lemma_u16_bounds", "lemma_u16_split")}
UNVERIFIED = {"C21": [
    "which expression is wrapped: parse_toplevel_items, find_item_at and find_expr_of_id (that the span is that of a whole expression node of the selection, on character boundaries: token positions are proved in unit lex, the parser's merging of them is Position::merge, proved there too)",
    "that the wrapped program prints the same and ends the same: needs the language semantics; only wrapdbg.bounded[wrap_corpus] (bounded) checks it",
    "the second half of C21 (add_type_annotation: the suggested annotation parses, adds no check errors, runs the same) is not covered at all",
]}

GLUE = """
#[verifier::external_body] pub struct PathBuf { _o: u8 }
#[verifier::external_body] pub struct VfsId { _o: u8 }
#[verifier::external_body]
pub fn vS_new() -> (r: String) ensures r@ == Seq::<char>::empty() { unimplemented!() }
#[verifier::external_body]
pub fn vS_push_str(s: &mut String, t: &str) ensures final(s)@ == old(s)@ + t@ { unimplemented!() }
#[verifier::external_body]
pub fn vS_push_string(s: &mut String, t: &String) ensures final(s)@ == old(s)@ + t@ { unimplemented!() }
"""
GLUE2 = """
/// the part of ast::Expression this function reads
pub struct ExprView { pub position: Position }
"""

WRAP_PROGRAMS = [
    "fun add(x: Int, y: Int): Int { x + y * 2 }\nlet a = add(1, 2)\nprintln(string_repr(a))\nlet l = [a, add(a, 3)]\nprintln(string_repr(l.len()))\n",
    "fun f(o: Option<Int>): Int {\n  match o {\n    Some(v) => { v + 1 }\n    None => 0\n  }\n}\nprintln(string_repr(f(Some(2))))\nprintln(string_repr(f(None)))\n",
    "fun g(): Int {\n  let t = 0\n  let i = 0\n  while i < 3 {\n    if i == 1 { i += 1 continue }\n    t += i\n    i += 1\n  }\n  for x in [10, 20] { if x == 20 { break } t += x }\n  return t\n}\nprintln(string_repr(g()))\n",
    "struct P { x: Int, name: String }\nlet p = P{ x: 1, name: \"\\u00e9\\U0001F600\" }\nprintln(p.name ^ \"!\")\nlet q = (p.x, \"a\")\nlet (m, n) = q\nprintln(string_repr(m))\nlet d = Dict[\"k\" => 1]\nprintln(string_repr(d.get(\"k\")))\n",
    "fun h(x: Int): Int {\n  let k = fun(y: Int) { y * x }\n  assert(k(2) == 2 * x)\n  try { k(3) } catch (e) { 0 }\n}\nprintln(string_repr(h(4)))\nprintln(string_repr(1.5 +. 2.0))\nprintln(string_repr(not(True) || False))\n",
    # `&&` / `||` whose right operand prints, as the argument of assert and elsewhere: wrapping must not change how often it runs
    "fun noisy(tag: String): Bool {\n  println(\"called \" ^ tag)\n  True\n}\nfun main() {\n  let c = True\n  assert(c || noisy(\"a\"))\n  assert(noisy(\"b\") || c)\n  assert(not(c) && noisy(\"c\") == False)\n  let d = c || noisy(\"d\")\n  let e = not(c) && noisy(\"e\")\n  if c || noisy(\"f\") { println(string_repr(d && not(e))) }\n  assert((c || noisy(\"g\")) == True)\n}\nmain()\n",
]
BOUNDED = [
    {"name": "wrap_corpus", "kind": "wrap-dbg-corpus", "props": ["C21"], "input": WRAP_PROGRAMS, "n_inputs": len(WRAP_PROGRAMS),
     "bound": "%d listed programs (calls, match, loops with break / continue / return, structs, tuples, dicts, closures, assert, try, non-ASCII strings): wrap_in_dbg at every cursor position of each; every wrapped program must print the same standard output and end with the same status as the original" % len(WRAP_PROGRAMS),
     "expect": {}},
]
ANNOT_PROGRAMS = [
    "fun add(x: Int, y: Int) { x + y * 2 }\nlet a = add(1, 2)\nlet l = [a, add(a, 3)]\nlet s = \"x\" ^ \"y\"\nprintln(string_repr(l.len()))\nprintln(s)\n",
    "fun f(o: Option<Int>) {\n  let d = match o {\n    Some(v) => { v + 1 }\n    None => 0\n  }\n  let pair = (d, \"a\")\n  let opt = Some(pair)\n  opt\n}\nprintln(string_repr(f(Some(2))))\n",
    "struct P { x: Int, name: String }\nenum Shape { Circle(Int), Square }\nfun mk(n: Int) {\n  let p = P{ x: n, name: \"a\" }\n  let sh = Circle(p.x)\n  let d = Dict[\"k\" => [p.x]]\n  let r = Ok(sh)\n  (p, d, r)\n}\nlet (a, b, c) = mk(1)\nprintln(string_repr(a.x))\n",
    "fun k(x: Int) {\n  let mul = fun(y: Int) { y * x }\n  let u = println(\"in k\")\n  let fl = 1.5 +. 2.0\n  let e = []\n  let n = None\n  mul(3)\n}\nprintln(string_repr(k(4)))\n",
    "fun g<T>(x: T, xs: List<T>) {\n  let ys = xs.append(x)\n  let first = ys.get(0)\n  let t = True && False\n  ys\n}\nprintln(string_repr(g(1, [2])))\nfun noret() { let z = 1 }\nnoret()\n",
    # bodies whose last expression has branches of different types (no single annotation is right), in functions, closures and methods
    "fun describe(verbose: Bool) {\n  if verbose {\n    1\n  } else {\n    \"none\"\n  }\n}\nprintln(string_repr(describe(True)))\nprintln(string_repr(describe(False)))\n",
    "fun pick(o: Option<Int>) {\n  match o {\n    Some(v) => v\n    None => \"nothing\"\n  }\n}\nlet h = fun(b: Bool) { if b { [1] } else { 2.5 } }\nprintln(string_repr(pick(Some(1))))\nprintln(string_repr(pick(None)))\nprintln(string_repr(h(True)))\nprintln(string_repr(h(False)))\n",
    # a bare `return` (Unit) before a final expression of another type; returns inside a closure do not count for the function
    "fun describe(n: Int) {\n  println(\"describe\")\n  if n < 0 {\n    return\n  }\n  n * 2\n}\nprintln(string_repr(describe(2)))\nprintln(string_repr(describe(0 - 1)))\nfun outer(n: Int) {\n  let f = fun(k: Int) {\n    if k > 1 {\n      return\n    }\n    println(\"small\")\n  }\n  f(n)\n  n + 1\n}\nprintln(string_repr(outer(1)))\nprintln(string_repr(outer(5)))\n",
    # a later match arm reads an outer variable that has the name (and not the type) of an earlier arm's payload
    "fun describe(r: Result<Int, String>): String {\n  let value = \"no value\"\n  match r {\n    Ok(value) => { string_repr(value) }\n    Err(reason) => {\n      let shown = value\n      reason ^ \": \" ^ shown\n    }\n  }\n}\nprintln(describe(Ok(42)))\nprintln(describe(Err(\"boom\")))\n",
    "method flip(this: Bool) {\n  let r = if this { \"yes\" } else { 0 }\n  if this { r } else { (r, r) }\n}\nprintln(string_repr(True.flip()))\nprintln(string_repr(False.flip()))\nfun early(n: Int) {\n  if n > 1 { return \"big\" }\n  n\n}\nprintln(string_repr(early(1)))\nprintln(string_repr(early(2)))\n",
]
BOUNDED.append(
    {"name": "annotation_corpus", "kind": "refactor-corpus", "props": ["C21"], "input": ANNOT_PROGRAMS, "n_inputs": len(ANNOT_PROGRAMS), "check_errors_not_more": True,
     "command": ["reftest-add-type-annotation", "{file}", "{offset}", "{offset}"],
     "bound": "%d listed programs with unannotated lets, parameters and return types of every kind of type (Int, String, Float, Bool, Unit, lists, tuples, Option / Result, dicts, structs, enums, functions, type parameters, empty lists, None): add_type_annotation at every cursor position; every result must give no more `check` errors than the original, print the same standard output and end with the same status" % len(ANNOT_PROGRAMS),
     "expect": {}})
WITNESSES = [
    {"match": r"wrapdbg\.annotation_splice\.", "kind": "refactor-corpus", "props": ["C21"], "input": ANNOT_PROGRAMS, "expect": {}, "check_errors_not_more": True,
     "command": ["reftest-add-type-annotation", "{file}", "{offset}", "{offset}"], "note": "add_type_annotation at every cursor position"},
    {"match": r"wrapdbg\.", "kind": "wrap-dbg-corpus", "props": ["C21"], "input": WRAP_PROGRAMS, "expect": {}, "note": "wrap_in_dbg at every cursor position"},
]


import findings  # noqa: E402
for _fn, _fi, _fb in findings.C21_WRAP:
    BOUNDED.append({"name": _fn, "kind": "wrap-dbg-corpus", "props": ["C21"], "input": [_fi], "n_inputs": 1, "bound": _fb + "; every wrapped program must print the same standard output and end with the same status", "expect": {}})


def build(tier):
    u = UnitFile("wrapdbg")
    u.raw(common.HEADER)
    u.raw(common.prelude("strings.rs"), kind="prelude")
    u.raw(common.prelude("text.rs"), kind="prelude")
    u.raw(GLUE, kind="prelude")
    u.add_type(VFS, "VfsPathBuf")
    u.add_type(POS, "Position")
    u.raw(GLUE2, kind="prelude")
    c21 = {"C21"}
    RULES = [
        rw.simple("R2", r"String::new\(\)", "vS_new()"),
        # R9f: `format!("dbg({})", X)` is "dbg(" followed by X followed by ")" (definition of format! for a `{}` of a &str)
        rw.simple("R9f", r"result\.push_str\(&format!\(\s*\"dbg\(\{\}\)\",\s*&src\[([\w\.]+)\.\.([\w\.]+)\]\s*\)\);",
                  r'vS_push_str(&mut result, "dbg("); vS_push_str(&mut result, vt_slice(src, \1, \2)); vS_push_str(&mut result, ")");'),
        rw.simple("R7", r"result\.push_str\(&src\[\.\.([\w\.]+)\]\);", r"vS_push_str(&mut result, vt_slice(src, 0, \1));"),
        rw.simple("R7", r"result\.push_str\(&src\[([\w\.]+)\.\.\]\);", r"vS_push_str(&mut result, vt_slice_from(src, \1));"),
    ]
    A, B = "expr.position.start_offset", "expr.position.end_offset"
    u.add_range_fn(WD, "wrap_in_dbg", "let mut result = String::new();", "result.push_str(&src[expr.position.end_offset..]);",
                   sig="pub fn wrap_splice(src: &str, expr: &ExprView) -> (result: String)", suffix="\n    result", rules=RULES,
                   contract=Contract(
                       requires=[("span_in_the_text_on_boundaries", "%s <= %s <= blen_cs(src@), is_cbt(src@, %s as int), is_cbt(src@, %s as int)" % (A, B, A, B))],
                       ensures=[("dbg_call_around_exactly_the_span",
                                 "result@ == src@.subrange(0, cix(src@, %s as int)) + \"dbg(\"@ + src@.subrange(cix(src@, %s as int), cix(src@, %s as int)) + \")\"@ + src@.subrange(cix(src@, %s as int), src@.len() as int)" % (A, A, B, B))],
                       body_prelude="proof { lemma_cix(src@, 0); lemma_off_zero(src@); lemma_cix(src@, src@.len() as int); }",
                       ret="result", props=c21))
    # add_type_annotation: the annotation text is inserted at the chosen offset and nothing else changes
    u.add_type(TA, "Candidate")
    TA_RULES = [
        rw.simple("R2", r"String::new\(\)", "vS_new()"),
        rw.simple("R7", r"result\.push_str\(&src\[\.\.([\w\.]+)\]\);", r"vS_push_str(&mut result, vt_slice(src, 0, \1));"),
        rw.simple("R7", r"result\.push_str\(&src\[([\w\.]+)\.\.\]\);", r"vS_push_str(&mut result, vt_slice_from(src, \1));"),
        rw.simple("R2", r"result\.push_str\(&candidate\.annotation\);", "vS_push_string(&mut result, &candidate.annotation);"),
    ]
    O = "candidate.insert_offset"
    u.add_range_fn(TA, "add_type_annotation", "let mut result = String::new();", "result.push_str(&src[candidate.insert_offset..]);",
                   sig="pub fn annotation_splice(src: &str, candidate: &Candidate) -> (result: String)", suffix="\n    result", rules=TA_RULES,
                   contract=Contract(
                       requires=[("offset_in_the_text_on_a_boundary", "%s <= blen_cs(src@), is_cbt(src@, %s as int)" % (O, O))],
                       ensures=[("annotation_inserted_at_the_offset",
                                 "result@ == src@.subrange(0, cix(src@, %s as int)) + candidate.annotation@ + src@.subrange(cix(src@, %s as int), src@.len() as int)" % (O, O))],
                       body_prelude="proof { lemma_cix(src@, 0); lemma_off_zero(src@); lemma_cix(src@, src@.len() as int); }",
                       ret="result", props=c21))
    u.add_canary_proof()
    u.raw(common.FOOTER)
    return u
