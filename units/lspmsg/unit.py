"""Unit `lspmsg` (C28): handle_message (src/lsp.rs) as a response slice (vc/respslice.py): one response for a
message that carries an id (unless the message is itself a response), none for a notification, on every path."""
import os
import re
import sys

HERE = os.path.dirname(os.path.abspath(__file__))
ROOT = os.path.dirname(os.path.dirname(HERE))
sys.path.insert(0, os.path.join(ROOT, "vc"))
sys.path.insert(0, os.path.join(ROOT, "units"))
from gen import UnitFile, Tag  # noqa: E402
from extract import ExtractError  # noqa: E402
import respslice  # noqa: E402
import common  # noqa: E402

LSP = "src/lsp.rs"
RLIMIT = 60
MIN_FUNCTIONS = 1

ASSUMPTIONS = {
    "nondet": "a dropped condition may go either way", "nondet_u8": "a dropped match may take any arm (the arm for `None` is marked)",
}
LEMMAS = {}
UNVERIFIED = {"C28": [
    "push_response / push_error / push_request_response append exactly one message carrying the id they are given (they log and append nothing if serde_json::to_value fails, assumed not to happen for these derive(Serialize) types); that the handlers build their JsonRpcResponse with that id",
    "the three didOpen/didChange/didClose arms append publishDiagnostics notifications (no id), not responses",
    "the read loop run_lsp (framing, `exit`), panics inside the handlers, and that published diagnostics equal those of `garden check`",
]}

GLUE = """
#[verifier::external_body]
pub fn nondet() -> (r: bool) { unimplemented!() }
#[verifier::external_body]
pub fn nondet_u8() -> (r: u8) { unimplemented!() }
/// appending a response: only to a message that carries an id, and only once
pub fn respond(has_id: bool, n: u64, what: &str) -> (r: u64)
    requires has_id, n == 0,
    ensures r == 1,
{ 1 }
"""

WITNESSES = [
    {"match": r"lspmsg\.", "kind": "lsp", "props": ["C28"],
     "input": [{"jsonrpc": "2.0", "id": 1, "method": "initialize", "params": {"capabilities": {}}},
               {"jsonrpc": "2.0", "method": "initialized", "params": {}},
               {"jsonrpc": "2.0", "id": 2, "method": "no/such/method", "params": {}},
               {"jsonrpc": "2.0", "method": "no/such/notification", "params": {}},
               {"jsonrpc": "2.0", "id": 3, "method": "textDocument/hover", "params": {"bogus": True}},
               {"jsonrpc": "2.0", "id": 4, "result": None},
               {"jsonrpc": "2.0", "id": 5, "method": 17},
               {"jsonrpc": "2.0", "id": 8, "method": "initialized", "params": {}},
               {"jsonrpc": "2.0", "id": 9, "method": "textDocument/didClose", "params": {"textDocument": {"uri": "file:///x.gdn"}}},
               {"jsonrpc": "2.0", "id": 10, "method": "$/garden/evalStatus", "params": {}},
               {"jsonrpc": "2.0", "method": "$/cancelRequest", "params": {"id": 3}},
               {"jsonrpc": "2.0", "id": 11, "method": "$/cancelRequest", "params": {"id": 3}},
               {"jsonrpc": "2.0", "id": 12, "method": "workspace/symbol", "params": {"query": ""}},
               {"jsonrpc": "2.0", "id": 6, "method": "shutdown"},
               {"jsonrpc": "2.0", "id": 7, "method": "textDocument/definition", "params": {"textDocument": {"uri": "file:///nosuch.gdn"}, "position": {"line": 0, "character": 0}}}],
     "expect": {"py": "(lambda ids: '' if ids == [1, 2, 3, 5, 8, 9, 10, 11, 12, 6, 7] else 'responses carry ids %r, expected one each for the requests 1, 2, 3, 5, 8, 9, 10, 11, 12, 6, 7 (8 and 9 are notification methods sent with an id; 10 and 11 are `$/` methods sent with an id) and none for notifications or for the response-shaped message 4' % (ids,))([o.get('id') for o in jsons(full_out) if 'id' in o])"},
     "note": "one response per request in order, none for notifications"},
]
_SWEEP = common.lsp_sweep_witnesses(r"lspmsg\.", ["C28"])
WITNESSES.append({"match": r"lspmsg\.", "kind": "lsp-sweep", "props": ["C28"], "input": _SWEEP, "expect": {}, "timeout": 600,
                  "note": "position sweeps over %d documents" % len(_SWEEP)})
BOUNDED = [
    {"name": "position_sweep", "kind": "lsp-sweep", "props": ["C28"], "input": _SWEEP, "n_inputs": sum(len(w["input"]) for w in _SWEEP),
     "bound": "%d LSP sessions (ASCII, astral characters, CRLF, a document with a parse error and no trailing newline, an empty document, blank lines): every position request (completion, definition, hover, signatureHelp, documentHighlight, references, rename, codeAction) at every UTF-16 column of every line, past the end of each line and of the document, then documentSymbol, formatting and shutdown: %d requests, each must get exactly one response with its id and the server must survive" % (len(_SWEEP), sum(len(w["input"]) for w in _SWEEP)),
     "expect": {}},
]


def _doc_session(text):
    msgs = [{"jsonrpc": "2.0", "id": 1, "method": "initialize", "params": {}},
            {"jsonrpc": "2.0", "method": "textDocument/didOpen", "params": {"textDocument": {"uri": "file:///tmp/deep.gdn", "languageId": "garden", "version": 1, "text": text}}},
            {"jsonrpc": "2.0", "id": 2, "method": "textDocument/hover", "params": {"textDocument": {"uri": "file:///tmp/deep.gdn"}, "position": {"line": 0, "character": 4}}},
            {"jsonrpc": "2.0", "id": 3, "method": "shutdown"}]
    oracle = "(lambda got: '' if got == [1, 2, 3] else 'responses carry ids %r; expected exactly 1, 2, 3' % (got,))([o.get('id') for o in jsons(full_out) if 'id' in o and 'method' not in o])"
    return msgs, oracle


for _name, _text in (("moderately_nested_document", common.MODERATE_SOURCES[1]), ("deep_document:nested_parentheses_500", common.DEEP_SOURCES["nested_parentheses_500"])):
    _m, _o = _doc_session(_text)
    BOUNDED.append({"name": _name, "kind": "lsp", "props": ["C28"], "input": _m, "n_inputs": 1, "expect": {"py": _o}, "timeout": 120,
                    "bound": "one LSP session: initialize, didOpen of a document with %s, a hover request, shutdown: the three requests are answered in order" % ("40 nested parentheses" if "moder" in _name else "500 nested parentheses")})

_URI = "file:///tmp/stdio.gdn"


def _stdio_session(bad_items):
    """initialize, a malformed item, then a document, a hover request, shutdown and exit: the requests after the
    malformed item must still be answered and the server must end with status 0 after `exit`"""
    msgs = [{"jsonrpc": "2.0", "id": 1, "method": "initialize", "params": {}}]
    msgs += bad_items
    msgs += [{"jsonrpc": "2.0", "method": "textDocument/didOpen", "params": {"textDocument": {"uri": _URI, "languageId": "garden", "version": 1, "text": "let x = 1\nx\n"}}},
             {"jsonrpc": "2.0", "id": 2, "method": "textDocument/hover", "params": {"textDocument": {"uri": _URI}, "position": {"line": 1, "character": 0}}},
             {"jsonrpc": "2.0", "id": 3, "method": "shutdown"}, {"jsonrpc": "2.0", "method": "exit"}]
    return msgs


_STDIO_ORACLE = ("(lambda got, diag: ('responses carry ids %r; expected 1, 2, 3 each once' % (got,)) if sorted(x for x in got if x in (1, 2, 3)) != [1, 2, 3] else ('' if diag else 'no diagnostics were published for the opened document'))"
                 "([o.get('id') for o in jsons(full_out) if 'id' in o and 'method' not in o], any(o.get('method') == 'textDocument/publishDiagnostics' for o in jsons(full_out)))")
_STDIO_CASES = [
    ("well_formed", []),
    ("truncated_json_body", [{"raw": '{"jsonrpc": "2.0", "method": "textDocument/didChange", "params": {"textDocument": {"uri": "file:///tmp/st'}]),
    ("unterminated_string_body", [{"raw": '{"jsonrpc": "2.0", "id": 9, "method": "textDocument/hover", "params": "abc'}]),
    ("invalid_json_body", [{"raw": '{"jsonrpc": nope, "id": }'}]),
    ("empty_body", [{"raw": ""}]),
    ("body_that_is_not_an_object", [{"raw": "[1, 2, 3]"}, {"raw": "42"}, {"raw": "null"}]),
    ("non_utf8_free_garbage_then_header", [{"raw": "\u0000\u0001 garbage \u00e9"}]),
]
for _n, _bad in _STDIO_CASES:
    BOUNDED.append({"name": "stdio_session:" + _n, "kind": "lsp-stdio", "props": ["C28"], "input": _stdio_session(_bad), "n_inputs": 1, "timeout": 60,
                    "expect": {"py": _STDIO_ORACLE, "exit": 0},
                    "bound": "one session with the real `garden lsp` loop on stdin (%s between initialize and the rest): initialize, hover and shutdown are answered, diagnostics are published, exit status 0" % _n.replace("_", " ")})
WITNESSES.append({"match": r"lspmsg\.", "kind": "lsp-stdio", "props": ["C28"], "input": _stdio_session(_STDIO_CASES[1][1]), "timeout": 60, "expect": {"py": _STDIO_ORACLE, "exit": 0},
                  "note": "a framed message with a truncated JSON body, then ordinary requests, through the real stdin loop"})

# a document that imports a file on disk: the diagnostics of the imported file carry offsets into that file, which
# can lie beyond the end of the open document
_LIB_BAD = "// " + "padding " * 40 + "\npublic fun ok(): Int { 1 }\n" + "// more padding\n" * 8 + "fun broken( { \n"
_LIB_WARN = "// " + "padding " * 60 + "\npublic fun ok(): Int {\n  let unused = 1\n  2\n}\n"
# several warnings whose offsets differ modulo 2 and 3, for a document made of two- and three-byte characters
_LIB_WARNS = "public fun ok(): Int {\n  let a = 1\n  let bb = 1\n  let ccc = 1\n  let dddd = 1\n  let eeeee = 1\n  2\n}\n"
_LIB_BAD_EARLY = "public fun ok(): Int { 1 }\n\nfun broken( {\nfun also_broken(a b) {}\nlet = 1\n"
_WIDE_TAIL = "// " + "\u00e9\u20ac" * 60 + "\n"
for _n, _lib, _tail in (("import_of_a_file_with_a_parse_error", _LIB_BAD, ""), ("import_of_a_file_with_a_warning", _LIB_WARN, ""),
                        ("import_of_a_file_with_warnings_into_a_document_of_wide_characters", _LIB_WARNS, _WIDE_TAIL),
                        ("import_of_a_file_with_a_parse_error_into_a_document_of_wide_characters", _LIB_BAD_EARLY, _WIDE_TAIL)):
    _uri = "file://{tmpdir}/main.gdn"
    _msgs = [{"jsonrpc": "2.0", "id": 1, "method": "initialize", "params": {}},
             {"jsonrpc": "2.0", "method": "textDocument/didOpen", "params": {"textDocument": {"uri": _uri, "languageId": "garden", "version": 1, "text": "import \"./lib.gdn\"\n" + _tail}}},
             {"jsonrpc": "2.0", "id": 2, "method": "textDocument/documentSymbol", "params": {"textDocument": {"uri": _uri}}},
             {"jsonrpc": "2.0", "method": "textDocument/didChange", "params": {"textDocument": {"uri": _uri, "version": 2}, "contentChanges": [{"text": "import \"./lib.gdn\" as l\nl::ok()\n" + _tail}]}},
             {"jsonrpc": "2.0", "id": 3, "method": "textDocument/hover", "params": {"textDocument": {"uri": _uri}, "position": {"line": 1, "character": 4}}},
             {"jsonrpc": "2.0", "id": 4, "method": "shutdown"}, {"jsonrpc": "2.0", "method": "exit"}]
    _or = ("(lambda got: ('responses carry ids %r; expected 1, 2, 3, 4 each once' % (got,)) if sorted(x for x in got if x in (1, 2, 3, 4)) != [1, 2, 3, 4] else '')"
           "([o.get('id') for o in jsons(full_out) if 'id' in o and 'method' not in o])")
    BOUNDED.append({"name": "stdio_session:" + _n, "kind": "lsp-stdio", "props": ["C28"], "input": _msgs, "extra_files": {"lib.gdn": _lib}, "n_inputs": 1, "timeout": 60,
                    "expect": {"py": _or, "exit": 0},
                    "bound": "one session with the real `garden lsp` loop: a one-line document that imports a longer file on disk (%s), opened and changed: every request is answered, exit status 0" % _n.replace("_", " ")})
    WITNESSES.append({"match": r"lspmsg\.|lsppos\.", "kind": "lsp-stdio", "props": ["C28", "C29"], "input": _msgs, "extra_files": {"lib.gdn": _lib}, "timeout": 60, "expect": {"py": _or, "exit": 0},
                      "note": "a document that imports a longer file with diagnostics"})


def build(tier):
    u = UnitFile("lspmsg")
    u.raw(common.HEADER)
    u.raw(GLUE, kind="prelude")
    props = {"C28"}
    src = u.source(LSP)
    host = src.find_fn("handle_message")
    toks = src.toks
    idx = [k for k, t in enumerate(toks) if host.start <= t.start < host.end]
    # the body is the `{` after the return type
    depth = 0
    k0 = None
    for k in idx:
        tt = toks[k].text
        if toks[k].kind == "punct" and tt in "([":
            depth += 1
        elif toks[k].kind == "punct" and tt in ")]":
            depth -= 1
        elif tt == "{" and depth == 0:
            k0 = k
            break
    sl = respslice.RespSlicer(src)
    c = sl.close(k0)
    sl.block(k0 + 1, c, "    ")
    if sl.n_effects < 3 or sl.n_id_tests < 3 or sl.n_none_arms != 1:
        raise ExtractError("handle_message: expected response calls, id tests and one `None` arm; found %d / %d / %d" % (sl.n_effects, sl.n_id_tests, sl.n_none_arms))
    gname = "slice_handle_message"
    u.fn_props[gname] = props
    u.items.append({"name": "handle_message (response slice)", "generated_as": gname, "kind": "slice", "where": host.where,
                    "sha256_16": host.sha(), "skeleton": "-"})
    spec = ["pub fn %s(has_id: bool) -> (r: (u64, bool))" % gname, "    ensures"]
    u.raw("#[verifier::exec_allows_no_decreases_clause]", fn=gname, props=props)
    u.emit("pub fn %s(has_id: bool) -> (r: (u64, bool))" % gname, Tag("repo", fn=gname, repo_file=LSP, repo_line=host.line0, props=props))
    u.raw("    ensures", fn=gname, props=props)
    for (name, text) in (("one_response_per_request", "has_id && !r.1 ==> r.0 == 1"),
                         ("no_response_to_a_notification", "!has_id ==> r.0 == 0"),
                         ("no_response_to_a_response", "r.1 ==> r.0 == 0")):
        oid = "lspmsg.%s.post[%s]" % (gname, name)
        u.clauses.append((oid, props, text))
        u.emit("        " + text + ",", Tag("contract", fn=gname, clause=oid, props=props))
    u.emit("{", Tag("repo", fn=gname, repo_file=LSP, repo_line=host.line0, props=props))
    u.emit("    let mut n: u64 = 0; let mut is_response_message = false;", Tag("glue", fn=gname, props=props))
    for (ln_text, ln_no) in sl.out:
        u.emit(ln_text, Tag("repo", fn=gname, repo_file=LSP, repo_line=ln_no, props=props))
    u.emit("    (n, is_response_message)", Tag("glue", fn=gname, props=props))
    u.emit("}", Tag("repo", fn=gname, repo_file=LSP, repo_line=host.line0, props=props))
    # ---- the read loop of the real server (run_lsp): it ends only at the end of the input or on `exit` ---------------
    import hashlib
    rl = src.find_fn("run_lsp")
    body = re.sub(r"//[^\n]*", "", rl.text)
    n_break = len(re.findall(r"\bbreak\b", body))
    n_break_eof = len(re.findall(r"Ok\(\s*None\s*\)\s*=>\s*\{\s*break\s*;?\s*\}", body))
    n_return = len(re.findall(r"\breturn\b", body))
    n_exit = len(re.findall(r"\bprocess::exit\s*\(", body))
    n_exit_ok = len(re.findall(r"Action::Exit\s*=>\s*\{[^{}]*\bprocess::exit\s*\(", body))
    n_question = len(re.findall(r"\?\s*;", body))
    n_loops = len(re.findall(r"\bloop\s*\{", body))
    n_bad = (n_break - n_break_eof) + n_return + (n_exit - n_exit_ok) + n_question + (0 if n_loops == 1 and n_break_eof == 1 else 1)
    fname = "run_lsp_read_loop"
    u.fn_props[fname] = props
    u.skeletons[fname] = hashlib.sha256(("%d %d %d %d %d %d %d" % (n_break, n_break_eof, n_return, n_exit, n_exit_ok, n_question, n_loops)).encode()).hexdigest()[:12]
    u.items.append({"name": "run_lsp: the only ways out of the read loop are `Ok(None) => break` (end of input) and process::exit in the `Action::Exit` arm",
                    "generated_as": fname, "kind": "slice", "where": rl.where, "sha256_16": rl.sha(), "skeleton": u.skeletons[fname]})
    oid = "lspmsg.%s.post[the_server_keeps_reading_until_the_end_of_input_or_exit]" % fname
    u.clauses.append((oid, props, "n == 0"))
    tg = Tag("repo", fn=fname, repo_file=LSP, repo_line=rl.line0, props=props)
    u.emit("pub fn %s() -> (n: u64)" % fname, tg)
    u.raw("    ensures", fn=fname, props=props)
    u.emit("        n == 0,", Tag("contract", fn=fname, clause=oid, props=props))
    u.emit("{ %d }  // break: %d (at end of input: %d); return: %d; process::exit: %d (in the Exit arm: %d); `?`: %d; loops: %d" % (n_bad, n_break, n_break_eof, n_return, n_exit, n_exit_ok, n_question, n_loops), tg)
    u.add_canary_proof()
    u.raw(common.FOOTER)
    return u
