"""Unit `blocks`: Bindings::{push_block,pop_block}, Env::{current_frame_mut, push_binding_block,
push_expr_to_eval, push_value, pop_value}, eval_block, eval_break, eval_continue.  C06 (+C02)."""
import os
import sys

HERE = os.path.dirname(os.path.abspath(__file__))
ROOT = os.path.dirname(os.path.dirname(HERE))
sys.path.insert(0, os.path.join(ROOT, "vc"))
sys.path.insert(0, os.path.join(ROOT, "units"))
import rewrite as rw  # noqa: E402
from gen import Contract, UnitFile  # noqa: E402
import common  # noqa: E402

EV = "src/eval.rs"
ENV = "src/env.rs"
RLIMIT = 100
MIN_FUNCTIONS = 8

ASSUMPTIONS = dict(common.OPAQUE_ASSUMPTIONS)
ASSUMPTIONS.update(common.ENV_OPAQUE_ASSUMPTIONS)
ASSUMPTIONS.update(common.ENV_STRUCT_ASSUMPTIONS)
ASSUMPTIONS.update(common.AST_OPAQUE_ASSUMPTIONS)
ASSUMPTIONS.update({
    "vc_clone": "Clone / Rc::clone returns an equal value", "vs_string_eq_lit": "-", "vs_string_eq": "-", "vs_string_from_lit": "-",
    "Value": "opaque stand-in for values::Value (never inspected here)",
    "unit": "Value::unit() returns some value (built from a thread_local)",
    "default": "BlockBindings::default() is an empty block",
    "add_new": "Bindings::add_new (eval.rs:93-103) inserts into the innermost block's hash map: the number of blocks does not change (body uses FxHashMap::insert, not modelled)",
    "VecIntoIter": "opaque std::vec::IntoIter", "vi_into_iter": "Vec::into_iter yields the elements in order",
    "next": "Iterator::next on vec::IntoIter pops the first remaining element",
    "vm_take": "std::mem::take leaves an empty Vec and returns the old contents",
})
LEMMAS = {"lemma_owners_push": {"C06"}, "lemma_owners_push_b": {"C06"}, "lemma_needed_push": {"C06", "C21"}, "lemma_needed_push_b": {"C06", "C21"}}
UNVERIFIED = {
    "C06": ["that every arm of eval_expr preserves frame_inv (the dispatch at eval.rs:6404-6590 and eval_if / eval_while_body / eval_for_in / eval_match_cases); only eval_block, eval_break and eval_continue are under contract",
            "`return` (clears the pending expressions and discards the frame)",
            "precondition of eval_break's `for` arm: the loop's value and index are on the value stack"],
    "C02": ["value-stack discipline of break/continue inside a loop *header* expression (`for x in [continue] {}` reaches unreachable!() in eval_for_in — observed, outside these contracts)"],
}

GLUE = """
#[verifier::external_body] pub struct Value { _o: u8 }
impl Value {
    #[verifier::external_body]
    pub fn unit() -> (r: Self) { unimplemented!() }
}
impl BlockBindings {
    #[verifier::external_body]
    pub fn default() -> (r: Self) { unimplemented!() }
}
#[verifier::external_body]
pub fn vm_take<T>(v: &mut Vec<T>) -> (r: Vec<T>)
    ensures r@ == old(v)@, final(v)@.len() == 0,
{ unimplemented!() }
"""

ADD_NEW = """
impl Bindings {
    #[verifier::external_body]
    pub fn add_new(&mut self, sym: &Symbol, value: Value)
        ensures final(self).block_bindings@.len() == old(self).block_bindings@.len(),
    { unimplemented!() }
}
"""

TOPLEN = "old(env).stack.0@.len() >= 1"
FRAME = "others_unchanged(*old(env), *final(env))"

BU = "broadcast use owner_model::lemma_owners_push_b, needed_model::lemma_needed_push_b;"

WITNESSES = [
    {"match": r"eval_block\.", "kind": "run-file", "props": ["C06"],
     "input": "fun f(o: Option<Int>): Int {\n  match o {\n    Some(v) => {}\n    None => {}\n  }\n  if True { v } else { 0 }\n}\nprintln(string_repr(f(Some(42))))\n",
     "expect": {"stdout_contains": "No such variable"}, "note": "the payload variable of a match case with an empty body must not reach a later block"},
    {"match": r"eval_block\.", "kind": "run-file", "props": ["C06"],
     "input": "fun g(o: Option<(Int, Int)>): Int {\n  let t = 0\n  for x in [1, 2] {\n    match o { Some((a, b)) => {} None => {} }\n    if x == 2 { t = a }\n  }\n  t\n}\nprintln(string_repr(g(Some((3, 4)))))\n",
     "expect": {"stdout_contains": "No such variable"}, "note": "the same with a destructured payload inside a loop"},
    {"match": r"eval_break\.", "kind": "run-file", "props": ["C06"],
     "input": "fun f() {\n  while True {\n    let w = 5\n    break\n  }\n  println(string_repr(w))\n}\nf()\n",
     "expect": {"stdout_contains": "No such variable"}, "note": "a loop-body variable must not be visible after `break`"},
    {"match": r"eval_break\.", "kind": "run-file", "props": ["C06"],
     "input": "fun f() {\n  let i = 0\n  while i < 3 {\n    i += 1\n    if i == 2 {\n      let z = 7\n      break\n    }\n  }\n  println(string_repr(z))\n}\nf()\n",
     "expect": {"stdout_contains": "No such variable"}},
    {"match": r"eval_break\.", "kind": "run-file", "props": ["C06", "C02"],
     "input": "fun f() {\n  for x in [break] { }\n  println(\"after\")\n}\nf()\n",
     "expect": {}, "note": "`break` in the iterated expression of a `for` must not crash the interpreter"},
    {"match": r"eval_continue\.", "kind": "run-file", "props": ["C06"],
     "input": "fun f() {\n  let i = 0\n  while i < 2 {\n    let w = i\n    i += 1\n    if True {\n      continue\n    }\n  }\n  println(string_repr(w))\n}\nf()\n",
     "expect": {"stdout_contains": "No such variable"}, "note": "`continue` inside an `if` must not leak the loop body's block"},
]


def build(tier):
    u = UnitFile("blocks")
    u.raw(common.HEADER)
    u.raw(common.prelude("strings.rs"), kind="prelude")
    u.raw(common.prelude("iter.rs"), kind="prelude")
    u.raw(common.OPAQUE.replace("#[verifier::external_body] pub struct Position { _o: u8 }\n", "#[verifier::external_body] pub struct Position { _o: u8 }\n"), kind="prelude")
    u.raw(GLUE, kind="prelude")
    common.add_env_full(u)
    u.raw(ADD_NEW, kind="prelude")
    u.raw(open(os.path.join(HERE, "specs.rs")).read(), kind="spec")

    c06 = {"C06"}
    both = {"C06", "C02"}
    common.add_env_accessors(u, c06, both)

    rw.ITER_BY_VALUE_OK.add("bindings_next_block")
    rc = rw.simple("R11", r"Rc::clone\(&?(\w+)\)", r"vc_clone(&\1)")
    take = rw.simple("R2", r"std::mem::take\(", "vm_take(")
    u.add_fn(EV, "eval_block", rules=["R4b", "R6", rc, take], contract=Contract(
        requires=[("nonempty", TOPLEN)],
        ensures=[("one_block_more", "top(*final(env)).bindings.block_bindings@.len() == top(*old(env)).bindings.block_bindings@.len() + 1"),
                 ("no_new_owner", "owners(top(*final(env)).exprs_to_eval@) == owners(top(*old(env)).exprs_to_eval@)"),
                 # the bindings a match case / for loop / catch prepared for this block go into it and nowhere else
                 ("pending_bindings_consumed", "top(*final(env)).bindings_next_block@.len() == 0"),
                 ("others", FRAME)],
        body_prelude=BU,
        loops={1: dict(body_prelude=BU, invariant=[("frame", "stack_frame.bindings.block_bindings@.len() == top(*old(env)).bindings.block_bindings@.len() + 1"),
                                                   ("pending_bindings_taken", "stack_frame.bindings_next_block@.len() == 0")],
                       decreases="it_rest(&__it1).len()"),
               2: dict(body_prelude=BU, invariant=[("idx", "__i2 <= block.exprs@.len()"),
                                  ("st", "old(env).stack.0@.len() >= 1, env.stack.0@.len() == old(env).stack.0@.len(), env.stack.0@.drop_last() == old(env).stack.0@.drop_last()"),
                                  ("blocks", "top(*env).bindings.block_bindings@.len() == top(*old(env)).bindings.block_bindings@.len() + 1"),
                                  ("pending_bindings_taken", "top(*env).bindings_next_block@.len() == 0"),
                                  ("owners", "owners(top(*env).exprs_to_eval@) == owners(top(*old(env)).exprs_to_eval@)")],
                       decreases="__i2")},
        props=c06, canary=False))
    LOOP_INV = [
        ("stack", "old(env).stack.0@.len() >= 1, env.stack.0@.len() == old(env).stack.0@.len(), env.stack.0@.drop_last() == old(env).stack.0@.drop_last()"),
        ("blocks_accounted", "base(top(*env)) == base(top(*old(env))), base(top(*old(env))) >= 1"),
        ("values_accounted", "free_vals(top(*env)) == free_vals(top(*old(env)))", {"C06", "C21"}),
    ]
    u.add_fn(EV, "eval_break", rules=[rc], contract=Contract(
        requires=[("nonempty", TOPLEN), ("base", "base(top(*old(env))) >= 1"), ("for_values", "for_values_present(top(*old(env)))")],
        ensures=[("blocks_accounted", "base(top(*final(env))) == base(top(*old(env)))"),
                 ("others", FRAME),
                 # the Unit that break pushes stands for the value of the loop it leaves: pushed exactly when that loop's value is used
                 ("loop_value_pushed_iff_the_loop_uses_it",
                  "top(*final(env)).exprs_to_eval@.len() > 0 ==> free_vals(top(*final(env))) == free_vals(top(*old(env))) + (if top(*final(env)).exprs_to_eval@.last().1.value_is_used { 1int } else { 0int })", {"C06", "C21"}),
                 ("break_outside_a_loop_pushes_its_own_value",
                  "top(*final(env)).exprs_to_eval@.len() == 0 ==> free_vals(top(*final(env))) == free_vals(top(*old(env))) + (if expr_value_is_used { 1int } else { 0int })", {"C06", "C21"})],
        body_prelude=BU,
        loops={1: dict(body_prelude=BU,
                       invariant=LOOP_INV,
                       invariant_except_break=[("for_values", "for_values_present(top(*env))"),
                                               ("no_loop_found_yet", "value_is_used == expr_value_is_used", {"C06", "C21"})],
                       ensures=[("the_loop_decides", "(top(*env).exprs_to_eval@.len() == 0 && value_is_used == expr_value_is_used)"
                                                     " || (top(*env).exprs_to_eval@.len() > 0 && value_is_used == top(*env).exprs_to_eval@.last().1.value_is_used)", {"C06", "C21"})],
                       decreases="top(*env).exprs_to_eval@.len()")},
        props=c06, safety_props=both))
    u.add_fn(EV, "eval_continue", contract=Contract(
        requires=[("nonempty", TOPLEN), ("base", "base(top(*old(env))) >= 1"), ("for_values", "for_values_present(top(*old(env)))")],
        ensures=[("blocks_accounted", "base(top(*final(env))) == base(top(*old(env)))"),
                 ("others", FRAME),
                 ("values_accounted", "free_vals(top(*final(env))) == free_vals(top(*old(env)))", {"C06", "C21"})],
        body_prelude=BU,
        loops={1: dict(body_prelude=BU, invariant=LOOP_INV,
                       invariant_except_break=[("for_values", "for_values_present(top(*env))")],
                       decreases="top(*env).exprs_to_eval@.len()")},
        props=c06, safety_props=both))
    u.add_canary_proof()
    u.raw(common.FOOTER)
    return u
