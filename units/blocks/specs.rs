// ---- units/blocks/specs.rs: the binding-block discipline (C06).  A frame's binding blocks are
// its base blocks plus exactly one block per pending expression that will pop one ("owner").
// Read off the dispatch in eval_expr: these are the (state, expression) pairs whose handler
// calls `pop_block()`. ---------------------------------------------------------------------

pub mod owner_model {
use super::*;
pub open spec fn is_done_run(st: ExpressionState) -> bool {
    st is PartiallyEvaluated && st->PartiallyEvaluated_0 is DoneRunBlock
}

pub open spec fn owner(st: ExpressionState, e: Expression) -> bool {
    match e.expr_ {
        Expression_::If(..) | Expression_::Match(..) | Expression_::Try(..) => st is EvaluatedSubexpressions,
        Expression_::While(..) => is_done_run(st),
        Expression_::ForIn(..) => is_done_run(st) || st is EvaluatedSubexpressions,
        _ => false,
    }
}

pub open spec fn owners(es: Seq<(ExpressionState, Rc<Expression>)>) -> nat
    decreases es.len(),
{
    if es.len() == 0 { 0 } else {
        owners(es.drop_last()) + (if owner(es.last().0, *es.last().1) { 1nat } else { 0nat })
    }
}

pub proof fn lemma_owners_push(es: Seq<(ExpressionState, Rc<Expression>)>, x: (ExpressionState, Rc<Expression>))
    ensures owners(es.push(x)) == owners(es) + (if owner(x.0, *x.1) { 1nat } else { 0nat }),
{
    assert(es.push(x).drop_last() =~= es);
}

pub broadcast proof fn lemma_owners_push_b(es: Seq<(ExpressionState, Rc<Expression>)>, x: (ExpressionState, Rc<Expression>))
    ensures #[trigger] owners(es.push(x)) == owners(es) + (if owner(x.0, *x.1) { 1nat } else { 0nat }),
{
    lemma_owners_push(es, x);
}
}
pub use owner_model::*;

/// C06: every block pushed for a pending expression is accounted for by that expression:
/// `base(frame)` (defined below) stays constant, and is at least 1, through every step.

pub open spec fn top(env: Env) -> StackFrame { env.stack.0@.last() }

/// everything but the top frame's pending expressions, values and bindings is unchanged
pub open spec fn others_unchanged(a: Env, b: Env) -> bool {
    a.stack.0@.len() == b.stack.0@.len() && a.stack.0@.len() >= 1
    && a.stack.0@.drop_last() == b.stack.0@.drop_last()
}


/// values a pending `for` keeps on the value stack: index (+ iterated value once in the body)
pub open spec fn need(st: ExpressionState, e: Expression) -> nat {
    if e.expr_ is ForIn { if is_done_run(st) { 2 } else if st is PartiallyEvaluated { 1 } else { 0 } } else { 0 }
}

pub open spec fn needed(es: Seq<(ExpressionState, Rc<Expression>)>) -> nat
    decreases es.len(),
{
    if es.len() == 0 { 0 } else { needed(es.drop_last()) + need(es.last().0, *es.last().1) }
}

/// what the `for` arms of eval_break / eval_continue rely on (pushed to their callers, not
/// checked here): the values the pending `for` loops keep are on the value stack
pub open spec fn for_values_present(f: StackFrame) -> bool {
    f.evalled_values@.len() >= needed(f.exprs_to_eval@)
}

/// the frame's base block count: binding blocks not owned by a pending expression
pub open spec fn base(f: StackFrame) -> int {
    f.bindings.block_bindings@.len() - owners(f.exprs_to_eval@)
}

pub proof fn lemma_needed_push(es: Seq<(ExpressionState, Rc<Expression>)>, x: (ExpressionState, Rc<Expression>))
    ensures needed(es.push(x)) == needed(es) + need(x.0, *x.1),
{
    assert(es.push(x).drop_last() =~= es);
}
pub mod needed_model {
    use super::*;
    pub broadcast proof fn lemma_needed_push_b(es: Seq<(ExpressionState, Rc<Expression>)>, x: (ExpressionState, Rc<Expression>))
        ensures #[trigger] needed(es.push(x)) == needed(es) + need(x.0, *x.1),
    {
        lemma_needed_push(es, x);
    }
}
pub use needed_model::*;
/// values on the stack that no pending `for` keeps for itself (C06/C21: value accounting of break / continue)
pub open spec fn free_vals(f: StackFrame) -> int {
    f.evalled_values@.len() - needed(f.exprs_to_eval@)
}
