"""Unit `guards` (C01): guard slices (vc/guardslice.py) of every function of the front-end files that indexes by a
literal or contains an explicit panic site: on every path of the slice the index is below a length that was tested,
and no panic site is reached."""
import glob
import os
import re
import sys

HERE = os.path.dirname(os.path.abspath(__file__))
ROOT = os.path.dirname(os.path.dirname(HERE))
sys.path.insert(0, os.path.join(ROOT, "vc"))
sys.path.insert(0, os.path.join(ROOT, "units"))
from gen import UnitFile, Tag, REPO  # noqa: E402
from extract import ExtractError, skeleton_hash  # noqa: E402
import guardslice  # noqa: E402
import common  # noqa: E402

RLIMIT = 60
MIN_FUNCTIONS = 1
FILES = {
    "C01": ["src/checks.rs", "src/checks/*.rs", "src/parser.rs", "src/parser/*.rs", "src/format.rs"],
    "C02": ["src/eval.rs", "src/values.rs", "src/env.rs", "src/types.rs", "src/garden_type.rs", "src/namespaces.rs"],
    "C09": ["src/json_session.rs", "src/commands.rs"],
    "C28": ["src/lsp.rs", "src/completions.rs", "src/signature_help.rs", "src/hover.rs", "src/go_to_def.rs", "src/pos_to_id.rs",
            "src/highlight.rs", "src/rename.rs", "src/caret_finder.rs"],
}
# functions sliced elsewhere (unit indices: one argument-index slice per built-in arm, with its own assumptions)
EXCLUDE = {("src/eval.rs", "eval_built_in_call"), ("src/eval.rs", "eval_built_in_method_call")}
ARITY_FN = "check_arity"      # eval.rs: `check_arity(name, receiver, pos, N, &arg_positions, &arg_values)?` (contract proved in unit restore)

ASSUMPTIONS = {
    "nondet": "a dropped condition may go either way", "nondet_u8": "a dropped match may take any arm",
    "nondet_usize": "an untested length may be anything",
    "windows_len": "every item yielded by `windows(n)` / `chunks_exact(n)` has exactly n elements",
}
LEMMAS = {}
# explicit panic sites that are NOT obligations of the slices: (file, function) -> how many (the first N in source
# order) with the reason they are taken to be dead.  A panic site beyond these counts, or in any other function, is an obligation.
ALLOWED_PANIC = {
    ("src/checks/recursion_variable.rs", "visit_fun_info"): (1, "function_stack.pop().unwrap(): pushed at the start of the same visit"),
    ("src/checks/type_checker.rs", "set"): (1, "blocks.last_mut().expect(..): the block stack starts non-empty and push/pop are paired"),
    ("src/checks/type_checker.rs", "arity_diagnostics"): (2, "arguments.last().unwrap(): on the branch with more arguments than parameters; arguments[expected_args.len()]: on the branch with more arguments than parameters"),
    ("src/checks/type_checker.rs", "infer_float_binop"): (1, "unreachable!() for operators other than the float operators it is called for"),
    ("src/checks/type_checker.rs", "get_var"): (1, "get_namespace(..).expect(..): the checked file's namespace is created before checking"),
    ("src/checks/unused_defs.rs", "transitive_closure"): (2, "reachable.get_mut(def_id).unwrap(): the key was inserted by the loop above; reachable[def_id]: def_id is a key of the clone the loop iterates over"),
    ("src/checks/unused_vars.rs", "mark_used"): (1, "panic! on an unbound variable: called only for names found in a scope"),
    ("src/checks/unused_vars.rs", "add_binding"): (1, "scopes.last_mut().expect(..): scope stack non-empty"),
    ("src/checks/unused_vars.rs", "pop_scope"): (1, "scopes.pop().expect(..): push/pop paired"),
    ("src/checks/unused_vars.rs", "visit_fun_info"): (1, "type_param_info.pop().unwrap(): pushed at the start of the same visit"),
    ("src/format.rs", "apply_span_edits"): (1, "result.replace_range(edit.start_offset..edit.end_offset, ..): the edits are token / comment spans of the text they are applied to, sorted and applied back to front (the span helpers are under contract in units fmtedits / fmtspans)"),
    ("src/format.rs", "wrap_long_signatures"): (1, "result.replace_range(start..end, ..): start / end are positions of the signature's tokens in the same text"),
    ("src/parser.rs", "unescape_string"): (1, "chars[i] inside `while i < chars.len()`"),
    ("src/format.rs", "fix_space_before_block"): (1, "before.as_bytes()[before.len() - 1]: `before` is not empty (open_start > 0 is tested above)"),
    ("src/format.rs", "normalize_blank_lines"): (3, "lines[i] inside `while i < lines.len()` / after `i < lines.len() &&`"),
    ("src/format.rs", "fix_type_annotation_spacing"): (3, "tokens[i + 1] / tokens[i - 1] after `i + 1 < tokens.len()` / `i > 0`"),
    ("src/parser.rs", "require_a_token"): (1, "prev_token.expect(..): reached only after at least one token was consumed"),
    ("src/parser.rs", "check_required_token"): (1, "prev_token.expect(..): as above"),
    ("src/parser.rs", "parse_float"): (1, "text.parse::<f64>().unwrap() on a token matched by the float regex"),
    ("src/parser.rs", "parse_tuple_literal_or_parentheses"): (1, "forward-progress assertion"),
    ("src/parser.rs", "parse_dict_literal_items"): (1, "forward-progress assertion"),
    ("src/parser.rs", "parse_assert"): (1, "tokens.pop().unwrap() after a successful peek"),
    ("src/parser.rs", "parse_match"): (1, "forward-progress assertion"),
    ("src/parser.rs", "parse_case_block"): (1, "tokens.pop().unwrap() after a successful peek"),
    ("src/parser.rs", "parse_comma_separated_exprs"): (1, "forward-progress assertion"),
    ("src/parser.rs", "parse_expression"): (2, "token_as_binary_op(..).unwrap() after the same function returned Some for the peeked token; forward-progress assertion"),
    ("src/parser.rs", "parse_enum"): (1, "tokens.pop().unwrap() after a successful peek"),
    ("src/parser.rs", "parse_struct"): (1, "tokens.pop().unwrap() after a successful peek"),
    ("src/parser.rs", "parse_tuple_type_hint"): (1, "forward-progress assertion"),
    ("src/parser.rs", "parse_parameters"): (1, "forward-progress assertion"),
    ("src/parser.rs", "parse_block"): (1, "forward-progress assertion"),
    ("src/parser.rs", "join_comments"): (1, "strip_prefix(\"///\").unwrap() on a comment tested with starts_with(\"///\")"),
    ("src/parser.rs", "parse_function"): (1, "tokens.pop().unwrap() after a successful peek"),
    ("src/parser.rs", "parse_method"): (1, "tokens.pop().unwrap() after a successful peek"),
    ("src/parser.rs", "parse_let_destination"): (1, "forward-progress assertion"),
    ("src/parser.rs", "parse_toplevel_items_from_tokens"): (1, "forward-progress assertion"),
    ("src/parser/lex.rs", "unpop"): (1, "assert!(self.idx > 0): proved as a precondition-carrying function in unit tokens"),
    ("src/parser/lex.rs", "lex_between"): (1, "assert!(end_offset <= s.len()): proved in unit lex"),
    ("src/format.rs", "visit_expr_"): (1, "unreachable!() in the arm for expression kinds the visitor dispatches elsewhere"),
    ("src/format.rs", "is_likely_type_name"): (1, "text.chars().next().unwrap(): symbol names are non-empty"),
}
import json as _json  # noqa: E402
for _rel, _fns in _json.load(open(os.path.join(HERE, "allowed_panic.json"))).items():
    for _fn, _d in _fns.items():
        if (_rel, _fn) not in EXCLUDE:
            ALLOWED_PANIC[(_rel, _fn)] = (_d["n"], "; ".join(sorted({x["why"] for x in _d["sites"]})))
ALLOWED_INDEX = [
    (r"src/env\.rs", r"diags\[0\]", "fresh_prelude: inside the message of an assert_eq!(diags.len(), 0, ..): evaluated only when the assertion has already failed"),
]
_COMMON_UNVERIFIED = [
    "guard slices keep only tests of the form `V.len() <op> N` / `V.is_empty()` / `match V.len() { .. }` on the indexed expression itself, `check_arity(.., N, &arg_positions, &arg_values)?` in eval.rs (contract proved in unit restore; that both vectors have the same length is its precondition) and windows(N) / chunks_exact(N) items; computed indexes (`v[i]`), slicing (`&s[a..b]`), arithmetic overflow and recursion depth are not covered by these slices",
    "that a vector's length changes only through the listed mutating methods, assignment, `&mut` borrows or rebinding of its root name (calls that receive `&mut` to an enclosing struct are not tracked)",
]
UNVERIFIED = {"C09": [
    "guard slices (session files json_session.rs, commands.rs): the explicit panic sites that exist today (listed with reasons in units/guards/allowed_panic.json: `stack.0.last().unwrap()`, channel sends, the Content-Length framing of the input stream, serialisation) are assumed dead and are not obligations; any other panic site in these files is",
] + _COMMON_UNVERIFIED, "C02": [
    "guard slices (evaluator files): the explicit panic sites that exist today (73, listed with reasons in units/guards/allowed_panic.json: value-stack pops, dispatch arms, mutex locks) are assumed dead and are not obligations; any other panic site in these files is; eval_built_in_call / eval_built_in_method_call are sliced per arm in unit indices instead",
] + _COMMON_UNVERIFIED, "C28": [
    "guard slices (language-server files): the explicit panic sites that exist today in lsp.rs (reftest_lsp's two `to_string_pretty(..).unwrap()`), go_to_def.rs and caret_finder.rs (test-harness helpers; listed with reasons in units/guards/allowed_panic.json) are assumed dead; any other panic site in lsp.rs, completions.rs, signature_help.rs, hover.rs, go_to_def.rs, pos_to_id.rs, highlight.rs, rename.rs, caret_finder.rs is an obligation",
] + _COMMON_UNVERIFIED, "C01": [
    "guard slices: %d explicit panic sites that exist today are assumed dead and are not obligations (forward-progress assertions of the parser, pops after a peek, scope stacks: listed with reasons in units/guards/unit.py ALLOWED_PANIC); every other unreachable!/panic!/todo!/unimplemented!/assert!/unwrap()/expect() in the front-end files is an obligation" % sum(n for (n, _w) in ALLOWED_PANIC.values()),
]+ _COMMON_UNVERIFIED}


def _hint_matrix():
    """type hints of every built-in type constructor with 0..3 arguments, against literals of every shape, in
    annotation, return and parameter position"""
    names = ["List", "Option", "Result", "Dict", "Fun", "Tuple", "Int", "String", "Unit", "NoValue", "Bool", "Float", "Path", "Namespace", "T", "Nosuch"]
    argsets = ["", "<Int>", "<Int, String>", "<Int, String, Bool>", "<List>", "<Fun<Int>>", "<(Int, Int)>"]
    values = ["[1]", "[]", "[1, \"a\"]", "(1, 2)", "()", "Dict[\"a\" => 1]", "fun(x) { x }", "fun(x: Int, y: Int): Int { x }", "fun() {}", "None", "Some(1)", "Ok(1)", "Err(\"e\")", "1", "\"s\"", "1.5", "True"]
    progs = []
    for n in names:
        for a in argsets:
            h = n + a
            block = []
            for i, v in enumerate(values):
                block.append("let a%d: %s = %s" % (i, h, v))
            progs.append("\n".join(block) + "\n")
            progs.append("\n".join("fun r%d(): %s { %s }" % (i, h, v) for i, v in enumerate(values)) + "\n")
            progs.append("fun p(x: %s) { x }\n" % h + "\n".join("p(%s)" % v for v in values) + "\n")
            progs.append("fun g<T>(x: %s): T { x }\n" % h + "\n".join("g(%s)" % v for v in values) + "\n")
            progs.append("\n".join("match %s { Some(x) => x, None => 1, Ok(y) => y, Err(_) => 2, (a, b) => a, _ => 3 }" % v for v in values[:8]) + "\n")
    # enum / struct shapes with missing variants, duplicate and unknown fields
    progs += ["enum E { A, B(Int), C }\nfun f(e: E) { match e { A => 1 } }\n", "enum E { A }\nfun f(e: E) { match e { } }\n",
              "enum E {}\nfun f(e: E) { match e { } }\n", "struct S { x: Int }\nS{ x: 1, x: 2, y: 3 }\nS{}\n",
              "fun f<T, U, V>() {}\nfun g<T>(x: T) {}\nfun h<>() {}\n", "fun same(): Int { if True { return 1 } return 1 }\nfun one(): Int { return 1 }\n",
              "else{}", "in{}\n", "else{ x: 1 }", "fun f() {\n  let\nelse{}\n}\n", "catch{}",
              "import \"./nope_zz.gdn\"\nimport \"./nope_zz.gdn\"\n", "import \"./nope_zz.gdn\" as a\nimport \"./nope_zz.gdn\" as b\na::f()\n",
              "", "\n", "//", "///", "/// x\n", "fun", "fun f(", "let x: = 1", "let (a, ) = ()", "x.", "x.1", "1.", "1.5.5", "\"", "\"\\", "match", "match x {", "test", "import", "import \"", "public", "method f(", "struct", "enum E { A(", "@", "é", "\U0001F600", "let é = 1", "a::", "::a", "a::b::c", "f(,)", "[,]", "Dict[", "Dict[=>]", "x =", "x +=", "-", "--1", "1 +", "(", ")", "{", "}", "]"]
    return progs


_MATRIX = _hint_matrix()
WITNESSES = [
    {"match": r"guards\.", "kind": "frontend-nopanic", "props": ["C01"], "input": _MATRIX, "expect": {}, "timeout": 600,
     "note": "type hints of every built-in constructor with 0..3 arguments against literals of every shape; truncated and odd inputs"},
]
_PRELUDES = ["src/__prelude.gdn", "src/__random.gdn", "src/__time.gdn", "src/__reflect.gdn"]
WITNESSES.append({"match": r"guards\.g_(eval|values|env|types|garden_type|namespaces)__", "kind": "builtin-args", "props": ["C02"], "input": "", "preludes": _PRELUDES,
                  "skip": ["read_line"], "min_inputs": 100, "timeout": 120, "expect": {}, "note": "every prelude built-in with wrongly typed arguments and wrong arity"})
WITNESSES.append({"match": r"guards\.g_(eval|values|env|types|garden_type|namespaces)__", "kind": "run", "props": ["C02"], "timeout": 60,
                  "input": "enum Shape { Circle(Int), Square }\nlet c = Circle(1)\nprintln(string_repr(c))\nprintln(string_repr(Square))\nprintln(string_repr(Some))\nprintln(string_repr([Circle]))\nstruct P { x: Int }\nprintln(string_repr(P{ x: 1 }))\nprintln(string_repr((1, \"a\", [None])))\nprintln(string_repr(Dict[\"k\" => Ok(1)]))\nprintln(string_repr(fun(x) { x }))\nprintln(\"done\")\n",
                  "expect": {"stdout_contains": "done"}, "note": "enum constructors, values of every kind displayed"})
WITNESSES.append({"match": r"guards\.g_(eval|values|env|types|garden_type|namespaces)__", "kind": "run", "props": ["C02"], "timeout": 60,
                  "input": "enum Shape { Circle(Int), Square }\nCircle()\n", "expect": {"stderr_contains": "Exception"}, "note": "enum constructor with no argument"})
WITNESSES.append({"match": r"guards\.g_(eval|values|env|types|garden_type|namespaces)__", "kind": "run", "props": ["C02"], "timeout": 60,
                  "input": "enum Shape { Circle(Int), Square }\nCircle(1, 2)\n", "expect": {"stderr_contains": "Exception"}, "note": "enum constructor with two arguments"})
WITNESSES.append({"match": r"guards\.g_(json_session|commands)__", "kind": "json-session", "props": ["C09"], "timeout": 120,
                  "input": ["1 +", ":abort", ":skip", ":resume", ":replace 3", ":forget nosuch", ":forget_local nosuch", ":type 1 +", ":test nosuch", ":stack", ":locals", ":doc nosuch", ":source", ":help nosuch", ":nosuchcommand", "fun f() { g() }", "f()", ":stack", ":abort", ":search f", ":globals", ":version", "1"],
                  "expect": {"py": "(lambda n: '' if n >= 23 else 'only %d responses for 23 requests: ' % n + (out + err)[-300:])(len([o for o in jsons(full_out) if isinstance(o, dict)]))"},
                  "note": "every REPL command once, with and without a pending evaluation"})
_SWEEP = common.lsp_sweep_witnesses(r"guards\.g_(lsp|completions|signature_help|hover|go_to_def|pos_to_id|highlight|rename|caret_finder)__", ["C28"])
WITNESSES.append({"match": r"guards\.g_(lsp|completions|signature_help|hover|go_to_def|pos_to_id|highlight|rename|caret_finder)__", "kind": "lsp-sweep", "props": ["C28"],
                  "input": _SWEEP, "expect": {}, "timeout": 600, "note": "position sweeps over %d documents" % len(_SWEEP)})
BOUNDED = [
    {"name": "hint_and_shape_matrix", "kind": "frontend-nopanic", "props": ["C01"], "input": _MATRIX, "n_inputs": len(_MATRIX),
     "bound": "%d generated programs (type hints of every built-in constructor with 0..3 arguments in annotation, return, parameter and generic position against literals of every shape; match shapes; enum / struct / type-parameter corner cases; truncated inputs): check, format and reftest-ast must not crash on any" % len(_MATRIX),
     "expect": {}},
]
sys.path.insert(0, os.path.dirname(os.path.abspath(__file__)))
import binding_shapes  # noqa: E402
BOUNDED.append({"name": "binding_shapes", "kind": "frontend-nopanic", "props": ["C01"], "input": binding_shapes.PROGRAMS, "n_inputs": len(binding_shapes.PROGRAMS),
                "commands": ["check", "format", "reftest-ast", "run"],
                "bound": "%d programs that bind names in unusual ways (the discard name `_` in every binding position, repeated names, names of prelude definitions and built-in types, assignment to names that are not local): check, format, reftest-ast and run end without a crash" % len(binding_shapes.PROGRAMS), "expect": {}})
BOUNDED.append({"name": "moderately_nested_sources", "kind": "frontend-nopanic", "props": ["C01"], "input": common.MODERATE_SOURCES, "n_inputs": len(common.MODERATE_SOURCES),
                "bound": "%d programs nested 40 deep (brackets, blocks, function literals) or with chains of 60 to 100 operators / calls / else-if branches: check, format and reftest-ast end without a crash" % len(common.MODERATE_SOURCES), "expect": {}})
for _dn, _dt in sorted(common.DEEP_SOURCES.items()):
    BOUNDED.append({"name": "deep_source:" + _dn, "kind": "frontend-nopanic", "props": ["C01"], "input": [_dt], "n_inputs": 1,
                    "bound": "one program: %s (check, format and reftest-ast must end without a crash)" % _dn.replace("_", " "), "expect": {}})
_RUN_ORACLE = "('the run crashed (status %s): %s' % (rc, err[-160:])) if (isinstance(rc, int) and rc not in (0, 1)) or 'overflowed' in err else ''"
_NEST = {"list": ("[]", "[x]"), "tuple": ("(1, 2)", "(x, 1)"), "option": ("None", "Some(x)"), "dict": ("Dict[]", "Dict[\"k\" => x]")}


def _nest_prog(kind, n, last):
    a, b = _NEST[kind]
    return "let x = %s\nlet i = 0\nwhile i < %d { x = %s  i += 1 }\n%s\n" % (a, n, b, last)


for _k in sorted(_NEST):
    BOUNDED.append({"name": "moderately_nested_values:%s" % _k, "kind": "run", "props": ["C02"], "n_inputs": 1, "timeout": 120,
                    "input": _nest_prog(_k, 300, "println(string_repr(x == x))\nprintln(string_repr(string_repr(x).len()))"), "expect": {"py": _RUN_ORACLE, "stdout_contains": "True"},
                    "bound": "one program: a %s nested 300 deep, compared with itself and shown with string_repr: `garden run` ends without a crash" % _k})
for _dn, _dk, _dd, _dl in (("nested_list_6000", "list", 6000, "println(\"end\")"), ("nested_option_6000", "option", 6000, "println(\"end\")"), ("nested_list_3000_displayed", "list", 3000, "println(string_repr(x).len())")):
    BOUNDED.append({"name": "deep_value:" + _dn, "kind": "run", "props": ["C02"], "n_inputs": 1, "timeout": 120, "input": _nest_prog(_dk, _dd, _dl), "expect": {"py": _RUN_ORACLE},
                    "bound": "one program: a %s nested %d deep%s: `garden run` ends without a crash" % (_dk, _dd, ", shown with string_repr" if "string_repr" in _dl else "")})


import findings  # noqa: E402
for _fn, _fi, _fb in findings.C02_RUN:
    BOUNDED.append({"name": _fn, "kind": "run-file", "props": ["C02"], "n_inputs": 1, "timeout": 60, "input": _fi, "expect": {"py": _RUN_ORACLE}, "bound": _fb})


def build(tier):
    u = UnitFile("guards")
    u.raw(common.HEADER)
    u.raw(guardslice.GLUE, kind="prelude")
    total = 0
    for prop, pats in FILES.items():
        n_fns = n_idx = n_panic = n_allowed = n_tests = 0
        props = {prop}
        rels = []
        for pat in pats:
            for fp in sorted(glob.glob(os.path.join(REPO, pat))):
                rels.append(os.path.relpath(fp, REPO))
        for rel in rels:
            src = u.source(rel)
            stem = re.sub(r"\W+", "_", rel[len("src/"):-len(".rs")])
            # eval.rs also holds the code that loads definitions; `garden check`, `garden format`'s callers and the
            # language server run it on any text that parses (C01, C28): the functions reachable from
            # load_toplevel_items_ by calls within the file count for those properties too
            load_time = set()
            if rel == "src/eval.rs":
                fns = {it.name: it for it in src.all_fns()}
                todo = [n for n in ("load_toplevel_items_", "load_toplevel_items", "load_toplevel_items_with_stubs") if n in fns]
                while todo:
                    n = todo.pop()
                    if n in load_time:
                        continue
                    load_time.add(n)
                    for callee in set(re.findall(r"\b([a-z_][a-z0-9_]*)\s*\(", fns[n].text)):
                        if callee in fns and callee not in load_time:
                            todo.append(callee)
            ai = [rx for (g, rx, _why) in ALLOWED_INDEX if re.fullmatch(g, rel)]
            for it in src.all_fns():
                if (rel, it.name) in EXCLUDE:
                    continue
                gname = "g_%s__%s" % (stem, it.name.replace("#", "_"))
                lines, sl = guardslice.slice_function(src, it, gname, ALLOWED_PANIC.get((rel, it.name), (0, ""))[0], ai, arity_fn=ARITY_FN)
                if lines is None:
                    continue
                fprops = (props | {"C01", "C28"}) if it.name in load_time else props
                u.fn_props[gname] = fprops
                u.safety_props[gname] = fprops
                u.skeletons[gname] = skeleton_hash(it.text)
                u.items.append({"name": "%s (guard slice)" % it.name, "generated_as": gname, "kind": "slice", "where": "%s:%d-%d" % (rel, it.line0, it.line1),
                                "sha256_16": it.sha(), "skeleton": u.skeletons[gname]})
                for (text, ln) in lines:
                    u.emit(text, Tag("repo", fn=gname, repo_file=rel, repo_line=ln, props=fprops))
                n_fns += 1
                n_idx += sl.n_index
                n_panic += sl.n_panic
                n_allowed += sl.n_allowed
                n_tests += sl.n_len_tests
        total += n_fns
        u.clauses.append(("guards.%s.every_literal_index_is_below_a_tested_length_and_no_panic_site_is_reached" % prop, props,
                          "%d functions, %d literal indexes, %d panic sites as obligations, %d listed sites assumed, %d length tests kept" % (n_fns, n_idx, n_panic, n_allowed, n_tests)))
    if total < 30:
        raise ExtractError("only %d functions with literal indexes or panic sites found" % total)
    u.add_canary_proof()
    u.raw(common.FOOTER)
    return u
