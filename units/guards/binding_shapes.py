"""Programs for guards.bounded[binding_shapes] (C01): valid but unusual ways to bind names, so that the static checks'
bookkeeping (scopes of the unused-variable check, definitions recorded by the type checker) is entered with names it
may not expect: the discard name `_` in every binding position, repeated names, names of prelude definitions."""

PROGRAMS = [
    # `_` in every binding position
    'fun compute(): Int {\n  println("working")\n  42\n}\nlet _ = compute()\n',
    'let (_, second) = (1, 2)\nprintln(string_repr(second))\nlet (_, _) = (3, 4)\n',
    'method describe(_: Int): String {\n  "an integer"\n}\nprintln(1.describe())\n',
    'fun f(_: Int, _: String): Int { 1 }\nprintln(string_repr(f(1, "a")))\nlet g = fun(_) { 2 }\nprintln(string_repr(g(0)))\n',
    'for _ in [1, 2] { println("x") }\nfor (_, b) in [(1, 2)] { println(string_repr(b)) }\n',
    'fun h(o: Option<Int>): Int {\n  match o {\n    Some(_) => 1\n    None => 0\n  }\n}\nprintln(string_repr(h(Some(5))))\n',
    'fun t(): Int {\n  try { 1 } catch (_) { 2 }\n}\nprintln(string_repr(t()))\n',
    'fun inner(): Int {\n  let _ = 1\n  let (_, x) = (1, 2)\n  x\n}\nprintln(string_repr(inner()))\n',
    'test _ { assert(True) }\n',
    # the same name bound twice in one construct; a name bound and never read; a name read before its binding
    'let (a, a) = (1, 2)\nprintln(string_repr(a))\n',
    'fun two(x: Int, x: Int): Int { x }\nprintln(string_repr(two(1, 2)))\n',
    'fun unused(): Int {\n  let a = 1\n  let a = 2\n  let b = a\n  3\n}\nprintln(string_repr(unused()))\n',
    'fun early(): Int {\n  let r = later\n  let later = 1\n  r\n}\n',
    'method me(this: Int, this: Int): Int { this }\n',
    # names of prelude definitions and of built-in types
    'let println = 1\nlet string_repr = 2\n',
    'fun shadow(List: Int, Some: Int): Int { List + Some }\nprintln(string_repr(shadow(1, 2)))\n',
    'struct Float {}\nstruct Int { x: String }\nlet f = Float{}\n',
    'enum Option { Some(Int), None }\nlet o = Some(1)\n',
    # a type hint cut off right after `<` at the end of the text (no trailing newline)
    'fun f(): List<', 'fun f(x: List<', 'let x: Foo<', 'struct Foo { x: List<', 'enum Foo { A(List<', 'fun f(): Fun<(Int), List<', 'let x: (Int, Option<', 'method m(this: List<',
    # assignment to names that are not local variables
    'fun g() {\n  println = 1\n  undefined_name = 2\n  undefined_name += 1\n}\n',
    'let top = 1\nfun set_top() { top = 2  top += 1 }\nset_top()\nprintln(string_repr(top))\n',
]
