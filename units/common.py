"""Shared pieces for units that mention evaluator values and errors."""
import os
import sys

ROOT = os.path.dirname(os.path.dirname(os.path.abspath(__file__)))
sys.path.insert(0, os.path.join(ROOT, "vc"))
import rewrite as rw  # noqa: E402

HEADER = ("#![allow(unused_imports, dead_code, unused_variables, unused_mut, unused_parens, "
          "non_snake_case, unused_assignments, unreachable_code, unreachable_patterns, non_camel_case_types)]\n"
          "use vstd::prelude::*;\nuse std::rc::Rc;\nverus! {")
FOOTER = "} // verus!\nfn main() {}"


def prelude(name):
    return open(os.path.join(ROOT, "prelude", name)).read()


# type-level abstractions used when extracting `Value_` (ASSUMPTION: the functions under
# contract never look inside these)
VALUE_TYPE_RULES = [
    rw.simple("T1", r"rpds::Vector<", "RpdsVector<"),
    rw.simple("T1", r"rpds::HashTrieMap<", "RpdsHashTrieMap<"),
    rw.simple("T1", r"Rc<RefCell<NamespaceInfo>>", "NamespaceRef"),
]

OPAQUE = """
// ---- opaque stand-ins (ASSUMPTION: never inspected by the functions under contract) ----
#[verifier::external_body] pub struct Symbol { _o: u8 }
#[verifier::external_body] pub struct FunInfo { _o: u8 }
#[verifier::external_body] pub struct SymbolName { _o: u8 }
#[verifier::external_body] pub struct BlockBindings { _o: u8 }
#[verifier::external_body] pub struct BuiltInFunctionKind { _o: u8 }
#[verifier::external_body] pub struct NamespaceRef { _o: u8 }
#[verifier::external_body] pub struct Position { _o: u8 }
#[verifier::external_body] #[verifier::accept_recursive_types(T)]
pub struct RpdsVector<T> { _o: core::marker::PhantomData<T> }
#[verifier::external_body] #[verifier::reject_recursive_types(K)] #[verifier::accept_recursive_types(V)]
pub struct RpdsHashTrieMap<K, V> { _o: core::marker::PhantomData<(K, V)> }
"""

OPAQUE_ASSUMPTIONS = {
    "Symbol": "opaque stand-in for parser::ast::Symbol",
    "FunInfo": "opaque stand-in for parser::ast::FunInfo",
    "SymbolName": "opaque stand-in for parser::ast::SymbolName",
    "BlockBindings": "opaque stand-in for values::BlockBindings",
    "BuiltInFunctionKind": "opaque stand-in for values::BuiltInFunctionKind",
    "NamespaceRef": "opaque stand-in for Rc<RefCell<NamespaceInfo>>",
    "Position": "opaque stand-in for parser::position::Position",
    "RpdsVector": "opaque stand-in for rpds::Vector<T>",
    "RpdsHashTrieMap": "opaque stand-in for rpds::HashTrieMap<K, V>",
}

VALUE_GLUE = """
// `Value` is `struct Value(pub Rc<Value_>)`; Rc::new / Rc::as_ref are the identity on the payload
impl Value {
    #[verifier::external_body]
    pub fn as_ref(&self) -> (r: &Value_)
        ensures *r == *self.0,
    { unimplemented!() }
    #[verifier::external_body]
    pub fn new(v: Value_) -> (r: Self)
        ensures *r.0 == v,
    { unimplemented!() }
    #[verifier::external_body]
    pub fn display(&self, env: &Env) -> (r: String)
    { unimplemented!() }
}
"""
VALUE_GLUE_ASSUMPTIONS = {
    "as_ref": "Value::as_ref is Rc::as_ref: returns the payload",
    "new": "Value::new is Rc::new: the payload is the argument",
    "display": "Value::display (values.rs:553-765) returns some String and does not panic — its recursion depth on deeply nested values is NOT under contract",
}

FMT = """
#[verifier::external_body]
pub fn vf_opaque_string() -> (r: String) { unimplemented!() }
#[verifier::external_body]
pub fn vf_opaque_string_args<T>(_args: T) -> (r: String) { unimplemented!() }
#[verifier::external_body]
pub fn vf_opaque_part() -> (r: MessagePart) { unimplemented!() }
#[verifier::external_body]
pub fn vf_opaque_part_args<T>(_args: T) -> (r: MessagePart) { unimplemented!() }
#[verifier::external_body]
pub fn vf_emit() { }
#[verifier::external_body]
pub fn vf_emit_args<T>(_args: T) { }
"""
FMT_ASSUMPTIONS = {
    "vf_opaque_string": "format!(..) yields some String (its text is irrelevant to every obligation); Display impls of the arguments do not panic",
    "vf_opaque_string_args": "format!(.., args) — the argument expressions are kept and evaluated; formatting itself yields some String and does not panic",
    "vf_opaque_part": "msgtext!/msgcode! yield some MessagePart",
    "vf_opaque_part_args": "msgtext!/msgcode! with arguments — arguments kept, result opaque",
    "vf_emit": "print macros have no effect on evaluator state",
    "vf_emit_args": "print macros with arguments — arguments kept",
}

r9 = rw.r9_format
r9.rule_id = "R9"

CLONE = rw.simple("R11", r"\b([A-Za-z_][A-Za-z0-9_]*(?:\.[A-Za-z_0-9]+)*)\.clone\(\)", r"vc_clone(&\1)")


def add_error_types(u):
    """ExceptionInfo, EvalError, RestoreValues, ErrorMessage, MessagePart verbatim."""
    u.add_type("src/parser/diagnostics.rs", "MessagePart")
    u.add_type("src/parser/diagnostics.rs", "ErrorMessage")
    u.raw("pub use MessagePart::Text;")
    u.add_type("src/eval.rs", "ExceptionInfo")
    u.add_type("src/eval.rs", "EvalError")
    u.add_type("src/eval.rs", "RestoreValues")


ENV_OPAQUE = """
#[verifier::external_body] pub struct EnclosingSymbol { _o: u8 }
#[verifier::external_body] pub struct TypeHint { _o: u8 }
#[verifier::external_body] pub struct SyntaxId { _o: u8 }
#[verifier::external_body] pub struct TypeVarEnv { _o: u8 }
#[verifier::external_body] pub struct Expression { _o: u8 }
"""
ENV_OPAQUE_ASSUMPTIONS = {
    "EnclosingSymbol": "opaque stand-in for env::EnclosingSymbol",
    "TypeHint": "opaque stand-in for parser::ast::TypeHint",
    "SyntaxId": "opaque stand-in for parser::ast::SyntaxId",
    "TypeVarEnv": "opaque stand-in for garden_type::TypeVarEnv (an FxHashMap)",
    "Expression": "opaque stand-in for parser::ast::Expression",
}

ENV_TYPE_RULES = [
    rw.simple("T1", r"Rc<RefCell<NamespaceInfo>>", "NamespaceRef"),
]


def add_env_types(u):
    """BlockState, ExpressionState, Bindings (eval.rs); StackFrame, Stack (env.rs) verbatim,
    with the field types they do not own replaced by opaque stand-ins."""
    u.raw(ENV_OPAQUE, kind="prelude")
    u.add_type("src/eval.rs", "BlockState")
    u.add_type("src/eval.rs", "ExpressionState")
    u.add_type("src/eval.rs", "Bindings")
    u.add_type("src/env.rs", "StackFrame", rules=ENV_TYPE_RULES)
    u.add_type("src/env.rs", "Stack")
