"""Shared pieces for units that mention evaluator values and errors."""
import os
import re
import sys

ROOT = os.path.dirname(os.path.dirname(os.path.abspath(__file__)))
sys.path.insert(0, os.path.join(ROOT, "vc"))
import rewrite as rw  # noqa: E402
from gen import Contract  # noqa: E402

HEADER = ("#![allow(unused_imports, dead_code, unused_variables, unused_mut, unused_parens, "
          "non_snake_case, unused_assignments, unreachable_code, unreachable_patterns, non_camel_case_types)]\n"
          "use vstd::prelude::*;\nuse std::rc::Rc;\nverus! {")
FOOTER = "} // verus!\nfn main() {}"


def prelude(name):
    return open(os.path.join(ROOT, "prelude", name)).read()


# type-level abstractions used when extracting `Value_` (ASSUMPTION: the functions under
# contract never look inside these)
VALUE_TYPE_RULES = [
    rw.simple("T1", r"rpds::Vector<", "RpdsVector<"),
    rw.simple("T1", r"rpds::HashTrieMap<", "RpdsHashTrieMap<"),
    rw.simple("T1", r"Rc<RefCell<NamespaceInfo>>", "NamespaceRef"),
]

OPAQUE = """
// ---- opaque stand-ins (ASSUMPTION: never inspected by the functions under contract) ----
#[verifier::external_body] pub struct Symbol { _o: u8 }
#[verifier::external_body] pub struct FunInfo { _o: u8 }
#[verifier::external_body] pub struct SymbolName { _o: u8 }
#[verifier::external_body] pub struct BlockBindings { _o: u8 }
#[verifier::external_body] pub struct BuiltInFunctionKind { _o: u8 }
#[verifier::external_body] pub struct NamespaceRef { _o: u8 }
#[verifier::external_body] pub struct Position { _o: u8 }
#[verifier::external_body] #[verifier::accept_recursive_types(T)]
pub struct RpdsVector<T> { _o: core::marker::PhantomData<T> }
#[verifier::external_body] #[verifier::reject_recursive_types(K)] #[verifier::accept_recursive_types(V)]
pub struct RpdsHashTrieMap<K, V> { _o: core::marker::PhantomData<(K, V)> }
"""

OPAQUE_ASSUMPTIONS = {
    "Symbol": "opaque stand-in for parser::ast::Symbol",
    "FunInfo": "opaque stand-in for parser::ast::FunInfo",
    "SymbolName": "opaque stand-in for parser::ast::SymbolName",
    "BlockBindings": "opaque stand-in for values::BlockBindings",
    "BuiltInFunctionKind": "opaque stand-in for values::BuiltInFunctionKind",
    "NamespaceRef": "opaque stand-in for Rc<RefCell<NamespaceInfo>>",
    "Position": "opaque stand-in for parser::position::Position",
    "RpdsVector": "opaque stand-in for rpds::Vector<T>",
    "RpdsHashTrieMap": "opaque stand-in for rpds::HashTrieMap<K, V>",
}

VALUE_GLUE = """
// `Value` is `struct Value(pub Rc<Value_>)`; Rc::new / Rc::as_ref are the identity on the payload
impl Value {
    #[verifier::external_body]
    pub fn as_ref(&self) -> (r: &Value_)
        ensures *r == *self.0,
    { unimplemented!() }
    #[verifier::external_body]
    pub fn new(v: Value_) -> (r: Self)
        ensures *r.0 == v,
    { unimplemented!() }
    #[verifier::external_body]
    pub fn display(&self, env: &Env) -> (r: String)
    { unimplemented!() }
}
"""
VALUE_GLUE_ASSUMPTIONS = {
    "as_ref": "Value::as_ref is Rc::as_ref: returns the payload",
    "new": "Value::new is Rc::new: the payload is the argument",
    "display": "Value::display (values.rs:553-765) returns some String and does not panic — its recursion depth on deeply nested values is NOT under contract",
}

FMT = """
#[verifier::external_body]
pub fn vf_opaque_string() -> (r: String) { unimplemented!() }
#[verifier::external_body]
pub fn vf_opaque_string_args<T>(_args: T) -> (r: String) { unimplemented!() }
#[verifier::external_body]
pub fn vf_opaque_part() -> (r: MessagePart) { unimplemented!() }
#[verifier::external_body]
pub fn vf_opaque_part_args<T>(_args: T) -> (r: MessagePart) { unimplemented!() }
#[verifier::external_body]
pub fn vf_emit() { }
#[verifier::external_body]
pub fn vf_emit_args<T>(_args: T) { }
"""
FMT_ASSUMPTIONS = {
    "vf_opaque_string": "format!(..) yields some String (its text is irrelevant to every obligation); Display impls of the arguments do not panic",
    "vf_opaque_string_args": "format!(.., args) — the argument expressions are kept and evaluated; formatting itself yields some String and does not panic",
    "vf_opaque_part": "msgtext!/msgcode! yield some MessagePart",
    "vf_opaque_part_args": "msgtext!/msgcode! with arguments — arguments kept, result opaque",
    "vf_emit": "print macros have no effect on evaluator state",
    "vf_emit_args": "print macros with arguments — arguments kept",
}

r9 = rw.r9_format
r9.rule_id = "R9"

CLONE = rw.simple("R11", r"\b([A-Za-z_][A-Za-z0-9_]*(?:\.[A-Za-z_0-9]+)*)\.clone\(\)", r"vc_clone(&\1)")


def add_error_types(u):
    """ExceptionInfo, EvalError, RestoreValues, ErrorMessage, MessagePart verbatim."""
    u.add_type("src/parser/diagnostics.rs", "MessagePart")
    u.add_type("src/parser/diagnostics.rs", "ErrorMessage")
    u.raw("pub use MessagePart::Text;")
    u.add_type("src/eval.rs", "ExceptionInfo")
    u.add_type("src/eval.rs", "EvalError")
    u.add_type("src/eval.rs", "RestoreValues")


ENV_OPAQUE = """
#[verifier::external_body] pub struct EnclosingSymbol { _o: u8 }
#[verifier::external_body] pub struct TypeHint { _o: u8 }
#[verifier::external_body] pub struct SyntaxId { _o: u8 }
#[verifier::external_body] pub struct TypeVarEnv { _o: u8 }
#[verifier::external_body] pub struct Expression { _o: u8 }
"""
ENV_OPAQUE_ASSUMPTIONS = {
    "EnclosingSymbol": "opaque stand-in for env::EnclosingSymbol",
    "TypeHint": "opaque stand-in for parser::ast::TypeHint",
    "SyntaxId": "opaque stand-in for parser::ast::SyntaxId",
    "TypeVarEnv": "opaque stand-in for garden_type::TypeVarEnv (an FxHashMap)",
    "Expression": "opaque stand-in for parser::ast::Expression",
}

ENV_TYPE_RULES = [
    rw.simple("T1", r"Rc<RefCell<NamespaceInfo>>", "NamespaceRef"),
]


def add_env_types(u):
    """BlockState, ExpressionState, Bindings (eval.rs); StackFrame, Stack (env.rs) verbatim,
    with the field types they do not own replaced by opaque stand-ins."""
    u.raw(ENV_OPAQUE, kind="prelude")
    u.add_type("src/eval.rs", "BlockState")
    u.add_type("src/eval.rs", "ExpressionState")
    u.add_type("src/eval.rs", "Bindings")
    u.add_type("src/env.rs", "StackFrame", rules=ENV_TYPE_RULES)
    u.add_type("src/env.rs", "Stack")


# ---- AST types ---------------------------------------------------------------------------
AST_OPAQUE = """
#[verifier::external_body] pub struct Pattern { _o: u8 }
#[verifier::external_body] pub struct LetDestination { _o: u8 }
#[verifier::external_body] pub struct OrderedF64 { _o: u8 }
#[verifier::external_body] pub struct ExpressionWithComma { _o: u8 }
#[verifier::external_body] pub struct DictKeyValue { _o: u8 }
#[verifier::external_body] pub struct TypeSymbol { _o: u8 }
#[verifier::external_body] pub struct ParenthesizedArguments { _o: u8 }
#[verifier::external_body] pub struct ParenthesizedExpression { _o: u8 }
"""
AST_OPAQUE_ASSUMPTIONS = {
    "Pattern": "opaque stand-in for parser::ast::Pattern",
    "LetDestination": "opaque stand-in for parser::ast::LetDestination",
    "OrderedF64": "opaque stand-in for ordered_float::OrderedFloat<f64>",
    "ExpressionWithComma": "opaque stand-in for parser::ast::ExpressionWithComma",
    "DictKeyValue": "opaque stand-in for parser::ast::DictKeyValue",
    "TypeSymbol": "opaque stand-in for parser::ast::TypeSymbol",
    "ParenthesizedArguments": "opaque stand-in for parser::ast::ParenthesizedArguments",
    "ParenthesizedExpression": "opaque stand-in for parser::ast::ParenthesizedExpression",
}
AST_TYPE_RULES = [rw.simple("T1", r"OrderedFloat<f64>", "OrderedF64")]


def _without(text, names):
    for n in names:
        text = re.sub(r"#\[verifier::external_body\] pub struct %s \{ _o: u8 \}\n" % n, "", text)
    return text


def add_ast_types(u, with_env_opaque=True, real=()):
    """Expression, Expression_, Block, BinaryOperatorKind/Symbol, AssignUpdateKind verbatim
    (parser/ast.rs); the other AST types they mention are opaque stand-ins."""
    A = "src/parser/ast.rs"
    u.raw(_without(AST_OPAQUE, real), kind="prelude")
    for n in real:
        u.add_type(A, n)
    u.add_type(A, "BinaryOperatorKind")
    u.add_type(A, "BinaryOperatorSymbol")
    u.add_type(A, "AssignUpdateKind")
    u.add_type(A, "Block")
    u.add_type(A, "Expression_", rules=AST_TYPE_RULES)
    u.add_type(A, "Expression")


ENV_STRUCT_OPAQUE = """
#[verifier::external_body] pub struct TestInfo { _o: u8 }
#[verifier::external_body] pub struct TypeDefAndMethods { _o: u8 }
#[verifier::external_body] pub struct PathBuf { _o: u8 }
#[verifier::external_body] pub struct IdGenerator { _o: u8 }
#[verifier::external_body] pub struct Vfs { _o: u8 }
#[verifier::external_body] pub struct TypeName { _o: u8 }
#[verifier::external_body] #[verifier::reject_recursive_types(K)] #[verifier::accept_recursive_types(V)]
pub struct OpaqueMap<K, V> { _o: core::marker::PhantomData<(K, V)> }
"""
ENV_STRUCT_ASSUMPTIONS = {
    "TestInfo": "opaque stand-in", "TypeDefAndMethods": "opaque stand-in", "PathBuf": "opaque stand-in",
    "IdGenerator": "opaque stand-in", "Vfs": "opaque stand-in", "TypeName": "opaque stand-in",
    "OpaqueMap": "opaque stand-in for rustc_hash::FxHashMap<K, V>",
}
ENV_STRUCT_RULES = [
    rw.simple("T1", r"FxHashMap<", "OpaqueMap<"),
    rw.simple("T1", r"Rc<RefCell<NamespaceInfo>>", "NamespaceRef"),
]

# ENV_OPAQUE without Expression/SyntaxId (for units that extract the real AST)
ENV_OPAQUE_NOAST = """
#[verifier::external_body] pub struct EnclosingSymbol { _o: u8 }
#[verifier::external_body] pub struct TypeHint { _o: u8 }
#[verifier::external_body] pub struct SyntaxId { _o: u8 }
#[verifier::external_body] pub struct TypeVarEnv { _o: u8 }
"""


def add_env_full(u, real_typename=False, typehint_stub=False, real_ast=(), no_syntaxid=False):
    """The evaluator's state types verbatim: BlockState, ExpressionState, Bindings (eval.rs),
    StackFrame, Stack, Env (env.rs), with the AST (add_ast_types) and opaque stand-ins for
    every field type these functions do not look into."""
    if typehint_stub:
        # TypeHint reduced to the one field the step loop reads (`position`)
        u.raw(_without(ENV_OPAQUE_NOAST, ["SyntaxId"] if no_syntaxid else []).replace("#[verifier::external_body] pub struct TypeHint { _o: u8 }",
                                       "#[verifier::external_body] pub struct TypeHintRest { _o: u8 }\npub struct TypeHint { pub position: Position, pub rest: TypeHintRest }"), kind="prelude")
    else:
        u.raw(_without(ENV_OPAQUE_NOAST, ["SyntaxId"] if no_syntaxid else []), kind="prelude")
    if real_typename:
        u.raw(ENV_STRUCT_OPAQUE.replace("#[verifier::external_body] pub struct TypeName { _o: u8 }\n", ""), kind="prelude")
        u.add_type("src/parser/ast.rs", "TypeName")
    else:
        u.raw(ENV_STRUCT_OPAQUE, kind="prelude")
    add_ast_types(u, real=real_ast)
    u.add_type("src/eval.rs", "BlockState")
    u.add_type("src/eval.rs", "ExpressionState")
    u.add_type("src/eval.rs", "Bindings")
    u.add_type("src/env.rs", "StackFrame", rules=ENV_TYPE_RULES)
    u.add_type("src/env.rs", "Stack")
    u.add_type("src/env.rs", "Env", rules=ENV_STRUCT_RULES)


TOP_SPEC = """
pub open spec fn top(env: Env) -> StackFrame { env.stack.0@.last() }
"""


def add_env_accessors(u, props, props_safety=None):
    """Env::{current_frame_mut, push_binding_block, push_expr_to_eval, push_value, pop_value}
    (env.rs) verbatim, under frame contracts.  Needs `top()` (TOP_SPEC or the unit's specs)."""
    ENV = "src/env.rs"
    props_safety = props_safety or props
    u.add_fn("src/eval.rs", "push_block", impl="Bindings", contract=Contract(
        ensures=[("one_more", "final(self).block_bindings@.len() == old(self).block_bindings@.len() + 1")], props=props))
    u.add_fn("src/eval.rs", "pop_block", impl="Bindings", contract=Contract(
        requires=[("at_least_two", "old(self).block_bindings@.len() >= 2")],
        ensures=[("one_less", "final(self).block_bindings@ == old(self).block_bindings@.drop_last()")],
        props=props_safety))
    u.add_fn(ENV, "current_frame_mut", impl="Env", contract=Contract(
        requires=[("nonempty", "old(self).stack.0@.len() >= 1")],
        ensures=[("is_top", "*r == old(self).stack.0@.last()"),
                 ("frame", "final(self).stack.0@ == old(self).stack.0@.drop_last().push(*final(r))"),
                 ("rest", "*final(self) == (Env { stack: final(self).stack, ..*old(self) })")],
        props=props_safety))
    rest = "final(self).stack.0@.len() == old(self).stack.0@.len() && final(self).stack.0@.drop_last() == old(self).stack.0@.drop_last()"
    ENVREST = "*final(self) == (Env { stack: final(self).stack, ..*old(self) })"
    u.add_fn(ENV, "push_binding_block", impl="Env", contract=Contract(
        requires=[("nonempty", "old(self).stack.0@.len() >= 1")],
        ensures=[("one_more", "top(*final(self)).bindings.block_bindings@.len() == top(*old(self)).bindings.block_bindings@.len() + 1"),
                 ("same_pending", "top(*final(self)) == (StackFrame { bindings: top(*final(self)).bindings, ..top(*old(self)) })"),
                 ("others", rest), ("env_rest", ENVREST)], props=props))
    u.add_fn(ENV, "push_expr_to_eval", impl="Env", contract=Contract(
        requires=[("nonempty", "old(self).stack.0@.len() >= 1")],
        ensures=[("pushed", "top(*final(self)).exprs_to_eval@ == top(*old(self)).exprs_to_eval@.push((state, expr))"),
                 ("same_blocks", "top(*final(self)) == (StackFrame { exprs_to_eval: top(*final(self)).exprs_to_eval, ..top(*old(self)) })"),
                 ("others", rest), ("env_rest", ENVREST)], props=props))
    u.add_fn(ENV, "push_value", impl="Env", contract=Contract(
        requires=[("nonempty", "old(self).stack.0@.len() >= 1")],
        ensures=[("pushed", "top(*final(self)).evalled_values@ == top(*old(self)).evalled_values@.push(value)"),
                 ("same_blocks", "top(*final(self)) == (StackFrame { evalled_values: top(*final(self)).evalled_values, ..top(*old(self)) })"),
                 ("others", rest), ("env_rest", ENVREST)], props=props))
    u.add_fn(ENV, "pop_value", impl="Env", contract=Contract(
        requires=[("nonempty", "old(self).stack.0@.len() >= 1")],
        ensures=[("popped", "r is Some <==> top(*old(self)).evalled_values@.len() > 0"),
                 ("is_last", "r is Some ==> r->Some_0 == top(*old(self)).evalled_values@.last()"),
                 ("rest_values", "top(*final(self)).evalled_values@ == (if top(*old(self)).evalled_values@.len() > 0 { top(*old(self)).evalled_values@.drop_last() } else { top(*old(self)).evalled_values@ })"),
                 ("same_blocks", "top(*final(self)) == (StackFrame { evalled_values: top(*final(self)).evalled_values, ..top(*old(self)) })"),
                 ("others", rest), ("env_rest", ENVREST)], props=props))



LSP_SWEEP_DOCS = [
    ("ascii", "fun foo(x: Int): Int {\n  let y = x + 1\n  y\n}\n\nlet r = foo(2)\nr.abs()\n"),
    ("astral characters in a string and a comment", "// \U0001F600 café\nfun foo(): String {\n  let s = \"hi \U0001F600\"\n  s\n}\nfoo().len()\n"),
    ("CRLF line endings with multi-byte text", "fun foo(): Int { 1 }\r\nlet t = (\"世界\U0001F600\", foo())\r\nt.first\r\n"),
    ("no trailing newline, parse error at the end", "fun foo(): Int { 1 }\nlet é = foo(\"\U0001F600\""),
    ("empty document", ""),
    ("only newlines and an astral character", "\n\U0001F600\n\n"),
]
LSP_SWEEP_METHODS = ["textDocument/completion", "textDocument/definition", "textDocument/hover", "textDocument/signatureHelp",
                     "textDocument/documentHighlight", "textDocument/references", "textDocument/rename", "textDocument/codeAction"]


def lsp_position_sweep(doc):
    """LSP messages over `doc`: every position request at every (line, character) of a grid that covers each
    UTF-16 column of each line (so also the middle of surrogate pairs), two columns past the end of each line,
    two lines past the end of the document and a very large line / column; then the whole-document requests.
    Returns (messages, ids of the requests in order)."""
    uri = "file:///sweep.gdn"
    msgs = [{"jsonrpc": "2.0", "id": 1, "method": "initialize", "params": {"capabilities": {}}},
            {"jsonrpc": "2.0", "method": "initialized", "params": {}},
            {"jsonrpc": "2.0", "method": "textDocument/didOpen", "params": {"textDocument": {"uri": uri, "languageId": "garden", "version": 1, "text": doc}}}]
    ids = [1]
    n = 1
    lines = doc.split("\n")
    grid = []
    for li, text in enumerate(lines + ["", ""]):
        width = len(text.encode("utf-16-le")) // 2
        for ch in list(range(width + 3)) + [4000000000]:
            grid.append((li, ch))
    grid.append((4000000000, 0))
    for (li, ch) in grid:
        for meth in LSP_SWEEP_METHODS:
            n += 1
            params = {"textDocument": {"uri": uri}, "position": {"line": li, "character": ch}}
            if meth.endswith("rename"):
                params["newName"] = "renamed"
            if meth.endswith("references"):
                params["context"] = {"includeDeclaration": True}
            if meth.endswith("codeAction"):
                params = {"textDocument": {"uri": uri}, "range": {"start": {"line": li, "character": ch}, "end": {"line": li, "character": ch + 1}}, "context": {"diagnostics": []}}
            msgs.append({"jsonrpc": "2.0", "id": n, "method": meth, "params": params})
            ids.append(n)
    # code actions for ranges that span lines, that end before they start, and that are the whole document
    last = max(len(lines) - 1, 0)
    for (a, b) in (((0, 0), (last, 0)), ((last, 0), (0, 0)), ((1, 2), (0, 1)), ((0, 3), (0, 1)), ((0, 0), (4000000000, 0)), ((4000000000, 5), (0, 0))):
        n += 1
        msgs.append({"jsonrpc": "2.0", "id": n, "method": "textDocument/codeAction",
                     "params": {"textDocument": {"uri": uri}, "range": {"start": {"line": a[0], "character": a[1]}, "end": {"line": b[0], "character": b[1]}}, "context": {"diagnostics": []}}})
        ids.append(n)
    for meth in ("textDocument/documentSymbol", "textDocument/formatting"):
        n += 1
        msgs.append({"jsonrpc": "2.0", "id": n, "method": meth, "params": {"textDocument": {"uri": uri}, "options": {"tabSize": 2, "insertSpaces": True}}})
        ids.append(n)
    n += 1
    msgs.append({"jsonrpc": "2.0", "id": n, "method": "shutdown"})
    ids.append(n)
    return msgs, ids


def lsp_sweep_witnesses(match, props):
    out = []
    for what, doc in LSP_SWEEP_DOCS:
        msgs, ids = lsp_position_sweep(doc)
        oracle = ("(lambda got, n: '' if got == list(range(1, n + 1)) else 'responses carry ids %r...; expected exactly one for each of the requests 1..%d, in order (first difference at index %d)' "
                  "% (got[:6], n, next((i for i, (a, b) in enumerate(zip(got + [None], list(range(1, n + 1)) + [None])) if a != b), -1)))"
                  "([o.get('id') for o in jsons(full_out) if 'id' in o and 'method' not in o], " + str(len(ids)) + ")")
        out.append({"match": match, "kind": "lsp", "props": list(props), "input": msgs, "expect": {"py": oracle}, "timeout": 300,
                    "note": "position sweep, %s: %d requests" % (what, len(ids))})
    return out


import json as _json
LSP_FIX_PROGRAMS = _json.load(open(os.path.join(os.path.dirname(os.path.abspath(__file__)), "fixes", "corpus.json"))) + [
    'fun f() {\n  let unused = "a\n  b"\n  let msg = "first\n  second"\n  msg\n}\nf()\n',
    'fun g(o: Option<Int>): String {\n  match o { _ => { "other" } Some(_) => { "\U0001F600" } }\n}\ng(None)\n',
    'fun h(xs: List<Int>) {\n  if (xs.len()) == 0 { println("\U0001F600") }\n  if xs.len() != 0 { 1 } else { 2 }\n  if 0 == xs.len() { 3 }\n}\nh([])\n',
    'fun h2(xs: List<Int>) {\n  if verbose() && ((xs.len()) == 0) { 1 } else if (xs.len() != 0) { 2 }\n  if (0) == xs.len() { 3 }\n  if xs.len() == (0) { 4 }\n}\nfun verbose(): Bool { True }\nh2([])\n',
    'fun k<T, U>(x: Int): Int {\n  let y = "\u00e9\U0001F600"  let z = 2\n  return x\n}\nk(1)\n',
    'fun m() {\n  "\U0001F600 unused"  1\n  [1,\n   2]\n  3\n}\nm()\n', 'fun n() {\n  1\n  2 }\nn()\n', 'fun o() {\n  "x"\n  2\n}\no()',
    'fun p(): Int {\n  let v = foo(1,\n    2)\n  v\n}\nfun foo(a: Int, b: Int): Int { a }\np()\n',
    'fun q(): String {\n  let s = "\U0001F600\n  \u4e16"\n  s\n}\nq()\n',
    'fun r(): Int {\n  return (1 +\n    2)\n}\nr()\n',
    'fun rb(x: Bool, y: Bool): Bool {\n  let a = x || y ||\n    x\n  let b = (x && y) &&\n      y && x\n  a || b || a\n}\nrb(True, False)\n',
    'fun f<T\n>(x: Int): Int { x }\nf(1)\n', 'fun g<A,\n  B\n  >(x: Int): Int { x }\ng(1)\n', 'fun h< T >(x: Int): Int { x }\nh(1)\n', 'method m< U , V >(this: Int): Int { this }\n1.m()\n',
    'fun rb2(is_friend: Bool, is_morning: Bool): Bool {\n  let s = "\U0001F600"\n  is_friend || is_morning || is_friend\n}\nrb2(True, False)\n',
]
LSP_FIX_BOUND = ("%d programs (the check --fix corpus plus multi-line and multi-byte values in every position a lint builds a fix from): the quick-fix edits the language server offers, applied as LSP defines ranges, must give the text `check --fix --stdout` gives, and every range must lie inside the document" % len(LSP_FIX_PROGRAMS))


# Deeply nested or very long-chained source text.  Every recursive pass of the front end (parser, checks, formatter)
# recurses once per level, so each of these overflows the native stack at some depth; the depths listed here are about
# twice the depth at which the debug build crashes on the 8 MiB main thread (the JSON session's eval thread has 2 MiB).
DEEP_SOURCES = {
    "nested_list_literal_500": "let x = " + "[" * 500 + "]" * 500 + "\n",
    "nested_parentheses_500": "let x = " + "(" * 500 + "1" + ")" * 500 + "\n",
    "nested_if_blocks_500": "fun f() { " + "if True { " * 500 + "1" + " }" * 500 + " }\n",
    "nested_fun_literals_500": "let x = " + "fun() { " * 500 + "1" + " }" * 500 + "\n",
    "unary_minus_chain_800": "let x = " + "-" * 800 + "1\n",
    "binary_operator_chain_800": "let x = " + " + ".join("1" for _ in range(800)) + "\n",
    "method_call_chain_800": "let x = [1]" + ".append(1)" * 800 + "\n",
    "else_if_chain_3000": "fun f(n: Int): Int {\n  if n == 0 { 0 }" + "".join(" else if n == %d { %d }" % (i, i) for i in range(1, 3000)) + " else { 1 }\n}\n",
    "nested_type_hint_3000": "let x: " + "List<" * 3000 + "Int" + ">" * 3000 + " = []\n",
}
# the same shapes at a depth every pass handles (must stay green)
MODERATE_SOURCES = [
    "let x = " + "[" * 40 + "]" * 40 + "\n", "let x = " + "(" * 40 + "1" + ")" * 40 + "\n", "fun f() { " + "if True { " * 40 + "1" + " }" * 40 + " }\n",
    "let x = " + "fun() { " * 40 + "1" + " }" * 40 + "\n", "let x = " + "-" * 60 + "1\n", "let x = " + " + ".join("1" for _ in range(60)) + "\n",
    "let x = [1]" + ".append(1)" * 60 + "\n", "fun f(n: Int): Int {\n  if n == 0 { 0 }" + "".join(" else if n == %d { %d }" % (i, i) for i in range(1, 100)) + " else { 1 }\n}\n",
    "let x: " + "List<" * 100 + "Int" + ">" * 100 + " = []\n",
]
