"""Reference implementations (Python) of the prelude's string and list functions named by C32, and the corpus of
calls they are compared on.  Each case is a Garden expression and the Garden literal the reference gives for it
(or None where only termination without a crash is asked)."""

S = ["", "a", "abc", "abca", "a,b", "a,,b,", ",", " foo ", "  ", "\t x \n", "h\u00e9llo w\u00f6rld", "\u2603c", "aaa", "ab ab ab",
     "a\nb", "a\nb\n", "\n", "\n\n", "\U0001F600x\U0001F600", "abcabc"]
N = ["", "a", "b", ",", "ab", "abc", "x", " ", "aa", "\u2603", "\U0001F600", "\n", "bc"]
I = [-3, -1, 0, 1, 2, 3, 5, 100]
L = [[], [1], [1, 2, 3], [3, 1, 2], [2, 2, 1], [5, -1, 0, 5]]
SL = [[], ["a"], ["a", "b"], ["", ""], ["x", "", "y"]]
WS = " \t\n"


def lit(v):
    if v is None:
        return "None"
    if isinstance(v, bool):
        return "True" if v else "False"
    if isinstance(v, int):
        return str(v) if v >= 0 else "(0 - %d)" % (-v)
    if isinstance(v, str):
        return '"' + v.replace("\\", "\\\\").replace('"', '\\"').replace("\n", "\\n").replace("\t", "\\t") + '"'
    if isinstance(v, list):
        return "[" + ", ".join(lit(x) for x in v) + "]"
    if isinstance(v, tuple) and len(v) == 2 and v[0] == "Some":
        return "Some(%s)" % lit(v[1])
    if isinstance(v, tuple):
        return "(" + ", ".join(lit(x) for x in v) + ")"
    raise TypeError(v)


def some(x):
    return ("Some", x)


def slice_ref(items, i, j):
    n = len(items)
    jj = n + j if j < 0 else j
    return [items[k] for k in range(n) if i <= k < jj]


def lines_ref(s):
    parts = s.split("\n")
    if parts and parts[-1] == "":
        parts = parts[:-1]
    return parts


def cases():
    out = {}

    def add(fn, expr, expected):
        out.setdefault(fn, []).append({"expr": expr, "expected": None if expected is None else lit(expected)})
    for s in S:
        ls = lit(s)
        add("String::len", "%s.len()" % ls, len(s))
        add("String::chars", "%s.chars()" % ls, list(s))
        add("String::lines", "%s.lines()" % ls, lines_ref(s))
        add("String::trim_left", "%s.trim_left()" % ls, s.lstrip(WS))
        add("String::trim_right", "%s.trim_right()" % ls, s.rstrip(WS))
        add("String::trim", "%s.trim()" % ls, s.strip(WS))
        for n in N:
            ln = lit(n)
            add("String::starts_with", "%s.starts_with(%s)" % (ls, ln), s.startswith(n))
            add("String::ends_with", "%s.ends_with(%s)" % (ls, ln), s.endswith(n))
            add("String::contains", "%s.contains(%s)" % (ls, ln), n in s)
            add("String::index_of", "%s.index_of(%s)" % (ls, ln), some(s.find(n)) if s.find(n) >= 0 else None)
            add("String::strip_prefix", "%s.strip_prefix(%s)" % (ls, ln), s[len(n):] if s.startswith(n) else s)
            add("String::strip_suffix", "%s.strip_suffix(%s)" % (ls, ln), s[:len(s) - len(n)] if s.endswith(n) else s)
            if n != "":
                add("String::split", "%s.split(%s)" % (ls, ln), [] if s == "" else s.split(n))
                a, sep, b = s.partition(n)
                add("String::split_once", "%s.split_once(%s)" % (ls, ln), some((a, b)) if sep else None)
                for after in ("", "xy", n + n):
                    add("String::replace", "%s.replace(%s, %s)" % (ls, ln, lit(after)), s.replace(n, after))
            else:
                # an empty needle: only termination is asked (the documentation does not say what the result is)
                add("String::split (terminates)", "%s.split(%s)" % (ls, ln), None)
                add("String::split_once (terminates)", "%s.split_once(%s)" % (ls, ln), None)
                add("String::replace (terminates)", "%s.replace(%s, \"x\")" % (ls, ln), None)
        for i in I:
            for j in I:
                if 0 <= i <= j:
                    add("String::substring", "%s.substring(%d, %d)" % (ls, i, j), s[i:j])
    for sl in SL:
        for sep in ("", ",", ", ", "\u2603"):
            add("String::join", "%s.join(%s)" % (lit(sep), lit(sl)), sep.join(sl))
    for i in I:
        for j in I:
            add("range", "range(%s, %s)" % (lit(i), lit(j)), list(range(i, j)))
            add("max", "max(%s, %s)" % (lit(i), lit(j)), max(i, j))
            add("min", "min(%s, %s)" % (lit(i), lit(j)), min(i, j))
    for a in L:
        la = lit(a)
        add("List::len", "%s.len()" % la, len(a))
        add("List::first", "%s.first()" % la, some(a[0]) if a else None)
        add("List::last", "%s.last()" % la, some(a[-1]) if a else None)
        add("List::enumerate", "%s.enumerate()" % la, [(k, x) for k, x in enumerate(a)])
        add("sort_nums", "sort_nums(%s)" % la, sorted(a))
        add("List::filter", "%s.filter(fun(x: Int) { x > 1 })" % la, [x for x in a if x > 1])
        add("List::map", "%s.map(fun(x: Int) { x + 1 })" % la, [x + 1 for x in a])
        for x in (0, 1, 2, 5):
            add("List::append", "%s.append(%d)" % (la, x), a + [x])
            add("List::contains", "%s.contains(%d)" % (la, x), x in a)
            add("List::index_of", "%s.index_of(%d)" % (la, x), some(a.index(x)) if x in a else None)
        for b in L[:4]:
            add("List::concat", "%s.concat(%s)" % (la, lit(b)), a + b)
        for i in I:
            add("List::get", "%s.get(%s)" % (la, lit(i)), some(a[i]) if 0 <= i < len(a) else None)
            for j in I:
                add("List::slice", "%s.slice(%s, %s)" % (la, lit(i), lit(j)), slice_ref(a, i, j))
    return out
