"""Unit `builtins` (C32): the Rust halves of the prelude's string and list functions (the arms of
eval_built_in_method_call that compute List::get, List::slice, String::index_of, String::substring) against
mathematical specifications written from the prelude's documentation; the functions written in Garden
(__prelude.gdn) are out of a Rust verifier's reach and are compared with reference implementations on a corpus
(bounded stand-in)."""
import os
import re
import sys

HERE = os.path.dirname(os.path.abspath(__file__))
ROOT = os.path.dirname(os.path.dirname(HERE))
sys.path.insert(0, os.path.join(ROOT, "vc"))
sys.path.insert(0, os.path.join(ROOT, "units"))
sys.path.insert(0, HERE)
import rewrite as rw  # noqa: E402
from gen import Contract, UnitFile  # noqa: E402
import common  # noqa: E402
import reference  # noqa: E402

EV = "src/eval.rs"
RLIMIT = 60
MIN_FUNCTIONS = 2

ASSUMPTIONS = {
    "Value": "opaque stand-in for values::Value", "clone": "Clone returns an equal value",
    "none": "Value::none() is the Garden value None", "some": "Value::some(v) is the Garden value Some(v)",
    "vv_get_unwrap": "`items.get(i).unwrap()` on an rpds::Vector: panics unless i < len (an obligation); returns the element",
}
LEMMAS = {}
UNVERIFIED = {"C32": [
    "the functions written in Garden in src/__prelude.gdn (split, split_once, replace, contains, trim*, strip_prefix/suffix, first, last, concat, map, filter, enumerate, range, sort_nums, min, max, List::index_of): there is no deductive verifier for Garden; they are compared with reference implementations on the corpus of the bounded stand-in only, and their termination is observed on that corpus only",
    "Rust built-ins that are a single std call (String::len = chars().count(), starts_with, ends_with, lines, List::len, List::append = push_back, List::contains via Value equality (C13)): std's behaviour is assumed",
    "rpds::Vector is stood in for by Vec (len / get); `iter().skip(a).take(n)` yields the elements with index in [a, a + n) (std); the wrapping of the result into a Garden value and the argument type checks around the cores",
]}

GLUE = """
#[verifier::external_body] pub struct Value { _o: u8 }
impl Clone for Value {
    #[verifier::external_body]
    fn clone(&self) -> (r: Self) ensures r == *self { unimplemented!() }
}
pub uninterp spec fn none_value() -> Value;
pub uninterp spec fn some_value(v: Value) -> Value;
impl Value {
    #[verifier::external_body]
    pub fn none() -> (r: Self) ensures r == none_value() { unimplemented!() }
    #[verifier::external_body]
    pub fn some(v: Value) -> (r: Self) ensures r == some_value(v) { unimplemented!() }
}
/// List::slice(i, j) keeps the item at index k: i <= k < j, where a negative j counts from the end
pub open spec fn slice_wants(k: int, i: int, j: int, len: int) -> bool {
    i <= k < (if j < 0 { len + j } else { j })
}
#[verifier::external_body]
pub fn vv_get_unwrap<'a>(v: &'a Vec<Value>, i: usize) -> (r: &'a Value)
    requires i < v@.len(),
    ensures *r == v@[i as int],
{ unimplemented!() }
"""

_CASES = reference.cases()
_N = sum(len(v) for v in _CASES.values())
WITNESSES = [
    {"match": r"builtins\\.", "kind": "prelude-reference", "props": ["C32"], "input": _CASES, "timeout_each": 60, "expect": {}, "timeout": 600,
     "note": "%d calls of the prelude functions compared with reference implementations" % _N},
]
BOUNDED = [
    {"name": "prelude_reference_corpus", "kind": "prelude-reference", "props": ["C32"], "input": _CASES, "timeout_each": 60, "n_inputs": _N,
     "bound": "%d calls of %d prelude string and list functions (strings with multi-byte and astral characters, empty strings and needles, negative and out-of-range indexes, empty lists) compared with Python reference implementations written from the documentation comments; calls with an empty needle to split / split_once / replace only have to finish within 60 s" % (_N, len(_CASES)),
     "expect": {}},
]


def build(tier):
    u = UnitFile("builtins")
    u.raw(common.HEADER)
    u.raw(GLUE, kind="prelude")
    c32 = {"C32"}
    LEN = "items@.len()"
    # List::get: Some(items[i]) for an index inside the list, None otherwise
    u.add_block_fn(
        EV, "eval_built_in_method_call", "let v = if *i >= items.len() as i64 || *i < 0 {", upto=";",
        sig="pub fn list_get_core(items: &Vec<Value>, i: &i64) -> (v: Value)",
        suffix="\n    v",
        rules=[rw.simple("R13", r"(\w+)\.get\(([^()]*)\)\.unwrap\(\)", r"vv_get_unwrap(\1, \2)")],
        contract=Contract(requires=[("len_fits", "%s <= i64::MAX" % LEN)],
                          ensures=[("some_item_inside_none_outside",
                                    "v == (if 0 <= *i < %s { some_value(items@[*i as int]) } else { none_value() })" % LEN)],
                          ret="v", props=c32))
    # List::slice: the items whose index k satisfies i <= k < j (a negative j counts from the end)
    u.add_range_fn(
        EV, "eval_built_in_method_call", "let len = items.len() as i64;", "if expr_value_is_used {", exclusive=True,
        sig="pub fn list_slice_core(items: &Vec<Value>, i_arg: i64, j_arg: i64) -> (r: (usize, usize))",
        suffix="\n    (start, end)",
        contract=Contract(
            requires=[("len_fits", "%s <= i64::MAX" % LEN)],
            ensures=[("in_range", "r.0 <= r.1 <= %s" % LEN),
                     ("exactly_the_indexes_from_i_to_j",
                      "forall|k: int| 0 <= k < %s ==> ((r.0 <= k < r.1) <==> #[trigger] slice_wants(k, i_arg as int, j_arg as int, %s as int))" % (LEN, LEN))],
            ret="r", props=c32))
    u.add_canary_proof()
    u.raw(common.FOOTER)
    return u
