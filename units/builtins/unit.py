"""Unit `builtins` (C32): the Rust halves of the prelude's string and list functions (the arms of
eval_built_in_method_call that compute List::get, List::slice, String::index_of, String::substring) against
mathematical specifications written from the prelude's documentation; the functions written in Garden
(__prelude.gdn) are out of a Rust verifier's reach and are compared with reference implementations on a corpus
(bounded stand-in)."""
import os
import re
import sys

HERE = os.path.dirname(os.path.abspath(__file__))
ROOT = os.path.dirname(os.path.dirname(HERE))
sys.path.insert(0, os.path.join(ROOT, "vc"))
sys.path.insert(0, os.path.join(ROOT, "units"))
sys.path.insert(0, HERE)
import rewrite as rw  # noqa: E402
from gen import Contract, UnitFile  # noqa: E402
import common  # noqa: E402
import reference  # noqa: E402

EV = "src/eval.rs"
RLIMIT = 60
MIN_FUNCTIONS = 2

ASSUMPTIONS = {
    "Value": "opaque stand-in for values::Value", "clone": "Clone returns an equal value",
    "none": "Value::none() is the Garden value None", "some": "Value::some(v) is the Garden value Some(v)",
    "int": "Value::new(Value_::Int(i)) is the Garden integer i",
    "vt_find_str": "str::find(&str) returns the byte offset of the first occurrence, None if there is none",
    "vt_chars_count": "chars().count() is the number of characters",
    "vt_chars_skip_take": "chars().skip(a).take(n).collect() is the characters with index in [a, a + n)",
    "axiom_clen": "char::len_utf8 is between 1 and 4, and 1 for ASCII", "axiom_clen16": "char::len_utf16 is 1 or 2",
    "axiom_len_bound": "a str is at most isize::MAX bytes long",
    "vt_len": "str::len is the sum of the chars' UTF-8 lengths", "vt_slice": "&s[a..b]: panics unless both are char boundaries; the chars between them",
    "vt_slice_from": "&s[a..] (unused here)", "vt_find_char": "str::find(char) (unused here)", "vt_rfind_char": "str::rfind(char) (unused here)",
    "vt_utf16_count": "(unused here)", "vtc_len_utf8": "char::len_utf8", "vtc_len_utf16": "char::len_utf16", "vu_min": "usize::min",
    "CharIndices": "std::str::CharIndices (unused here)", "vt_char_indices": "(unused here)", "next": "(unused here)",
    "vc_clone": "Clone", "vs_string_eq_lit": "-", "vs_string_eq": "-", "vs_string_from_lit": "-",
    "vv_get_unwrap": "`items.get(i).unwrap()` on an rpds::Vector: panics unless i < len (an obligation); returns the element",
}
LEMMAS = {k: {"C32"} for k in ("lemma_off_step", "lemma_off_zero", "lemma_off_mono", "lemma_off_inj", "lemma_cix", "lemma_cix_props",
                                 "lemma_blen_concat", "lemma_off_sub", "lemma_u16_bounds", "lemma_u16_split")}
UNVERIFIED = {"C32": [
    "the functions written in Garden in src/__prelude.gdn (split, split_once, replace, contains, trim*, strip_prefix/suffix, first, last, concat, map, filter, enumerate, range, sort_nums, min, max, List::index_of): there is no deductive verifier for Garden; they are compared with reference implementations on the corpus of the bounded stand-in only, and their termination is observed on that corpus only",
    "Rust built-ins that are a single std call (String::len = chars().count(), starts_with, ends_with, lines, List::len, List::append = push_back, List::contains via Value equality (C13)): std's behaviour is assumed",
    "64-bit target (usize is 8 bytes)",
    "rpds::Vector is stood in for by Vec (len / get); `iter().skip(a).take(n)` yields the elements with index in [a, a + n) (std); the wrapping of the result into a Garden value and the argument type checks around the cores",
]}

GLUE = """
#[verifier::external_body] pub struct Value { _o: u8 }
impl Clone for Value {
    #[verifier::external_body]
    fn clone(&self) -> (r: Self) ensures r == *self { unimplemented!() }
}
pub uninterp spec fn none_value() -> Value;
pub uninterp spec fn some_value(v: Value) -> Value;
impl Value {
    #[verifier::external_body]
    pub fn none() -> (r: Self) ensures r == none_value() { unimplemented!() }
    #[verifier::external_body]
    pub fn some(v: Value) -> (r: Self) ensures r == some_value(v) { unimplemented!() }
}
/// List::slice(i, j) keeps the item at index k: i <= k < j, where a negative j counts from the end
pub open spec fn slice_wants(k: int, i: int, j: int, len: int) -> bool {
    i <= k < (if j < 0 { len + j } else { j })
}
#[verifier::external_body]
pub fn vv_get_unwrap<'a>(v: &'a Vec<Value>, i: usize) -> (r: &'a Value)
    requires i < v@.len(),
    ensures *r == v@[i as int],
{ unimplemented!() }
"""

TEXT_GLUE = """
global size_of usize == 8;   // ASSUMPTION: 64-bit target (a non-negative i64 cast to usize is exact)
pub uninterp spec fn int_value(i: i64) -> Value;
impl Value {
    #[verifier::external_body]
    pub fn int(i: i64) -> (r: Self) ensures r == int_value(i) { unimplemented!() }
}
/// `n` occurs in `s` at character index k
pub open spec fn occurs_at(s: Seq<char>, k: int, n: Seq<char>) -> bool {
    0 <= k && k + n.len() <= s.len() && s.subrange(k, k + n.len()) == n
}
pub open spec fn is_first_occ(s: Seq<char>, n: Seq<char>, k: int) -> bool {
    occurs_at(s, k, n) && forall|j: int| 0 <= j < k ==> !#[trigger] occurs_at(s, j, n)
}
pub open spec fn no_occ(s: Seq<char>, n: Seq<char>) -> bool {
    forall|j: int| !#[trigger] occurs_at(s, j, n)
}
/// `s.find(n)`: byte offset of the first occurrence of the string n, if any (ASSUMED std behaviour)
#[verifier::external_body]
pub fn vt_find_str(s: &str, n: &str) -> (r: Option<usize>)
    ensures
        r is Some ==> exists|k: int| #[trigger] is_first_occ(s@, n@, k) && off(s@, k) == r->Some_0,
        r is None ==> no_occ(s@, n@),
{ unimplemented!() }
/// `s.chars().count()`
#[verifier::external_body]
pub fn vt_chars_count(s: &str) -> (r: usize) ensures r == s@.len() { unimplemented!() }
/// `s.chars().skip(a).take(n).collect::<String>()`: the characters with index in [a, a + n) (ASSUMED std behaviour)
#[verifier::external_body]
pub fn vt_chars_skip_take(s: &str, a: usize, n: usize) -> (r: String)
    ensures r@ == s@.subrange(if a <= s@.len() { a as int } else { s@.len() as int },
                              if a + n <= s@.len() { a + n } else { s@.len() as int }),
{ unimplemented!() }
"""

_CASES = reference.cases()
_N = sum(len(v) for v in _CASES.values())
WITNESSES = [
    {"match": r"builtins\.", "kind": "prelude-reference", "props": ["C32"], "input": _CASES, "timeout_each": 60, "expect": {}, "timeout": 600,
     "note": "%d calls of the prelude functions compared with reference implementations" % _N},
]
BOUNDED = [
    {"name": "prelude_reference_corpus", "kind": "prelude-reference", "props": ["C32"], "input": _CASES, "timeout_each": 60, "n_inputs": _N,
     "bound": "%d calls of %d prelude string and list functions (strings with multi-byte and astral characters, empty strings and needles, negative and out-of-range indexes, empty lists) compared with Python reference implementations written from the documentation comments; calls with an empty needle to split / split_once / replace only have to finish within 60 s" % (_N, len(_CASES)),
     "expect": {}},
]


def build(tier):
    u = UnitFile("builtins")
    u.raw(common.HEADER)
    u.raw(common.prelude("strings.rs"), kind="prelude")
    u.raw(common.prelude("text.rs"), kind="prelude")
    u.raw(GLUE, kind="prelude")
    u.raw(TEXT_GLUE, kind="prelude")
    c32 = {"C32"}
    LEN = "items@.len()"
    # List::get: Some(items[i]) for an index inside the list, None otherwise
    u.add_block_fn(
        EV, "eval_built_in_method_call", "let v = if *i >= items.len() as i64 || *i < 0 {", upto=";",
        sig="pub fn list_get_core(items: &Vec<Value>, i: &i64) -> (v: Value)",
        suffix="\n    v",
        rules=[rw.simple("R13", r"(\w+)\.get\(([^()]*)\)\.unwrap\(\)", r"vv_get_unwrap(\1, \2)")],
        contract=Contract(requires=[("len_fits", "%s <= i64::MAX" % LEN)],
                          ensures=[("some_item_inside_none_outside",
                                    "v == (if 0 <= *i < %s { some_value(items@[*i as int]) } else { none_value() })" % LEN)],
                          ret="v", props=c32))
    # List::slice: the items whose index k satisfies i <= k < j (a negative j counts from the end)
    u.add_range_fn(
        EV, "eval_built_in_method_call", "let len = items.len() as i64;", "if expr_value_is_used {", exclusive=True,
        sig="pub fn list_slice_core(items: &Vec<Value>, i_arg: i64, j_arg: i64) -> (r: (usize, usize))",
        suffix="\n    (start, end)",
        contract=Contract(
            requires=[("len_fits", "%s <= i64::MAX" % LEN)],
            ensures=[("in_range", "r.0 <= r.1 <= %s" % LEN),
                     ("exactly_the_indexes_from_i_to_j",
                      "forall|k: int| 0 <= k < %s ==> ((r.0 <= k < r.1) <==> #[trigger] slice_wants(k, i_arg as int, j_arg as int, %s as int))" % (LEN, LEN))],
            ret="r", props=c32))
    # String::index_of: the character index of the first occurrence of the needle, None if there is none
    u.add_range_fn(
        EV, "eval_built_in_method_call", "let mut value = Value::none();", "receiver_s.find(arg_s)",
        sig="pub fn string_index_of_core(receiver_s: &str, arg_s: &str) -> (value: Value)",
        suffix="\n    value",
        rules=[rw.simple("R2", r"receiver_s\.find\(arg_s\)", "vt_find_str(receiver_s, arg_s)"),
               rw.simple("R7", r"(\w+)\[\.\.(\w+)\]\.chars\(\)\.count\(\)", r"vt_chars_count(vt_slice(\1, 0, \2))"),
               rw.simple("R2", r"Value::new\(Value_::Int\(([^()]*)\)\)", r"Value::int(\1)")],
        contract=Contract(
            requires=[("fits", "receiver_s@.len() <= i64::MAX")],
            ensures=[("index_of_first_occurrence", "forall|k: int| #[trigger] is_first_occ(receiver_s@, arg_s@, k) ==> value == some_value(int_value(k as i64))"),
                     ("none_if_it_does_not_occur", "no_occ(receiver_s@, arg_s@) ==> value == none_value()")],
            hints=[dict(anchor="let i =", where="before", name="offset_is_a_boundary",
                        text="let ghost k0 = choose|k: int| #[trigger] is_first_occ(receiver_s@, arg_s@, k) && off(receiver_s@, k) == needle_byte_offset;\n"
                             "proof { lemma_cix(receiver_s@, k0); lemma_cix(receiver_s@, 0); lemma_off_zero(receiver_s@); lemma_off_mono(receiver_s@, k0, receiver_s@.len() as int);\n"
                             "    assert forall|k: int| #[trigger] is_first_occ(receiver_s@, arg_s@, k) implies k == k0 by { if k < k0 { assert(occurs_at(receiver_s@, k, arg_s@)); } else if k0 < k { assert(occurs_at(receiver_s@, k0, arg_s@)); } } }")],
            ret="value", props=c32))
    # String::substring: the characters with index k, from <= k < to
    u.add_range_fn(
        EV, "eval_built_in_method_call", "env.push_value(Value::new(Value_::String(s_arg.chars()", ".take((to_arg - from_arg) as usize)",
        sig="pub fn string_substring_core(s_arg: &str, from_arg: &i64, to_arg: &i64) -> (r: String)",
        rules=[rw.simple("R7", r"env\.push_value\(Value::new\(Value_::String\(\s*s_arg\s*\.chars\(\)\s*\.skip\(([^()]*)\)\s*\.take\(((?:[^()]|\([^()]*\))*)\)\s*\.collect\(\),?\s*\)\)\)",
                         r"return vt_chars_skip_take(s_arg, \1, \2)")],
        contract=Contract(
            requires=[("checked_before", "0 <= *from_arg <= *to_arg")],
            ensures=[("characters_from_to", "r@ == s_arg@.subrange(if *from_arg <= s_arg@.len() { *from_arg as int } else { s_arg@.len() as int }, if *to_arg <= s_arg@.len() { *to_arg as int } else { s_arg@.len() as int })")],
            ret="r", props=c32))
    u.add_canary_proof()
    u.raw(common.FOOTER)
    return u
