"""Unit `fmtedits` (C17): apply_span_edits (src/format.rs) proved to produce exactly the edited text;
the rest of the property (the formatted text parses to the same syntax tree with the same comments)
is covered by a BOUNDED corpus only."""
import os
import re
import sys

HERE = os.path.dirname(os.path.abspath(__file__))
ROOT = os.path.dirname(os.path.dirname(HERE))
sys.path.insert(0, os.path.join(ROOT, "vc"))
sys.path.insert(0, os.path.join(ROOT, "units"))
import rewrite as rw  # noqa: E402
from gen import Contract, UnitFile  # noqa: E402
import common  # noqa: E402

FM = "src/format.rs"
LEX = "src/parser/lex.rs"
POS = "src/parser/position.rs"
VFS = "src/parser/vfs.rs"
RLIMIT = 300
MIN_FUNCTIONS = 1

ASSUMPTIONS = {
    "nondet": "a dropped condition may go either way",
    "axiom_clen": "char::len_utf8 is between 1 and 4, and 1 for ASCII", "axiom_clen16": "-", "axiom_len_bound": "a str is at most isize::MAX bytes long",
    "vt_len": "-", "vt_slice": "-", "vt_slice_from": "-", "vt_find_char": "-", "vt_rfind_char": "-", "vt_utf16_count": "-",
    "vtc_len_utf8": "-", "vtc_len_utf16": "-", "vu_min": "-", "CharIndices": "-", "vt_char_indices": "-", "next": "-",
    "vc_clone": "-", "vs_string_eq_lit": "-", "vs_string_eq": "-", "vs_string_from_lit": "-",
    "vt_to_owned": "str::to_owned copies the text",
    "vsort_edits_desc": "slice::sort_by_key(|e| Reverse(e.start_offset)): a permutation of the elements in descending start order",
    "vsort_edits_asc": "slice::sort_by_key(|e| e.start_offset): a permutation in ascending start order",
    "PathBuf": "opaque", "VfsId": "opaque", "ParseErrors": "opaque: the Vec<ParseError> lex_between also returns (unused here)",
    "lex_between": "lex_between over the whole text: every token lies in the text on character boundaries and is non-empty, the tokens are in source order, idx == 0 (PROVED in unit lex in the byte-level model: tokens_ok, tokens_in_source_order, idx0; restated here in the content-level model: that `is_cb(s, o)` of prelude/strings.rs and `is_cbt(s@, o)` of prelude/text.rs describe the same offsets is assumed)",
    "pop": "TokenStream::pop (PROVED in unit tokens)", "vt_contains_char": "str::contains(char)", "vs_eq": "str == str compares the texts",
    "vspaced_before_paren": "SPACED_BEFORE_PAREN.contains(&text)",
    "vS_replace_range": "String::replace_range(a..b, s): panics unless a <= b <= len and both are char boundaries; replaces the chars between them by s",
}
LEMMAS = {n: {"C17"} for n in ("lemma_off_prefix", "lemma_cbt_prefix", "lemma_cbt_of_prefix", "lemma_desc_adjacent",
                              "lemma_off_step", "lemma_off_zero", "lemma_off_mono", "lemma_off_inj", "lemma_cix", "lemma_cix_props",
                              "lemma_blen_concat", "lemma_off_sub", "lemma_u16_bounds", "lemma_u16_split")}
UNVERIFIED = {"C17": [
    "normalize_token_spacing is under contract: every edit it hands to apply_span_edits replaces exactly the gap between two adjacent tokens (so the edits are in the text, on boundaries and pairwise separate); and that the text it replaces holds no line break and no `/` (so no comment and no intentional line break is touched); that changing such a gap does not change the token sequence is not proved",
    "the other producers of span edits (IndentationVisitor's fix_* helpers): that the spans they push are pairwise disjoint, and that what they replace is only whitespace or an optional comma — the precondition of apply_span_edits and the heart of the property are NOT under contract",
    "apply_indentation_edits, normalize_blank_lines, wrap_long_signatures and the other formatter phases",
    "that the formatted text parses to the same tree with the same comments: only fmtedits.bounded[format_corpus] (bounded) checks it",
]}

GLUE = """
#[verifier::external_body]
pub fn vt_to_owned(s: &str) -> (r: String) ensures r@ == s@ { s.to_owned() }
"""
GLUE2 = """
#[verifier::external_body]
pub fn vsort_edits_desc(es: &mut [SpanEdit])
    ensures sorted_desc(final(es)@), same_edits(old(es)@, final(es)@),
{ unimplemented!() }
#[verifier::external_body]
pub fn vsort_edits_asc(es: &mut [SpanEdit])
    ensures forall|i: int, j: int| #![trigger final(es)@[i], final(es)@[j]] 0 <= i < j < final(es)@.len() ==> final(es)@[i].start_offset <= final(es)@[j].start_offset,
        same_edits(old(es)@, final(es)@),
{ unimplemented!() }
#[verifier::external_body]
pub fn vS_replace_range(s: &mut String, a: usize, b: usize, with: &String)
    requires a <= b <= blen_cs(old(s)@), is_cbt(old(s)@, a as int), is_cbt(old(s)@, b as int),
    ensures final(s)@ == old(s)@.subrange(0, cix(old(s)@, a as int)) + with@ + old(s)@.subrange(cix(old(s)@, b as int), old(s)@.len() as int),
{ unimplemented!() }
"""

GLUE_TOKENS = """
#[verifier::external_body] pub struct PathBuf { _o: u8 }
#[verifier::external_body] pub struct ParseErrors { _o: u8 }
/// a token of the text cs: inside the text, on character boundaries, non-empty (what lex_between guarantees per token: unit lex, C23)
pub open spec fn tok_ok_t<'a>(cs: Seq<char>, t: Token<'a>) -> bool {
    t.position.start_offset < t.position.end_offset <= blen_cs(cs)
    && is_cbt(cs, t.position.start_offset as int) && is_cbt(cs, t.position.end_offset as int)
}
pub open spec fn toks_ok_t<'a>(cs: Seq<char>, ts: Seq<Token<'a>>) -> bool {
    forall|i: int| 0 <= i < ts.len() ==> tok_ok_t(cs, #[trigger] ts[i])
}
pub open spec fn toks_sorted<'a>(ts: Seq<Token<'a>>) -> bool {
    forall|i: int, j: int| #![trigger ts[i], ts[j]] 0 <= i < j < ts.len() ==> ts[i].position.end_offset <= ts[j].position.start_offset
}
/// lex_between over the whole text (PROVED in unit lex, in the byte-level model of prelude/strings.rs: tokens_ok,
/// tokens_in_source_order, idx0; restated here in the content-level model of prelude/text.rs)
#[verifier::external_body]
pub fn lex_between<'a>(vfs_path: &VfsPathBuf, s: &'a str, offset: usize, end_offset: usize) -> (r: (TokenStream<'a>, ParseErrors))
    requires offset == 0, end_offset == blen_cs(s@),
    ensures toks_ok_t(s@, r.0.tokens@), toks_sorted(r.0.tokens@), r.0.idx == 0,
{ unimplemented!() }
impl<'a> TokenStream<'a> {
    /// TokenStream::pop (PROVED in unit tokens)
    #[verifier::external_body]
    pub fn pop(&mut self) -> (r: Option<Token<'a>>)
        requires old(self).idx <= old(self).tokens@.len(),
        ensures final(self).tokens@ == old(self).tokens@, final(self).idx <= final(self).tokens@.len(),
            r is Some <==> old(self).idx < old(self).tokens@.len(),
            r is Some ==> r->Some_0 == old(self).tokens@[old(self).idx as int] && final(self).idx == old(self).idx + 1,
            r is None ==> final(self).idx == old(self).idx,
    { unimplemented!() }
}
/// every edit replaces exactly the gap between two adjacent tokens
pub open spec fn gap_edits<'a>(ts: Seq<Token<'a>>, es: Seq<SpanEdit>) -> bool {
    forall|k: int| 0 <= k < es.len() ==> exists|i: int| 0 <= i && i + 1 < ts.len()
        && (#[trigger] es[k]).start_offset == ts[i].position.end_offset && es[k].end_offset == #[trigger] ts[i + 1].position.start_offset
}
#[verifier::external_body]
pub fn vt_contains_char(s: &str, c: char) -> (r: bool) ensures r == s@.contains(c) { unimplemented!() }
/// the text an edit replaces holds no line break and no `/` (the start of a comment)
pub open spec fn quiet_gap(cs: Seq<char>, e: SpanEdit) -> bool {
    !cs.subrange(cix(cs, e.start_offset as int), cix(cs, e.end_offset as int)).contains('\\n')
    && !cs.subrange(cix(cs, e.start_offset as int), cix(cs, e.end_offset as int)).contains('/')
}
#[verifier::external_body]
pub fn vs_eq(a: &str, b: &str) -> (r: bool) ensures r == (a@ == b@) { unimplemented!() }
#[verifier::external_body]
pub fn vspaced_before_paren(t: &str) -> (r: bool) { unimplemented!() }
"""

FORMAT_PROGRAMS = [
    # a bare `return` / other keywords at the end of a line, the next line starts with a parenthesis
    "fun report(text: String, quiet: Bool) {\n  if quiet {\n    return\n    (text ^ \"\\n\").lines().len()\n  }\n  println(text)\n}\nfun pick(n: Int): Int {\n  if\n    (n > 1) { return\n      (n) }\n  match\n    (n) { _ => 0 }\n}\nreport(\"a\", True)\nprintln(string_repr(pick(2)))\n",
    # a `let` / assignment whose `=` is on a later line (the spacing pass joins the lines), followed by mis-indented statements that open multi-line strings
    "fun f(): String {\n  let x\n    = 1\n    let s = \"a\n      b\"\n  s\n}\n\nprintln(f())\n",
    "fun g(): String {\n  let total = 0\n  total\n     = 5\n        let t = \"first\n   second\n\n      third\"\n  let u\n\n  = \"x\n y\"\n      println(u)\n  t\n}\nprintln(g())\n",
    'fun f() {\n      let s = "a\n   b"\n  s\n}\n',
    'fun f() {\nif True {\nlet s = "line1\nline2\n      line3"\nprintln(s)\n}\n}\n',
    'fun f(): String {\n    "x\n  y\n z"\n}\n',
    'fun f() {\n    foo("a\nb", bar)\n    let t = ("x\n y", 1)\n}\n',
    'fun g() {\n  let d = Dict[\n"a\n b" => 1,\n]\n  d\n}\n',
    'fun h(a:Int,b:Int,)  :Int{a+b}\n',
    'fun k() {\n  foo(1,2 , 3 ,)\n  [1,2,\n3 ,]\n}\n',
    'fun m(x: Int) {\n  match Some(x) {\n Some(v)=>{ v }\n  None=>0\n}\n}\n',
    'fun c() {\n  // a comment\n      // another   one\n  1 // trailing\n}\n// final comment',
    'fun e() {\n  let s = "// not a comment"  // real comment\n  s\n}\n',
    'fun n() { let x = 1 let y = 2 x + y }\n',
    'struct P { x: Int, y: String }\nfun p() { P{x:1,y:"a\nb"} }\n',
    'fun q(veryveryverylongparametername1: Int, veryveryverylongparametername2: String, veryveryverylongparametername3: List<Int>): Int { 1 }\n',
    'enum E { A, B(Int),\n C }\nfun r(e: E) { match e { A => 1 B(n) => n C => 3 } }\n',
    'fun t() {\n  while True { break }\n  for i in [1,2] { continue }\n  try { 1 } catch (e) { 2 }\n}\n',
    'fun u() {\n  let f = fun(x:Int){x+1}\n  f(1) -1\n}\n',
    'fun v() {\n  x +=1\n  y-= 2\n  z=3\n}\n',
    'fun w() {\n  a.b().c( 1 ).d\n  n::m( 2 )\n}\n',
    'fun s1() {\n  let s = "tab\\there \\" quote \\\\"\n  s\n}\n',
    'fun s2() {\n\n\n  1\n\n\n\n  2\n}\n\n\n\nfun s3() {}\n',
    'test t1 { assert( 1==1 ) }\ntest t2 {\nassert(2 == 2)}\n',
    'fun lit() {\n  let a = -1\n  let b = 1 - -1\n  let c = 1.5 +. -2.5\n  (a, b,\n   c)\n}\n',
    'public method  m1 (this:String , x : Int) : Int { x }\n',
    'fun cm() {\n  foo(1, // one\n      2) // two\n}\n',
    'fun cm2() {\n  [ // start\n    1,\n    // middle\n    2,\n  ]\n}\n',
    'fun str3() {\n  let t = ("a\n", "b\n  c",\n"d")\n  t\n}\n',
    'fun uni() {\n  let s = "é\U0001F600" +1\n    // 世界\n  s\n}\n',
    'fun blank(): String {\n  "a\n\n\n\nb"\n}\nprintln(blank())\n',
    'fun cont() {\n  if True {\n        let x = "abc\n   def"     println(x)\n  }\n}\ncont()\n',
    'fun cont2() {\n      let y = ("p\n q", 1)  let z = "r\n\n  s"\n  y\n}\n',
    'fun letc(): Int {\n  let x // c\n    = 5\n  let y = // d = e\n    6\n  x + y\n}\nprintln(string_repr(letc()))\n',
    'fun long_function_name_number_one(callback_with_no_arguments: Fun<(), Unit>, another_parameter_name: Int, third: String): Unit { callback_with_no_arguments() }\nlong_function_name_number_one(fun() {}, 1, "a")\n',
    'fun long_function_name_number_two(unit_tuple_argument: (), pair_argument: (Int, String), nested: List<(Int, ())>, another_parameter: Int): Unit { }\n',
    'fun trail() {\n      let bottom = "|     \n  +--"\n  let top = "+--   \n  |"\n  bottom ^ top\n}\n   /// Doc comment.   \nfun documented() {}\n',
    # a definition that starts on the line where a multi-line string ends; lines joined before a toplevel string
    'let s = "x\n  y" fun f() {}\nprintln(s)\n',
    'let x\n = 1\nlet y\n = 2\nfun f() {}\n"a\nb"\n',
    'let a = "1\n2" struct P { x: Int }\nlet b = "3\n\n4" enum E { A }\nprintln(a ^ b)\n',
    # aligned columns and padding inside the arms of a match (span edits pushed while a `match` is traversed)
    'fun price(o: Option<Int>): Int {\n  match o {\n    Some(q) => {\n      let unit    = 12\n      let postage =  3\n      q  *  unit + postage\n    }\n    None => {   0 }\n  }\n}\nfun plain(q: Int): Int {\n  let unit    = 12\n  q  *  unit\n}\nprintln(string_repr(price(Some(2)) + plain(1)))\n',
    'fun nested(a: Option<Option<Int>>): Int {\n  match a {\n    Some(b) => match b {\n      Some(c) => { let d   =   c   c  +  d }\n      None => { 1 }\n    }\n    None => 0\n  }\n}\nprintln(string_repr(nested(Some(Some(2)))))\n',
]
BOUNDED = [
    {"name": "format_corpus", "kind": "format-corpus", "props": ["C17"], "input": FORMAT_PROGRAMS, "globs": ["src/test_files/**/*.gdn", "src/*.gdn"], "max_files": 600,
     "n_inputs": len(FORMAT_PROGRAMS), "timeout": 300,
     "bound": "%d listed programs (multi-line strings, comments in odd places, commas, long signatures, non-ASCII text) plus every .gdn file of the repository that parses (about 500): the formatted text parses without errors to the same syntax tree (reftest-ast) and has the same comments" % len(FORMAT_PROGRAMS),
     "expect": {}},
]
WITNESSES = [
    {"match": r"fmtedits\.", "kind": "format-corpus", "props": ["C17"], "input": FORMAT_PROGRAMS, "expect": {}, "note": "formatting keeps the syntax tree and the comments"},
]


import findings  # noqa: E402
for _fn, _fi, _fb in findings.C17_FORMAT:
    BOUNDED.append({"name": _fn, "kind": "format-corpus", "props": ["C17"], "input": [_fi], "n_inputs": 1, "timeout": 60, "bound": _fb + ": the formatted text parses to the same syntax tree with the same comments", "expect": {}})


TRAVERSE = r"\bself\s*\.\s*visit_expr\s*\(\s*scrutinee\s*\)|\bself\s*\.\s*visit_expr_\s*\(\s*&\s*expr\s*\.\s*expr_\s*\)"


def _traversal_slice(u, props):
    """IndentationVisitor::visit_expr (src/format.rs) pushes the span edits of an expression's children while it
    traverses them.  apply_span_edits requires pairwise separate edits (proved above to be needed: the same edit
    applied twice eats the text next to the gap), so the children must be traversed once: on every path through
    visit_expr at most one of `self.visit_expr(scrutinee)` (the special case for `match`) and
    `self.visit_expr_(&expr.expr_)` (the default traversal of all children) is reached, and at most once."""
    from gen import Tag
    from extract import ExtractError, skeleton_hash
    from slicer import Slicer

    class TraverseSlicer(Slicer):
        def __init__(self, src_):
            Slicer.__init__(self, src_, TRAVERSE, flag_rx=r"\bno_such_flag_zz\b")
            self.ret = "return;"
            self.n_calls = 0

        def render_effect(self, m):
            self.n_calls += 1
            return "proof { assert(traversed == 0); traversed = traversed + 1; }"

    src = u.source(FM)
    host = src.find_fn("visit_expr", impl="Visitor for IndentationVisitor")
    toks = src.toks
    idx = [k for k, t in enumerate(toks) if host.start <= t.start < host.end]
    depth, k0 = 0, None
    for k in idx:
        tt = toks[k].text
        if toks[k].kind == "punct" and tt in "([":
            depth += 1
        elif toks[k].kind == "punct" and tt in ")]":
            depth -= 1
        elif tt == "{" and depth == 0:
            k0 = k
            break
    sl = TraverseSlicer(src)
    sl.block(k0 + 1, sl.close(k0), "    ")
    if sl.n_calls < 2:
        raise ExtractError("IndentationVisitor::visit_expr: the two traversal calls were not found (%d)" % sl.n_calls)
    gname = "slice_indentation_visit_expr_traverses_children_once"
    u.fn_props[gname] = props
    u.safety_props[gname] = props
    u.skeletons[gname] = skeleton_hash(host.text)
    u.items.append({"name": "IndentationVisitor::visit_expr (traversal slice: %d traversal calls)" % sl.n_calls, "generated_as": gname, "kind": "slice",
                    "where": host.where, "sha256_16": host.sha(), "skeleton": u.skeletons[gname]})
    tag = Tag("repo", fn=gname, repo_file=FM, repo_line=host.line0, props=props)
    u.raw("#[verifier::external_body] pub fn nondet() -> (r: bool) { unimplemented!() }", kind="prelude")
    u.raw("#[verifier::exec_allows_no_decreases_clause]", fn=gname, props=props)
    u.emit("pub fn %s()" % gname, tag)
    u.emit("{", tag)
    u.emit("    let ghost mut traversed: int = 0;", Tag("glue", fn=gname, props=props))
    for (t, ln) in sl.out:
        t = re.sub(r"^(\s*)(while nondet\(\) \{|loop \{)\s*$", r"\1#[verifier::loop_isolation(false)] \2", t)
        u.emit(t, Tag("repo", fn=gname, repo_file=FM, repo_line=ln, props=props))
    u.emit("}", tag)
    u.clauses.append(("fmtedits.%s.safety@assert" % gname, props, "no traversal of the children has happened when a traversal call is reached"))


def build(tier):
    u = UnitFile("fmtedits")
    u.raw(common.HEADER)
    u.raw(common.prelude("strings.rs"), kind="prelude")
    u.raw(common.prelude("text.rs"), kind="prelude")
    u.raw(GLUE, kind="prelude")
    u.add_type(FM, "SpanEdit")
    u.raw(open(os.path.join(HERE, "specs.rs")).read(), kind="spec")
    u.raw(GLUE2, kind="prelude")
    RULES = [
        rw.simple("R2", r"span_edits\.is_empty\(\)", "span_edits.len() == 0"),
        rw.simple("R2", r"span_edits\.sort_by_key\(\|(\w+)\| std::cmp::Reverse\(\1\.start_offset\)\);", "vsort_edits_desc(span_edits);"),
        rw.simple("R2", r"span_edits\.sort_by_key\(\|(\w+)\| \1\.start_offset\);", "vsort_edits_asc(span_edits);"),
        rw.simple("R11", r"\bsrc\.to_owned\(\)", "vt_to_owned(src)"),
        rw.simple("R4", r"for edit in span_edits\.iter\(\) \{", "let mut __i1: usize = 0; while __i1 < span_edits.len() { let edit = &span_edits[__i1]; __i1 += 1;"),
        rw.simple("R1", r"(\w+)\.replace_range\(([\w\.]+)\.\.([\w\.]+), &([\w\.]+)\);", r"vS_replace_range(&mut \1, \2, \3, &\4);"),
    ]
    u.add_fn(FM, "apply_span_edits", rules=RULES, contract=Contract(
        requires=[("edits_in_the_text_on_boundaries", "edits_ok(src@, old(span_edits)@)"), ("edits_pairwise_separate", "edits_separate(old(span_edits)@)")],
        ensures=[("result_is_the_edited_text",
                  "exists|es: Seq<SpanEdit>| sorted_desc(es) && same_edits(old(span_edits)@, es) && r@ == #[trigger] edited(src@, es, es.len() as int)")],
        hints=[
            dict(anchor="return", where="before", nth=0, name="no_edits",
                 text="proof { lemma_off_zero(src@); lemma_cix(src@, src@.len() as int); assert(src@.subrange(0, src@.len() as int) =~= src@);\n"
                      "    let es = old(span_edits)@; assert(es.len() == 0);\n"
                      "    assert(rearranged_by(es, es, Seq::<int>::empty()));\n"
                      "    assert(edited(src@, es, 0) =~= src@); }"),
            dict(anchor="let mut result", where="before", name="sorted_edits",
                 text="""let ghost es = span_edits@;
proof {
    let old_es = old(span_edits)@;
    let perm = choose|perm: Seq<int>| #[trigger] rearranged_by(old_es, es, perm);
    assert forall|k: int| 0 <= k < es.len() implies edit_ok(src@, #[trigger] es[k]) by { assert(edit_ok(src@, old_es[perm[k]])); }
    assert forall|i: int, j: int| #![trigger es[i], es[j]] 0 <= i < es.len() && 0 <= j < es.len() && i != j implies
        ((es[i].end_offset <= es[j].start_offset && es[i].start_offset < es[j].start_offset)
         || (es[j].end_offset <= es[i].start_offset && es[j].start_offset < es[i].start_offset)) by {
        let a = perm[i]; let b = perm[j];
        assert((old_es[a].end_offset <= old_es[b].start_offset && old_es[a].start_offset < old_es[b].start_offset)
            || (old_es[b].end_offset <= old_es[a].start_offset && old_es[b].start_offset < old_es[a].start_offset));
    }
    lemma_off_zero(src@); lemma_cix(src@, src@.len() as int);
}"""),
            dict(anchor="let mut result", where="after_stmt", name="nothing_applied_yet",
                 text="proof { assert(src@.subrange(0, src@.len() as int) =~= src@); assert(edited(src@, es, 0) =~= src@); }"),
        ],
        loops={1: dict(invariant=[
            ("edits_fixed", "span_edits@ == es, edits_ok(src@, es), edits_separate(es), sorted_desc(es), __i1 <= es.len()"),
            ("applied_so_far", "result@ == edited(src@, es, __i1 as int)")],
            decreases="es.len() - __i1",
            body_prelude="""proof {
    let k = __i1 as int;
    let cs = src@;
    lemma_desc_adjacent(cs, es, k);
    let ub = untouched_below(cs, es, k);
    let m = cix(cs, ub);
    lemma_cix_props(cs, ub);
    let pre = cs.subrange(0, m);
    let tail = edited_tail(cs, es, k);
    assert(result@ == pre + tail);
    assert(edit_ok(cs, es[k]));
    lemma_cbt_of_prefix(cs, m, es[k].start_offset as int);
    lemma_cbt_of_prefix(cs, m, es[k].end_offset as int);
    lemma_cbt_prefix(pre, tail, es[k].start_offset as int);
    lemma_cbt_prefix(pre, tail, es[k].end_offset as int);
    let a = cix(cs, es[k].start_offset as int);
    let b = cix(cs, es[k].end_offset as int);
    lemma_cix_props(cs, es[k].start_offset as int); lemma_cix_props(cs, es[k].end_offset as int);
    if a > b { lemma_off_mono(cs, b, a); }
    assert((pre + tail).subrange(0, a) =~= cs.subrange(0, a));
    assert((pre + tail).subrange(b, (pre + tail).len() as int) =~= cs.subrange(b, m) + tail);
    assert(edited(cs, es, k + 1) =~= cs.subrange(0, a) + (es[k].replacement@ + cs.subrange(b, m) + tail));
}""")},
        props={"C17"}))
    # normalize_token_spacing: the producer of span edits for commas, `=>`, `+=` / `-=` and keywords before `(`:
    # the edits it hands to apply_span_edits are inside the text on character boundaries and pairwise separate,
    # and each one replaces exactly the gap between two adjacent tokens
    u.raw("#[verifier::external_body] pub struct VfsId { _o: u8 }", kind="prelude")
    u.raw(GLUE_TOKENS.split("#[verifier::external_body] pub struct ParseErrors")[0], kind="prelude")
    u.add_type(VFS, "VfsPathBuf")
    u.add_type(POS, "Position")
    u.add_type(LEX, "Token")
    u.add_type(LEX, "TokenStream")
    u.raw("#[verifier::external_body] pub struct ParseErrors" + GLUE_TOKENS.split("#[verifier::external_body] pub struct ParseErrors")[1], kind="prelude")
    NTS_RULES = [
        rw.simple("T1", r"&crate::parser::vfs::VfsPathBuf", "&VfsPathBuf"),
        rw.simple("R2", r"\bsrc\.len\(\)", "vt_len(src)"),
        rw.simple("local", r"let mut tokens = vec!\[\];", "let mut tokens: Vec<Token> = Vec::new();"),
        rw.simple("local", r"let mut edits: Vec<SpanEdit> = vec!\[\];", "let mut edits: Vec<SpanEdit> = Vec::new();"),
        rw.simple("R4w", r"for pair in tokens\.windows\(2\) \{\s*let prev = &pair\[0\];\s*let next = &pair\[1\];",
                  "let mut __i1: usize = 0; while tokens.len() > 0 && __i1 < tokens.len() - 1 { let prev = &tokens[__i1]; let next = &tokens[__i1 + 1]; __i1 += 1;"),
        rw.simple("R7", r"&src\[gap_start\.\.gap_end\]", "vt_slice(src, gap_start, gap_end)"),
        rw.simple("R2", r"gap\.contains\(('(?:[^'\\]|\\.)')\)", r"vt_contains_char(gap, \1)"),
        rw.simple("R10", r"matches!\((\w+\.text), (\"[^\"]*\")((?:\s*\|\s*\"[^\"]*\")*)\)", lambda m: "(" + " || ".join("vs_eq(%s, %s)" % (m.group(1), x.strip()) for x in ([m.group(2)] + [y for y in m.group(3).split("|") if y.strip()])) + ")"),
        rw.simple("R10", r"(\w+\.text) == (\"[^\"]*\")", r"vs_eq(\1, \2)"),
        rw.simple("R2", r"SPACED_BEFORE_PAREN\.contains\(&prev\.text\)", "vspaced_before_paren(prev.text)"),
        rw.simple("R10", r"\bgap != desired\b", "!vs_eq(gap, desired)"),
        rw.simple("R11", r"\bdesired\.to_owned\(\)", "vt_to_owned(desired)"),
    ]
    u.add_fn(FM, "normalize_token_spacing", rules=NTS_RULES, contract=Contract(
        ensures=[("result_is_the_text_with_the_collected_edits_applied",
                  "exists|es: Seq<SpanEdit>| sorted_desc(es) && r@ == #[trigger] edited(src@, es, es.len() as int)")],
        loops={1: dict(invariant=[("drained_so_far", "token_stream.tokens@ == ts0, token_stream.idx <= ts0.len(), tokens@ =~= ts0.subrange(0, token_stream.idx as int)")],
                       ensures=[("all_drained", "tokens@ =~= ts0")],
                       decreases="ts0.len() - token_stream.idx"),
               2: dict(invariant=[("tokens_fixed", "tokens@ == ts0, toks_ok_t(src@, ts0), toks_sorted(ts0), __i1 <= ts0.len()"),
                                  ("edits_are_gaps", "edits_ok(src@, edits@), edits_separate(edits@), gap_edits(ts0, edits@)"),
                                  ("an_edited_gap_holds_no_line_break_and_no_comment", "forall|k: int| 0 <= k < edits@.len() ==> quiet_gap(src@, #[trigger] edits@[k])"),
                                  ("edits_end_before_the_current_token", "forall|k: int| 0 <= k < edits@.len() ==> __i1 < ts0.len() && (#[trigger] edits@[k]).end_offset <= ts0[__i1 as int].position.start_offset")],
                       body_prelude="proof { assert(ts0[__i1 as int].position.end_offset <= ts0[__i1 as int + 1].position.start_offset); assert(tok_ok_t(src@, ts0[__i1 as int])); assert(tok_ok_t(src@, ts0[__i1 as int + 1])); }",
                       decreases="ts0.len() - __i1")},
        hints=[dict(anchor="let mut tokens", where="before", name="lexed", text="let ghost ts0 = token_stream.tokens@;")],
        props={"C17"}))
    _traversal_slice(u, {"C17"})
    u.add_canary_proof()
    u.raw(common.FOOTER)
    return u
