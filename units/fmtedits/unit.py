"""Unit `fmtedits` (C17): apply_span_edits (src/format.rs) proved to produce exactly the edited text;
the rest of the property (the formatted text parses to the same syntax tree with the same comments)
is covered by a BOUNDED corpus only."""
import os
import re
import sys

HERE = os.path.dirname(os.path.abspath(__file__))
ROOT = os.path.dirname(os.path.dirname(HERE))
sys.path.insert(0, os.path.join(ROOT, "vc"))
sys.path.insert(0, os.path.join(ROOT, "units"))
import rewrite as rw  # noqa: E402
from gen import Contract, UnitFile  # noqa: E402
import common  # noqa: E402

FM = "src/format.rs"
RLIMIT = 300
MIN_FUNCTIONS = 1

ASSUMPTIONS = {
    "axiom_clen": "char::len_utf8 is between 1 and 4, and 1 for ASCII", "axiom_clen16": "-", "axiom_len_bound": "a str is at most isize::MAX bytes long",
    "vt_len": "-", "vt_slice": "-", "vt_slice_from": "-", "vt_find_char": "-", "vt_rfind_char": "-", "vt_utf16_count": "-",
    "vtc_len_utf8": "-", "vtc_len_utf16": "-", "vu_min": "-", "CharIndices": "-", "vt_char_indices": "-", "next": "-",
    "vc_clone": "-", "vs_string_eq_lit": "-", "vs_string_eq": "-", "vs_string_from_lit": "-",
    "vt_to_owned": "str::to_owned copies the text",
    "vsort_edits_desc": "slice::sort_by_key(|e| Reverse(e.start_offset)): a permutation of the elements in descending start order",
    "vsort_edits_asc": "slice::sort_by_key(|e| e.start_offset): a permutation in ascending start order",
    "vS_replace_range": "String::replace_range(a..b, s): panics unless a <= b <= len and both are char boundaries; replaces the chars between them by s",
}
LEMMAS = {n: {"C17"} for n in ("lemma_off_prefix", "lemma_cbt_prefix", "lemma_cbt_of_prefix", "lemma_desc_adjacent",
                              "lemma_off_step", "lemma_off_zero", "lemma_off_mono", "lemma_off_inj", "lemma_cix", "lemma_cix_props",
                              "lemma_blen_concat", "lemma_off_sub", "lemma_u16_bounds", "lemma_u16_split")}
UNVERIFIED = {"C17": [
    "the producers of the span edits (IndentationVisitor's fix_* helpers, normalize_token_spacing): that the spans they push are pairwise disjoint, and that what they replace is only whitespace or an optional comma — the precondition of apply_span_edits and the heart of the property are NOT under contract",
    "apply_indentation_edits, normalize_blank_lines, wrap_long_signatures and the other formatter phases",
    "that the formatted text parses to the same tree with the same comments: only fmtedits.bounded[format_corpus] (bounded) checks it",
]}

GLUE = """
#[verifier::external_body]
pub fn vt_to_owned(s: &str) -> (r: String) ensures r@ == s@ { s.to_owned() }
"""
GLUE2 = """
#[verifier::external_body]
pub fn vsort_edits_desc(es: &mut [SpanEdit])
    ensures sorted_desc(final(es)@), same_edits(old(es)@, final(es)@),
{ unimplemented!() }
#[verifier::external_body]
pub fn vsort_edits_asc(es: &mut [SpanEdit])
    ensures forall|i: int, j: int| #![trigger final(es)@[i], final(es)@[j]] 0 <= i < j < final(es)@.len() ==> final(es)@[i].start_offset <= final(es)@[j].start_offset,
        same_edits(old(es)@, final(es)@),
{ unimplemented!() }
#[verifier::external_body]
pub fn vS_replace_range(s: &mut String, a: usize, b: usize, with: &String)
    requires a <= b <= blen_cs(old(s)@), is_cbt(old(s)@, a as int), is_cbt(old(s)@, b as int),
    ensures final(s)@ == old(s)@.subrange(0, cix(old(s)@, a as int)) + with@ + old(s)@.subrange(cix(old(s)@, b as int), old(s)@.len() as int),
{ unimplemented!() }
"""

FORMAT_PROGRAMS = [
    'fun f() {\n      let s = "a\n   b"\n  s\n}\n',
    'fun f() {\nif True {\nlet s = "line1\nline2\n      line3"\nprintln(s)\n}\n}\n',
    'fun f(): String {\n    "x\n  y\n z"\n}\n',
    'fun f() {\n    foo("a\nb", bar)\n    let t = ("x\n y", 1)\n}\n',
    'fun g() {\n  let d = Dict[\n"a\n b" => 1,\n]\n  d\n}\n',
    'fun h(a:Int,b:Int,)  :Int{a+b}\n',
    'fun k() {\n  foo(1,2 , 3 ,)\n  [1,2,\n3 ,]\n}\n',
    'fun m(x: Int) {\n  match Some(x) {\n Some(v)=>{ v }\n  None=>0\n}\n}\n',
    'fun c() {\n  // a comment\n      // another   one\n  1 // trailing\n}\n// final comment',
    'fun e() {\n  let s = "// not a comment"  // real comment\n  s\n}\n',
    'fun n() { let x = 1 let y = 2 x + y }\n',
    'struct P { x: Int, y: String }\nfun p() { P{x:1,y:"a\nb"} }\n',
    'fun q(veryveryverylongparametername1: Int, veryveryverylongparametername2: String, veryveryverylongparametername3: List<Int>): Int { 1 }\n',
    'enum E { A, B(Int),\n C }\nfun r(e: E) { match e { A => 1 B(n) => n C => 3 } }\n',
    'fun t() {\n  while True { break }\n  for i in [1,2] { continue }\n  try { 1 } catch (e) { 2 }\n}\n',
    'fun u() {\n  let f = fun(x:Int){x+1}\n  f(1) -1\n}\n',
    'fun v() {\n  x +=1\n  y-= 2\n  z=3\n}\n',
    'fun w() {\n  a.b().c( 1 ).d\n  n::m( 2 )\n}\n',
    'fun s1() {\n  let s = "tab\\there \\" quote \\\\"\n  s\n}\n',
    'fun s2() {\n\n\n  1\n\n\n\n  2\n}\n\n\n\nfun s3() {}\n',
    'test t1 { assert( 1==1 ) }\ntest t2 {\nassert(2 == 2)}\n',
    'fun lit() {\n  let a = -1\n  let b = 1 - -1\n  let c = 1.5 +. -2.5\n  (a, b,\n   c)\n}\n',
    'public method  m1 (this:String , x : Int) : Int { x }\n',
    'fun cm() {\n  foo(1, // one\n      2) // two\n}\n',
    'fun cm2() {\n  [ // start\n    1,\n    // middle\n    2,\n  ]\n}\n',
    'fun str3() {\n  let t = ("a\n", "b\n  c",\n"d")\n  t\n}\n',
    'fun uni() {\n  let s = "é\U0001F600" +1\n    // 世界\n  s\n}\n',
]
BOUNDED = [
    {"name": "format_corpus", "kind": "format-corpus", "props": ["C17"], "input": FORMAT_PROGRAMS, "globs": ["src/test_files/**/*.gdn", "src/*.gdn"], "max_files": 600,
     "n_inputs": len(FORMAT_PROGRAMS), "timeout": 300,
     "bound": "%d listed programs (multi-line strings, comments in odd places, commas, long signatures, non-ASCII text) plus every .gdn file of the repository that parses (about 500): the formatted text parses without errors to the same syntax tree (reftest-ast) and has the same comments" % len(FORMAT_PROGRAMS),
     "expect": {}},
]
WITNESSES = [
    {"match": r"fmtedits\.", "kind": "format-corpus", "props": ["C17"], "input": FORMAT_PROGRAMS, "expect": {}, "note": "formatting keeps the syntax tree and the comments"},
]


def build(tier):
    u = UnitFile("fmtedits")
    u.raw(common.HEADER)
    u.raw(common.prelude("strings.rs"), kind="prelude")
    u.raw(common.prelude("text.rs"), kind="prelude")
    u.raw(GLUE, kind="prelude")
    u.add_type(FM, "SpanEdit")
    u.raw(open(os.path.join(HERE, "specs.rs")).read(), kind="spec")
    u.raw(GLUE2, kind="prelude")
    RULES = [
        rw.simple("R2", r"span_edits\.is_empty\(\)", "span_edits.len() == 0"),
        rw.simple("R2", r"span_edits\.sort_by_key\(\|(\w+)\| std::cmp::Reverse\(\1\.start_offset\)\);", "vsort_edits_desc(span_edits);"),
        rw.simple("R2", r"span_edits\.sort_by_key\(\|(\w+)\| \1\.start_offset\);", "vsort_edits_asc(span_edits);"),
        rw.simple("R11", r"\bsrc\.to_owned\(\)", "vt_to_owned(src)"),
        rw.simple("R4", r"for edit in span_edits\.iter\(\) \{", "let mut __i1: usize = 0; while __i1 < span_edits.len() { let edit = &span_edits[__i1]; __i1 += 1;"),
        rw.simple("R1", r"(\w+)\.replace_range\(([\w\.]+)\.\.([\w\.]+), &([\w\.]+)\);", r"vS_replace_range(&mut \1, \2, \3, &\4);"),
    ]
    u.add_fn(FM, "apply_span_edits", rules=RULES, contract=Contract(
        requires=[("edits_in_the_text_on_boundaries", "edits_ok(src@, old(span_edits)@)"), ("edits_pairwise_separate", "edits_separate(old(span_edits)@)")],
        ensures=[("result_is_the_edited_text",
                  "exists|es: Seq<SpanEdit>| sorted_desc(es) && same_edits(old(span_edits)@, es) && r@ == #[trigger] edited(src@, es, es.len() as int)")],
        hints=[
            dict(anchor="return", where="before", nth=0, name="no_edits",
                 text="proof { lemma_off_zero(src@); lemma_cix(src@, src@.len() as int); assert(src@.subrange(0, src@.len() as int) =~= src@);\n"
                      "    let es = old(span_edits)@; assert(es.len() == 0);\n"
                      "    assert(rearranged_by(es, es, Seq::<int>::empty()));\n"
                      "    assert(edited(src@, es, 0) =~= src@); }"),
            dict(anchor="let mut result", where="before", name="sorted_edits",
                 text="""let ghost es = span_edits@;
proof {
    let old_es = old(span_edits)@;
    let perm = choose|perm: Seq<int>| #[trigger] rearranged_by(old_es, es, perm);
    assert forall|k: int| 0 <= k < es.len() implies edit_ok(src@, #[trigger] es[k]) by { assert(edit_ok(src@, old_es[perm[k]])); }
    assert forall|i: int, j: int| #![trigger es[i], es[j]] 0 <= i < es.len() && 0 <= j < es.len() && i != j implies
        ((es[i].end_offset <= es[j].start_offset && es[i].start_offset < es[j].start_offset)
         || (es[j].end_offset <= es[i].start_offset && es[j].start_offset < es[i].start_offset)) by {
        let a = perm[i]; let b = perm[j];
        assert((old_es[a].end_offset <= old_es[b].start_offset && old_es[a].start_offset < old_es[b].start_offset)
            || (old_es[b].end_offset <= old_es[a].start_offset && old_es[b].start_offset < old_es[a].start_offset));
    }
    lemma_off_zero(src@); lemma_cix(src@, src@.len() as int);
}"""),
            dict(anchor="let mut result", where="after_stmt", name="nothing_applied_yet",
                 text="proof { assert(src@.subrange(0, src@.len() as int) =~= src@); assert(edited(src@, es, 0) =~= src@); }"),
        ],
        loops={1: dict(invariant=[
            ("edits_fixed", "span_edits@ == es, edits_ok(src@, es), edits_separate(es), sorted_desc(es), __i1 <= es.len()"),
            ("applied_so_far", "result@ == edited(src@, es, __i1 as int)")],
            decreases="es.len() - __i1",
            body_prelude="""proof {
    let k = __i1 as int;
    let cs = src@;
    lemma_desc_adjacent(cs, es, k);
    let ub = untouched_below(cs, es, k);
    let m = cix(cs, ub);
    lemma_cix_props(cs, ub);
    let pre = cs.subrange(0, m);
    let tail = edited_tail(cs, es, k);
    assert(result@ == pre + tail);
    assert(edit_ok(cs, es[k]));
    lemma_cbt_of_prefix(cs, m, es[k].start_offset as int);
    lemma_cbt_of_prefix(cs, m, es[k].end_offset as int);
    lemma_cbt_prefix(pre, tail, es[k].start_offset as int);
    lemma_cbt_prefix(pre, tail, es[k].end_offset as int);
    let a = cix(cs, es[k].start_offset as int);
    let b = cix(cs, es[k].end_offset as int);
    lemma_cix_props(cs, es[k].start_offset as int); lemma_cix_props(cs, es[k].end_offset as int);
    if a > b { lemma_off_mono(cs, b, a); }
    assert((pre + tail).subrange(0, a) =~= cs.subrange(0, a));
    assert((pre + tail).subrange(b, (pre + tail).len() as int) =~= cs.subrange(b, m) + tail);
    assert(edited(cs, es, k + 1) =~= cs.subrange(0, a) + (es[k].replacement@ + cs.subrange(b, m) + tail));
}""")},
        props={"C17"}))
    u.add_canary_proof()
    u.raw(common.FOOTER)
    return u
