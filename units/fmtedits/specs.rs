// ---- units/fmtedits/specs.rs (C17): what "apply these span edits" means, over the char-sequence
// model of prelude/text.rs.  PROVED by Verus.

pub open spec fn edit_ok(cs: Seq<char>, e: SpanEdit) -> bool {
    e.start_offset <= e.end_offset <= blen_cs(cs) && is_cbt(cs, e.start_offset as int) && is_cbt(cs, e.end_offset as int)
}
pub open spec fn edits_ok(cs: Seq<char>, es: Seq<SpanEdit>) -> bool {
    forall|k: int| 0 <= k < es.len() ==> edit_ok(cs, #[trigger] es[k])
}
/// pairwise disjoint spans at distinct start offsets (touching allowed)
pub open spec fn edits_separate(es: Seq<SpanEdit>) -> bool {
    forall|i: int, j: int| #![trigger es[i], es[j]] 0 <= i < es.len() && 0 <= j < es.len() && i != j ==>
        ((es[i].end_offset <= es[j].start_offset && es[i].start_offset < es[j].start_offset)
         || (es[j].end_offset <= es[i].start_offset && es[j].start_offset < es[i].start_offset))
}
pub open spec fn sorted_desc(es: Seq<SpanEdit>) -> bool {
    forall|i: int, j: int| #![trigger es[i], es[j]] 0 <= i < j < es.len() ==> es[i].start_offset >= es[j].start_offset
}
pub open spec fn rearranged_by(a: Seq<SpanEdit>, b: Seq<SpanEdit>, perm: Seq<int>) -> bool {
    a.len() == b.len() && perm.len() == b.len()
    && (forall|k: int| 0 <= k < perm.len() ==> 0 <= #[trigger] perm[k] < a.len())
    && (forall|i: int, j: int| #![trigger perm[i], perm[j]] 0 <= i < perm.len() && 0 <= j < perm.len() && perm[i] == perm[j] ==> i == j)
    && (forall|k: int| 0 <= k < b.len() ==> #[trigger] b[k] == a[perm[k]])
}
pub open spec fn same_edits(a: Seq<SpanEdit>, b: Seq<SpanEdit>) -> bool {
    exists|perm: Seq<int>| #[trigger] rearranged_by(a, b, perm)
}
/// byte offset below which the text is still untouched after the first k edits (descending order)
pub open spec fn untouched_below(cs: Seq<char>, es: Seq<SpanEdit>, k: int) -> int {
    if k <= 0 { blen_cs(cs) as int } else { es[k - 1].start_offset as int }
}
/// the text from the start of edit k-1 onwards after applying the first k edits (descending order):
/// each edit's replacement, then the original text up to where the previous edit started
pub open spec fn edited_tail(cs: Seq<char>, es: Seq<SpanEdit>, k: int) -> Seq<char>
    decreases k,
{
    if k <= 0 { Seq::<char>::empty() } else {
        es[k - 1].replacement@ + cs.subrange(cix(cs, es[k - 1].end_offset as int), cix(cs, untouched_below(cs, es, k - 1))) + edited_tail(cs, es, k - 1)
    }
}
/// the whole text after the first k edits
pub open spec fn edited(cs: Seq<char>, es: Seq<SpanEdit>, k: int) -> Seq<char> {
    cs.subrange(0, cix(cs, untouched_below(cs, es, k))) + edited_tail(cs, es, k)
}

/// prefix sums of a concatenation agree with those of its first part
pub proof fn lemma_off_prefix(a: Seq<char>, b: Seq<char>, k: int)
    requires 0 <= k <= a.len(),
    ensures off(a + b, k) == off(a, k),
{
    assert((a + b).take(k) =~= a.take(k));
}
/// an offset that is a boundary of `a` is a boundary of `a + b`, with the same char index
pub proof fn lemma_cbt_prefix(a: Seq<char>, b: Seq<char>, o: int)
    requires is_cbt(a, o),
    ensures is_cbt(a + b, o), cix(a + b, o) == cix(a, o), o <= blen_cs(a + b),
{
    let k = cix(a, o);
    lemma_off_prefix(a, b, k);
    lemma_cix(a + b, k);
    lemma_blen_concat(a, b);
    lemma_off_mono(a, k, a.len() as int);
    lemma_off_zero(a);
}
/// boundaries of a prefix of cs are boundaries of cs
pub proof fn lemma_cbt_of_prefix(cs: Seq<char>, m: int, o: int)
    requires 0 <= m <= cs.len(), is_cbt(cs, o), o <= off(cs, m),
    ensures is_cbt(cs.subrange(0, m), o), cix(cs.subrange(0, m), o) == cix(cs, o), cix(cs, o) <= m,
{
    let k = cix(cs, o);
    if k > m { lemma_off_mono(cs, m, k); }
    assert(cs.subrange(0, m).take(k) =~= cs.take(k));
    lemma_cix(cs.subrange(0, m), k);
}
/// sorted descending + separate + in range  ==>  edit k ends where the text is still untouched
pub proof fn lemma_desc_adjacent(cs: Seq<char>, es: Seq<SpanEdit>, k: int)
    requires edits_ok(cs, es), edits_separate(es), sorted_desc(es), 0 <= k < es.len(),
    ensures es[k].end_offset <= untouched_below(cs, es, k), is_cbt(cs, untouched_below(cs, es, k)), untouched_below(cs, es, k) <= blen_cs(cs),
{
    lemma_off_zero(cs);
    lemma_cix(cs, cs.len() as int);
    if k > 0 {
        assert(edit_ok(cs, es[k - 1])); assert(edit_ok(cs, es[k]));
        let a = es[k - 1]; let b = es[k];
        assert((a.end_offset <= b.start_offset && a.start_offset < b.start_offset) || (b.end_offset <= a.start_offset && b.start_offset < a.start_offset));
    } else {
        assert(edit_ok(cs, es[0]));
    }
}

