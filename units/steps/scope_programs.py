"""Witness programs for unit `steps` (C06): a variable bound in the body of a loop is gone when the next iteration
starts, whatever the loop condition looks like and however the previous iteration ended."""

_LOOPS = [
    ("while True", "while True {", ""),
    ("while with a variable condition", "while go {", "  let go = True\n"),
    ("for over a list", "for _ in [1, 2, 3] {", ""),
]


def programs():
    out = []
    for (what, head, pre) in _LOOPS:
        # the previous iteration ended normally
        out.append((what + ", previous iteration completed",
                    "fun f() {\n  let i = 0\n%s  %s\n    i += 1\n    if i == 2 {\n      println(\"LEAK \" ^ string_repr(prev))\n      break\n    }\n    let prev = i\n  }\n}\nf()\n" % (pre, head)))
        # the previous iteration ended with `continue` inside a nested block
        out.append((what + ", previous iteration left with continue",
                    "fun f() {\n  let i = 0\n%s  %s\n    i += 1\n    if i == 2 {\n      println(\"LEAK \" ^ string_repr(seen))\n      break\n    }\n    let seen = i * 10\n    if i == 1 {\n      let inner = seen\n      continue\n    }\n  }\n}\nf()\n" % (pre, head)))
    return out


def witnesses(match, props):
    return [{"match": match, "kind": "run-file", "props": list(props), "timeout": 30, "input": src,
             "expect": {"stdout_not_contains": "LEAK", "stderr_contains": "No such variable"},
             "note": "a loop-body variable read in the next iteration before it is bound again (%s)" % what}
            for (what, src) in programs()]
