"""Unit `steps` (C07, C02): the evaluator's step functions that pop operands from the value stack
and may fail — eval_if, eval_while_body, eval_for_in, eval_assert, eval_boolean_binop, eval_assign,
eval_dot_access, ... (src/eval.rs), whole functions, under the restore contract

    Err((RestoreValues(vs), _))  ==>  value stack before the step == value stack after it ++ vs

(and no other frame is touched), which is what makes `:resume` re-run the same step on the same
values; plus panic-freedom of every `pop_value().expect(..)` under the operand-count precondition."""
import os
import re
import sys

HERE = os.path.dirname(os.path.abspath(__file__))
ROOT = os.path.dirname(os.path.dirname(HERE))
sys.path.insert(0, os.path.join(ROOT, "vc"))
sys.path.insert(0, os.path.join(ROOT, "units"))
import rewrite as rw  # noqa: E402
from gen import Contract, UnitFile  # noqa: E402
import common  # noqa: E402

EV = "src/eval.rs"
ENV = "src/env.rs"
VAL = "src/values.rs"
AST = "src/parser/ast.rs"
RLIMIT = 200
MIN_FUNCTIONS = 8

ASSUMPTIONS = dict(common.OPAQUE_ASSUMPTIONS)
ASSUMPTIONS.update(common.FMT_ASSUMPTIONS)
ASSUMPTIONS.update(common.ENV_OPAQUE_ASSUMPTIONS)
ASSUMPTIONS.update(common.ENV_STRUCT_ASSUMPTIONS)
ASSUMPTIONS.update(common.AST_OPAQUE_ASSUMPTIONS)
ASSUMPTIONS.update(common.VALUE_GLUE_ASSUMPTIONS)
ASSUMPTIONS.update({
    "vc_clone": "Clone / Rc::clone returns an equal value", "vs_string_eq_lit": "-", "vs_string_eq": "-", "vs_string_from_lit": "std to_owned",
    "clone": "derived Clone returns an equal value", "Type": "opaque stand-in for garden_type::Type",
    "default": "BlockBindings::default()",
    "as_rust_bool": "Value::as_rust_bool (values.rs) inspects the value only",
    "unit": "Value::unit() returns some value", "bool": "Value::bool(b) returns some value",
    "format_type_error": "format_type_error returns some ErrorMessage and does not panic",
    "eval_block": "eval_block (eval.rs; under contract in unit blocks): pushes a bindings block and the block's expressions; does not touch the value stack or other frames",
    "binop_for_assert": "binop_for_assert (eval.rs:7065) inspects the expression only",
    "eval_break": "eval_break: keeps the frame's base block count (PROVED in unit blocks under `for_values_present`, which is assumed here)",
    "eval_continue": "eval_continue: keeps the frame's base block count (PROVED in unit blocks)",
    "StructInfoView": "opaque: the StructInfo found for the type name", "FieldInfoView": "opaque: a FieldInfo", "TypeParamSet": "opaque: HashSet of the struct's type parameter names",
    "TypeArgBindings": "opaque: FxHashMap type parameter -> Type", "FieldsByName": "opaque: FxHashMap field name -> FieldInfo",
    "vsv_as_struct": "`let TypeDef::Struct(struct_info) = type_info.clone()`", "vsv_type_params": "collects the type parameter names", "vsv_new_bindings": "FxHashMap::default()",
    "vsv_fields_by_name": "the loop that fills expected_fields_by_name from struct_info.fields (touches no Env)", "vsv_take_field": "FxHashMap::remove", "vsv_is_type_param": "HashSet::contains",
    "vsv_bind": "FxHashMap::insert of Type::from_value(&field_value)", "vsv_expected_ty": "Type::from_hint(..).unwrap_or_err_ty(): reads env.types only", "vsv_none_left": "FxHashMap::is_empty",
    "vsv_missing_names": "into_keys().map(format!).collect().join(\", \")", "vsv_type_args": "the loop that reads type_arg_bindings for each type parameter (touches no Env)", "vsv_struct_type": "Type::UserDefined { kind: Struct, name, args }",
    "as_string": "ErrorMessage::as_string renders the message", "vns_same": "Rc::ptr_eq of two namespace handles", "vfun_runtime_type": "Type::from_fun_info(..).unwrap_or_err_ty() reads env only",
    "type_representation": "inspects the value only", "get_type_def": "Env::get_type_def reads env.types only", "vtn_eq": "TypeName == TypeName",
    "eval_call": "eval_call: the same clauses are PROVED for the whole function in unit calls",
    "eval_method_call": "eval_method_call: the same clauses are PROVED for the whole function in unit calls",
    "push_back_mut": "rpds::Vector::push_back_mut", "insert_mut": "rpds::HashTrieMap::insert_mut", "no_value": "Type::no_value()", "from_value": "Type::from_value inspects the value only",
    "format_type_error_with_suggestion": "returns some ErrorMessage and does not panic", "checked_pow": "i64::checked_pow (std; functional contract in unit arith)", "wrapping_rem_euclid": "i64::wrapping_rem_euclid panics iff the divisor is 0 (std)",
    "vfl_is_zero": "f64 == 0.0", "vfl_add": "f64 +", "vfl_sub": "f64 -", "vfl_mul": "f64 *", "vfl_div": "f64 /", "vS_new_with_room": "String::with_capacity(a.len() + b.len()): `usize` addition of two lengths of live strings cannot overflow", "vS_push": "String::push_str",
    "from_hint": "Type::from_hint returns some Result and does not touch env", "check_type": "check_type returns some Result and does not touch env",
    "add_new": "Bindings::add_new (eval.rs:93) inserts into the innermost block: the number of blocks is unchanged", "as_src": "-", "vexpect_value": "Option::expect",
    "vrev_cloned": "`xs.iter().rev().cloned().collect()` is the reversed copy", "check_string": "check_string (eval.rs; PROVED in unit restore): on failure it returns exactly the saved_values it was given",
    "NsGuard": "opaque stand-in for the Ref<NamespaceInfo> that `ns_info.borrow()` returns", "vns_borrow": "RefCell::borrow: reads the namespace",
    "vns_get_value": "`ns_info.values.get(&name)`: FxHashMap lookup (ghost ns_value)", "vns_is_exported": "`ns_info.exported_syms.contains(&name)`: FxHashSet membership (ghost ns_exports)",
    "vns_path_display": "path rendering for the message", "vns_entries": "iterating `&ns.values` visits entries of the value table",
    "vns_insert_imported": "FxHashMap::insert into the importing namespace; its precondition is the C34 obligation (the name is public in the imported namespace and the value is that namespace's value)",
    "vns_insert": "FxHashMap::insert of the namespace value under the import's name",
    "Session": "opaque", "most_similar_var": "inspects env only", "new_string": "Value::new(Value_::String(s))", "new_float": "Value::new(Value_::Float(f))",
    "done_subexpressions": "-",
    "rv_len": "rpds::Vector::len", "rv_get": "rpds::Vector index",
    "has": "Bindings::has inspects the bindings only", "set_existing": "Bindings::set_existing (under contract elsewhere): updates bindings only; requires the variable to be bound in this frame (else unreachable!())",
    "is_underscore": "SymbolName::is_underscore", "vsym_eq": "SymbolName == SymbolName",
    "TypeNameLit": "-", "vunreachable": "unreachable!(..): a reachable call is a violation (precondition `false`)",
    "new_int": "Value::new(Value_::Int(i)) builds the Int value", "bool_val": "-", "val_eq": "-",
    "vq_value_eq": "`==` on Value: derived PartialEq through Rc<Value_> (pointer equality or Value_::eq; unit valeq proves Value_::eq is structural equality)", "SyntaxId": "opaque stand-in", "TypeHintRest": "the fields of TypeHint other than `position`", "get_var": "get_var (eval.rs) looks the symbol up in the frame's bindings AND in the namespace: its result says nothing about b_has",
})
LEMMAS = {}
UNVERIFIED = {
    "C34": ["only the run-time check of a qualified access `ns::item` (eval_namespace_access) is under contract: it yields the namespace's value and does so only for items marked public",
            "unqualified imports: insert_imported_namespace copies into the importing namespace only names the imported one marks public (under contract); how exported_syms is populated when a file is loaded (load_toplevel_items), the check-time rule (infer_namespace_access in the type checker) and cyclic import loading are NOT under contract"],
    "C06": [
            "every step function behind the arms is under contract (here, or eval_call / eval_method_call in unit calls, eval_block / eval_break / eval_continue in unit blocks); in eval_struct_value the struct definition, the by-name maps and the type arguments are abstracted to opaque values (rules S1..S12: they touch no Env)",
            "the operand-count / loop-index preconditions of the arms (evaluator invariants established by earlier steps) are assumed",
            "function frames: a frame is created with one bindings block (Bindings::new_with) and dropped whole when the call returns"],
    "C07": ["that the expression state handed back to restore_stack_frame re-runs the same step (eval_expr mutates `expr_state` only in arms that cannot fail; not stated as a contract)",
            "check_string and the built-in dispatch (eval_built_in_call / eval_built_in_method_call) are used through contracts whose builder sites are proved in unit restore",
            "continuation entries a step pushed to exprs_to_eval before failing stay there (If/Match/While arms of eval_expr): harmless for a repeated :resume, not covered"],
    "C04": ["of `x += e` / `x -= e` the step function eval_assign_update is under contract here: the name reads as the wrapped sum afterwards, given that Bindings::set_existing makes the name read as the value it is given (proved in unit bindings: get / has / set_existing / add_new against `lookup`, the innermost block that binds the name)"],
    "C13": ["that `==` on Value is Value_::eq (derived PartialEq through Rc) — Value_::eq itself is under contract in unit valeq"],
    "C02": ["the operand-count preconditions (eval_expr evaluates and pushes the operands before the step) are assumed of the caller"],
}

GLUE = """
global size_of usize == 8;   // ASSUMPTION: 64-bit target (the cast `iteree_idx as usize` is exact for a non-negative i64)
#[verifier::external_body] pub struct Type { _o: u8 }
"""


def _resume(what, session, match):
    return {"match": match, "kind": "resume-corpus", "props": ["C07"], "input": [{"what": what, "session": session}], "expect": {}, "note": what}


WITNESSES = [
    {"match": r"steps\.", "kind": "json-session", "props": ["C06"],
     "input": ["let i = 0\nwhile i < 3 {\n  let y = i\n  i += 1\n  if y == 1 {\n    return\n  }\n}", "i", "y", "for k in [1, 2] {\n  let z = k\n  match Some(k) {\n    Some(p) => { return p }\n    None => {}\n  }\n}", "z", "p", "40 + 2"],
     "expect": {"py": "(lambda rs: '' if len(rs) == 7 and 'No such variable' in json.dumps(rs[2]) and 'No such variable' in json.dumps(rs[4]) and 'No such variable' in json.dumps(rs[5]) and '42' in json.dumps(rs[6]) else 'a variable of a block left by `return` at the top level of a session is still visible afterwards: %s' % json.dumps(rs)[-400:])(jsons(full_out))"},
     "note": "`return` (bare or with a value) out of nested blocks of a session's top level drops their bindings"},
    _resume("a failed assert on a comparison, resumed", ["assert(1 == 2)"], r"steps\.eval_assert\."),
    _resume("a failed assert on an ordering, resumed", ["assert(1 < 0)"], r"steps\.eval_assert\."),
    _resume("`for` over a non-list, resumed", ["fun t1() { for x in 1 { 2 } }", "t1()"], r"steps\.eval_for_in\."),
    _resume("`for` destructuring a non-tuple element, resumed", ["fun t2() { for (a, b) in [1] { a } }", "t2()"], r"steps\.eval_for_in\."),
    _resume("`for` destructuring a tuple of the wrong size, resumed", ["fun t3() { for (a, b) in [(1, 2), (1, 2, 3)] { a } }", "t3()"], r"steps\.eval_for_in\."),
    _resume("`if` on a non-Bool", ["if 1 { 2 }"], r"steps\.eval_if\."),
    _resume("`while` on a non-Bool", ["while 1 { 2 }"], r"steps\.eval_while_body\."),
    _resume("`&&` on a non-Bool", ["True && 1"], r"steps\.eval_boolean_binop\."),
    _resume("assignment to an unbound variable", ["nosuchvar = 1"], r"steps\.eval_assign\."),
    {"match": r"steps\.eval_let\.", "kind": "resume-corpus", "props": ["C07"], "expect": {}, "note": "let with an unbound type hint, resumed twice",
     "input": [{"what": "let with an unbound type hint", "session": ["let x: Nosuch = 1"], "resumes": 3},
               {"what": "let with a wrong annotation", "session": ["let y: Int = \"a\""], "resumes": 3},
               {"what": "destructuring let of the wrong size", "session": ["let (a, b) = (1, 2, 3)"], "resumes": 3},
               {"what": "destructuring let of a non-tuple", "session": ["let (c, d) = 1"], "resumes": 3}]},
    {"match": r"steps\.eval_assign_update\.", "kind": "resume-corpus", "props": ["C07"], "expect": {}, "note": "`+=` failing on each of its error paths, resumed",
     "input": [{"what": "`+=` with a non-Int right-hand side", "session": ["let n = 1", "n += \"a\""], "resumes": 3},
               {"what": "`+=` on a String variable", "session": ["let s = \"a\"", "s += 1"], "resumes": 3},
               {"what": "`+=` on a String parameter inside a loop in a callee", "session": ["fun tally(label, xs) { for x in xs { label += x } label }", "tally(\"total\", [1, 2, 3])"], "resumes": 3},
               {"what": "`-=` on an unbound variable", "session": ["fun dec() { nosuch -= 1 }", "dec()"], "resumes": 3}]},
    _resume("field access on a non-struct", ["1.field"], r"steps\.eval_dot_access\."),
    {"match": r"steps\.eval_assign_update\.", "kind": "run", "props": ["C04"], "timeout": 30,
     "input": "fun f(x: Int): Int {\n  let y = 7\n  if True {\n    let x = 100\n    let y = 100\n    x += 5\n    y -= 5\n    println(string_repr(x) ^ \" \" ^ string_repr(y))\n    for x in [9223372036854775807] { x += 1  println(string_repr(x)) }\n  }\n  println(string_repr(x) ^ \" \" ^ string_repr(y))\n  x\n}\nf(7)\nlet t = 1\nt += 2\nprintln(string_repr(t))\n",
     "expect": {"stdout": "105 95\n-9223372036854775808\n7 7\n3"}, "note": "`+=` / `-=` on a name that shadows an outer binding update the innermost binding, which is the one a later read finds"},
    {"match": r"steps\.arm_Return\.", "kind": "json-session", "props": ["C06"],
     "input": ["if True { let leaked_local = 1 return 5 }", "leaked_local"],
     "expect": {"py": "('No such variable' not in out) and 'a block-local variable is still visible after `return` left the block: ' + out[-300:] or ''"},
     "note": "a variable introduced in a block must not be visible after `return` left the block (top level of a session)"},
    {"match": r"steps\.arm_Return\.", "kind": "json-session", "props": ["C06"],
     "input": ["let i = 0", "while i < 3 { let in_loop = i if i == 1 { return i } i += 1 }", "in_loop"],
     "expect": {"py": "('No such variable' not in out) and 'a loop-body variable is still visible after `return` left the loop: ' + out[-300:] or ''"}},
    {"match": r"steps\.arm_(Match|If|While|ForIn|Try|Break|Continue)\.", "kind": "run-file", "props": ["C06"],
     "input": "fun f(o: Option<Int>): Int {\n  let t = 0\n  for x in [1, 2, 3] {\n    let a = x\n    if x == 2 { let b = a  continue }\n    match o { Some(v) => { let c = v  t += c } None => { let d = 1  t += d } }\n    while t < 0 { let e = 1  t += e }\n    try { let g = 1  t += g } catch (err) { let h = 1  t += h }\n  }\n  t\n}\nprintln(string_repr(f(Some(2))))\nfun g(): Int { if True { let z = 1 } z }\ng()\n",
     "expect": {"stdout_contains": "6", "stderr_contains": "No such variable"}, "note": "blocks of if/match/while/for/try are popped when they finish"},
    {"match": r"steps\.eval_namespace_access\.", "kind": "run-dir", "props": ["C34"],
     "files": {"lib.gdn": "public fun shown(): Int { 1 }\nfun hidden(): Int { 2 }\n",
               "main.gdn": "import \"./lib.gdn\" as lib\nprintln(string_repr(lib::shown()))\nprintln(string_repr(lib::hidden()))\n"},
     "main": "main.gdn",
     "expect": {"py": "('1' not in out.split()) and 'the public item was not reachable: ' + (out+err)[-200:] or ('2' in out.split() and 'a non-public item was reachable through the import') or ('not marked' not in (out+err) and 'no visibility error was reported: ' + (out+err)[-200:]) or ''"},
     "note": "ns::item reaches public items only"},
    {"match": r"steps\.eval_namespace_access\.", "kind": "run-dir", "props": ["C34"],
     "files": {"c.gdn": "public fun c_pub(): String { \"from c\" }\n", "b.gdn": "import \"./c.gdn\"\npublic fun b_pub(): String { c_pub() }\n",
               "main.gdn": "import \"./b.gdn\" as b\nprintln(b::b_pub())\nprintln(\"sec\" ^ \"ond \" ^ b::c_pub())\n"},
     "main": "main.gdn",
     "expect": {"py": "('from c' not in out and 'the public item was not reachable: ' + (out+err)[-200:]) or ('second from c' in out and 'b::c_pub ran although b.gdn does not define c_pub, let alone mark it public') or ('not marked' not in (out+err) and 'no visibility error was reported: ' + (out+err)[-200:]) or ''"},
     "note": "a name the imported file itself imported unqualified is not one of its public definitions"},
    {"match": r"steps\.eval_namespace_access\.", "kind": "run-dir", "props": ["C34"],
     "files": {"b.gdn": "public fun b_pub(): String { \"b\" }\n", "main.gdn": "import \"./b.gdn\" as b\nprintln(b::b_pub())\nb::println(\"thr\" ^ \"ough\")\n"},
     "main": "main.gdn",
     "expect": {"py": "('through' in out and 'b::println ran although b.gdn does not define println') or ('not marked' not in (out+err) and 'no visibility error was reported: ' + (out+err)[-200:]) or ''"},
     "note": "a prelude function is not a public definition of the imported file"},
    {"match": r"steps\.eval_equality_binop\.", "kind": "run", "props": ["C13"],
     "input": "let a = Dict[\"a\" => Ok(1), \"b\" => Err(\"x\")]\nlet b = Dict[\"b\" => Err(\"x\"), \"a\" => Ok(1)]\nprintln(string_repr(a == b))\nprintln(string_repr(a != b))\nprintln(string_repr([a] == [b]))\nprintln(string_repr(([], 1) == ([], 1)))\nprintln(string_repr([1, 2] == [1, 2]))\nprintln(string_repr(Some([]) == Some([1])))\nprintln(string_repr(1 == 1.0))",
     "expect": {"stdout": "True\nFalse\nTrue\nTrue\nTrue\nFalse\nFalse"}, "note": "structurally equal containers built separately (different literal order, different recorded element types) are equal"},
    {"match": r"steps\.eval_assign\.safety", "kind": "run", "props": ["C02"], "input": "println = 1", "expect": {}, "note": "assigning to a name that is only bound in the namespace must raise an error, not panic"},
]
sys.path.insert(0, os.path.dirname(os.path.abspath(__file__)))
import scope_programs  # noqa: E402
WITNESSES += scope_programs.witnesses(r"steps\.", ["C06"])

GLUE2 = """
impl Clone for Value {
    #[verifier::external_body]
    fn clone(&self) -> (r: Self) ensures r == *self { unimplemented!() }
}
impl Clone for Position {
    #[verifier::external_body]
    fn clone(&self) -> (r: Self) ensures r == *self { unimplemented!() }
}
impl Value {
    #[verifier::external_body]
    pub fn as_rust_bool(&self) -> (r: Option<bool>) { unimplemented!() }
    #[verifier::external_body]
    pub fn unit() -> (r: Self) { unimplemented!() }
    #[verifier::external_body]
    pub fn bool(b: bool) -> (r: Self) ensures r == bool_val(b) { unimplemented!() }
    #[verifier::external_body]
    pub fn new_int(i: i64) -> (r: Self) ensures *r.0 == Value_::Int(i) { unimplemented!() }
}
/// the Garden Bool value for a Rust bool (ghost)
pub uninterp spec fn bool_val(b: bool) -> Value;
/// `==` on Value (derived PartialEq through Rc: pointer equality or Value_::eq, which unit valeq proves to be
/// the structural equality veq)
pub uninterp spec fn val_eq(a: Value, b: Value) -> bool;
#[verifier::external_body]
pub fn vq_value_eq(a: &Value, b: &Value) -> (r: bool) ensures r == val_eq(*a, *b) { unimplemented!() }
pub struct TypeNameLit { pub text: String }
#[verifier::external_body]
pub fn format_type_error<T>(expected: &T, value: &Value, env: &Env) -> (r: ErrorMessage) { unimplemented!() }
#[verifier::external_body]
pub fn vunreachable() -> ! requires false { unimplemented!() }
impl SymbolName {
    #[verifier::external_body]
    pub fn is_underscore(&self) -> (r: bool) { unimplemented!() }
}
#[verifier::external_body]
pub fn vsym_eq(a: &SymbolName, b: &SymbolName) -> (r: bool) { unimplemented!() }
impl Clone for Symbol {
    #[verifier::external_body]
    fn clone(&self) -> (r: Self) ensures r == *self { unimplemented!() }
}
#[verifier::external_body]
pub fn rv_len(x: &RpdsVector<Value>) -> (r: usize) ensures r <= isize::MAX { unimplemented!() }
#[verifier::external_body]
pub fn rv_get(x: &RpdsVector<Value>, i: usize) -> (r: &Value) requires i < usize::MAX { unimplemented!() }
"""

GLUE3 = """
impl BlockBindings {
    #[verifier::external_body]
    pub fn default() -> (r: Self) { unimplemented!() }
}
/// the value stack, the pending expressions and the bindings blocks of the current frame
pub open spec fn vals(env: Env) -> Seq<Value> { top(env).evalled_values@ }
pub open spec fn others_same(a: Env, b: Env) -> bool {
    a.stack.0@.len() == b.stack.0@.len() && a.stack.0@.len() >= 1 && a.stack.0@.drop_last() =~= b.stack.0@.drop_last()
}
/// the restore contract of a failed step (C07)
pub open spec fn restores(before: Env, after: Env, vs: Seq<Value>) -> bool {
    vals(before) =~= vals(after) + vs && others_same(before, after)
}
// ---- block accounting (C06): the owner model of units/blocks/specs.rs -----------------------
pub open spec fn is_done_run(st: ExpressionState) -> bool {
    st is PartiallyEvaluated && st->PartiallyEvaluated_0 is DoneRunBlock
}
/// the (state, expression) pairs whose dispatch arm pops a bindings block
pub open spec fn owner(st: ExpressionState, e: Expression) -> bool {
    match e.expr_ {
        Expression_::If(..) | Expression_::Match(..) | Expression_::Try(..) => st is EvaluatedSubexpressions,
        Expression_::While(..) => is_done_run(st),
        Expression_::ForIn(..) => is_done_run(st) || st is EvaluatedSubexpressions,
        _ => false,
    }
}
pub open spec fn owners(es: Seq<(ExpressionState, Rc<Expression>)>) -> nat
    decreases es.len(),
{
    if es.len() == 0 { 0 } else { owners(es.drop_last()) + (if owner(es.last().0, *es.last().1) { 1nat } else { 0nat }) }
}
pub broadcast proof fn lemma_owners_push_b(es: Seq<(ExpressionState, Rc<Expression>)>, x: (ExpressionState, Rc<Expression>))
    ensures #[trigger] owners(es.push(x)) == owners(es) + (if owner(x.0, *x.1) { 1nat } else { 0nat }),
{
    assert(es.push(x).drop_last() =~= es);
}
pub open spec fn blocks(env: Env) -> int { top(env).bindings.block_bindings@.len() as int }
pub open spec fn pend(env: Env) -> Seq<(ExpressionState, Rc<Expression>)> { top(env).exprs_to_eval@ }
/// bindings blocks of the current frame that no pending expression will pop: 1 for every frame, always
pub open spec fn base(env: Env) -> int { blocks(env) - owners(pend(env)) }
/// the same count with the step that eval() has just popped put back
pub open spec fn base_with(env: Env, st: ExpressionState, e: Rc<Expression>) -> int {
    blocks(env) - owners(pend(env).push((st, e)))
}
#[verifier::external_body]
pub fn eval_block(env: &mut Env, expr_value_is_used: bool, block: &Block)
    requires old(env).stack.0@.len() >= 1,
    ensures vals(*final(env)) == vals(*old(env)), others_same(*old(env), *final(env)),
        blocks(*final(env)) == blocks(*old(env)) + 1, owners(pend(*final(env))) == owners(pend(*old(env))),
{ unimplemented!() }
#[verifier::external_body]
pub fn eval_break(env: &mut Env, expr_value_is_used: bool)
    requires old(env).stack.0@.len() >= 1, base(*old(env)) >= 1,
    ensures base(*final(env)) == base(*old(env)), others_same(*old(env), *final(env)),
{ unimplemented!() }
#[verifier::external_body]
pub fn eval_continue(env: &mut Env)
    requires old(env).stack.0@.len() >= 1, base(*old(env)) >= 1,
    ensures base(*final(env)) == base(*old(env)), others_same(*old(env), *final(env)),
{ unimplemented!() }
/// the variable is bound in some bindings block of this frame (ghost)
pub uninterp spec fn b_has(b: Bindings, id: InternedSymbolId) -> bool;
impl Bindings {
    #[verifier::external_body]
    pub fn has(&self, interned_id: InternedSymbolId) -> (r: bool) ensures r == b_has(*self, interned_id) { unimplemented!() }
    #[verifier::external_body]
    pub fn set_existing(&mut self, sym: &Symbol, value: Value)
        requires b_has(*old(self), sym.interned_id),
        ensures final(self).block_bindings@.len() == old(self).block_bindings@.len(),
            b_get(*final(self), sym.interned_id) == Some(value),
    { unimplemented!() }
}
/// what Bindings::get finds for the name: the value in the innermost block that binds it (ghost)
pub uninterp spec fn b_get(b: Bindings, id: InternedSymbolId) -> Option<Value>;
/// i64::wrapping_add / wrapping_sub as integers
pub open spec fn wrap64(x: int) -> int {
    if x > i64::MAX { x - 0x1_0000_0000_0000_0000 } else if x < i64::MIN { x + 0x1_0000_0000_0000_0000 } else { x }
}
pub uninterp spec fn get_var_result(sym: &Symbol, env: Env) -> Option<Value>;
#[verifier::external_body]
pub fn get_var(sym: &Symbol, env: &Env) -> (r: Option<Value>) ensures r == get_var_result(sym, *env) { unimplemented!() }
#[verifier::external_body]
pub fn eval_call(env: &mut Env, expr_value_is_used: bool, caller_expr: Rc<Expression>, paren_args: &ParenthesizedArguments, session: &Session) -> (r: Result<Option<StackFrame>, (RestoreValues, EvalError)>)
    requires old(env).stack.0@.len() >= 1,
    ensures others_same(*old(env), *final(env)), blocks(*final(env)) == blocks(*old(env)), pend(*final(env)) == pend(*old(env)),
        r is Err ==> restores(*old(env), *final(env), r->Err_0.0.0@),
{ unimplemented!() }
#[verifier::external_body]
pub fn eval_method_call(env: &mut Env, expr_value_is_used: bool, caller_expr: Rc<Expression>, meth_name: &Symbol, paren_args: &ParenthesizedArguments) -> (r: Result<Option<StackFrame>, (RestoreValues, EvalError)>)
    requires old(env).stack.0@.len() >= 1,
    ensures others_same(*old(env), *final(env)), blocks(*final(env)) == blocks(*old(env)), pend(*final(env)) == pend(*old(env)),
        r is Err ==> restores(*old(env), *final(env), r->Err_0.0.0@),
{ unimplemented!() }
#[verifier::external_body] pub struct Session { _o: u8 }
// ---- namespaces (C34): ghost view of NamespaceInfo behind Rc<RefCell<..>> ----------------------------
#[verifier::external_body] pub struct NsGuard { _o: u8 }
/// the value a namespace holds under a name, and whether the name is marked public (exported)
pub uninterp spec fn ns_value(ns: NamespaceRef, name: SymbolName) -> Option<Value>;
pub uninterp spec fn ns_exports(ns: NamespaceRef, name: SymbolName) -> bool;
pub uninterp spec fn guard_of(g: &NsGuard) -> NamespaceRef;
#[verifier::external_body]
pub fn vns_borrow(ns: &NamespaceRef) -> (r: NsGuard) ensures guard_of(&r) == *ns { unimplemented!() }
#[verifier::external_body]
pub fn vns_get_value<'a>(g: &'a NsGuard, name: &SymbolName) -> (r: Option<&'a Value>)
    ensures r is Some <==> ns_value(guard_of(g), *name) is Some, r is Some ==> *r->Some_0 == ns_value(guard_of(g), *name)->Some_0,
{ unimplemented!() }
#[verifier::external_body]
pub fn vns_is_exported(g: &NsGuard, name: &SymbolName) -> (r: bool) ensures r == ns_exports(guard_of(g), *name) { unimplemented!() }
#[verifier::external_body]
pub fn vns_path_display(env: &Env, g: &NsGuard) -> (r: String) { unimplemented!() }
/// `for (sym, value) in &ns.values`: the entries of the namespace's value table
#[verifier::external_body]
pub fn vns_entries(g: &NsGuard) -> (r: Vec<(SymbolName, Value)>)
    ensures forall|i: int| 0 <= i < r@.len() ==> ns_value(guard_of(g), (#[trigger] r@[i]).0) == Some(r@[i].1),
{ unimplemented!() }
/// `ns.borrow_mut().values.insert(k, v)` for a name taken from the imported namespace `from`:
/// only names that `from` marks public may be copied into another namespace (C34)
#[verifier::external_body]
pub fn vns_insert_imported(into: &NamespaceRef, k: SymbolName, v: Value, Ghost(from): Ghost<NamespaceRef>)
    requires ns_exports(from, k), ns_value(from, k) == Some(v),
{ unimplemented!() }
/// `ns.borrow_mut().values.insert(k, v)` of the namespace value itself (`import "x" as name`)
#[verifier::external_body]
pub fn vns_insert(into: &NamespaceRef, k: SymbolName, v: Value) { unimplemented!() }
impl Clone for SymbolName {
    #[verifier::external_body]
    fn clone(&self) -> (r: Self) ensures r == *self { unimplemented!() }
}
impl<T> RpdsVector<T> {
    #[verifier::external_body]
    pub fn new() -> (r: Self) { unimplemented!() }
    #[verifier::external_body]
    pub fn push_back_mut(&mut self, x: T) { unimplemented!() }
}
impl<K, V> RpdsHashTrieMap<K, V> {
    #[verifier::external_body]
    pub fn new() -> (r: Self) { unimplemented!() }
    #[verifier::external_body]
    pub fn insert_mut(&mut self, k: K, v: V) { unimplemented!() }
}
impl Type {
    #[verifier::external_body]
    pub fn no_value() -> (r: Self) { unimplemented!() }
    #[verifier::external_body]
    pub fn from_value(v: &Value) -> (r: Self) { unimplemented!() }
}
#[verifier::external_body]
pub fn format_type_error_with_suggestion<T>(expected: &T, value: &Value, env: &Env, suggestion: Vec<MessagePart>) -> (r: ErrorMessage) { unimplemented!() }
pub assume_specification [i64::checked_pow] (a: i64, n: u32) -> (r: std::option::Option<i64>);
pub assume_specification [i64::wrapping_rem_euclid] (a: i64, b: i64) -> (r: i64)
    requires b != 0;
#[verifier::external_body] pub fn vfl_is_zero(x: f64) -> (r: bool) { x == 0.0 }
#[verifier::external_body] pub fn vfl_add(a: f64, b: f64) -> (r: f64) { a + b }
#[verifier::external_body] pub fn vfl_sub(a: f64, b: f64) -> (r: f64) { a - b }
#[verifier::external_body] pub fn vfl_mul(a: f64, b: f64) -> (r: f64) { a * b }
#[verifier::external_body] pub fn vfl_div(a: f64, b: f64) -> (r: f64) { a / b }
#[verifier::external_body] pub fn vS_new_with_room(a: &String, b: &String) -> (r: String) { unimplemented!() }
#[verifier::external_body] pub fn vS_push(s: &mut String, t: &String) { unimplemented!() }
pub use MessagePart::Code;
impl Type {
    #[verifier::external_body]
    pub fn from_hint(hint: &TypeHint, types: &OpaqueMap<TypeName, TypeDefAndMethods>, type_bindings: &TypeVarEnv) -> (r: Result<Type, String>) { unimplemented!() }
}
#[verifier::external_body]
pub fn check_type(value: &Value, expected: &Type, env: &Env) -> (r: Result<(), ErrorMessage>) { unimplemented!() }
impl Bindings {
    #[verifier::external_body]
    pub fn add_new(&mut self, sym: &Symbol, value: Value)
        ensures final(self).block_bindings@.len() == old(self).block_bindings@.len(),
    { unimplemented!() }
}
impl AssignUpdateKind {
    #[verifier::external_body]
    pub fn as_src(&self) -> (r: &'static str) { unimplemented!() }
}
/// `Option::expect(&format!(..))`: same as expect with a literal message
#[verifier::external_body]
pub fn vexpect_value(v: Option<Value>) -> (r: Value) requires v is Some, ensures r == v->Some_0, { unimplemented!() }
/// `xs.iter().rev().cloned().collect()`
#[verifier::external_body]
pub fn vrev_cloned(xs: &Vec<Value>) -> (r: Vec<Value>) ensures r@ == xs@.reverse() { unimplemented!() }
#[verifier::external_body]
pub fn check_string<'a>(value: &'a Value, pos: &Position, saved_values: Vec<Value>, env: &Env) -> (r: Result<&'a String, (RestoreValues, EvalError)>)
    ensures r is Err ==> r->Err_0.0.0@ == saved_values@,
{ unimplemented!() }
#[verifier::external_body]
pub fn most_similar_var(name: &SymbolName, env: &Env) -> (r: Option<SymbolName>) { unimplemented!() }
impl Clone for TypeSymbol {
    #[verifier::external_body]
    fn clone(&self) -> (r: Self) ensures r == *self { unimplemented!() }
}
impl Value {
    #[verifier::external_body]
    pub fn new_string(s: String) -> (r: Self) { unimplemented!() }
    #[verifier::external_body]
    pub fn new_float(f: &OrderedF64) -> (r: Self) { unimplemented!() }
}
#[verifier::external_body]
pub fn binop_for_assert(expr: &Rc<Expression>) -> (r: Option<(Rc<Expression>, BinaryOperatorKind, Rc<Expression>)>)
    ensures r is Some <==> expr.expr_ is BinaryOperator,
{ unimplemented!() }
#[verifier::external_body]
pub fn type_representation(value: &Value) -> (r: TypeName) { unimplemented!() }
impl Env {
    /// Env::get_type_def: a read-only lookup in env.types
    #[verifier::external_body]
    pub fn get_type_def(&self, name: &TypeName) -> (r: Option<&TypeDefAndMethods>) { unimplemented!() }
}
// ---- eval_struct_value: the struct definition, the by-name maps and the type arguments are opaque; only the value
// stack, popped_values and the pushes stay real (rules S1..S12 below) --------------------------------------------
#[verifier::external_body] pub struct StructInfoView { _o: u8 }
#[verifier::external_body] pub struct FieldInfoView { _o: u8 }
#[verifier::external_body] pub struct TypeParamSet { _o: u8 }
#[verifier::external_body] pub struct TypeArgBindings { _o: u8 }
#[verifier::external_body] pub struct FieldsByName { _o: u8 }
#[verifier::external_body] pub fn vsv_as_struct(t: &TypeDefAndMethods) -> (r: Option<StructInfoView>) { unimplemented!() }
#[verifier::external_body] pub fn vsv_type_params(s: &StructInfoView) -> (r: TypeParamSet) { unimplemented!() }
#[verifier::external_body] pub fn vsv_new_bindings() -> (r: TypeArgBindings) { unimplemented!() }
#[verifier::external_body] pub fn vsv_fields_by_name(s: &StructInfoView) -> (r: FieldsByName) { unimplemented!() }
#[verifier::external_body] pub fn vsv_take_field(m: &mut FieldsByName, name: &SymbolName) -> (r: Option<FieldInfoView>) { unimplemented!() }
#[verifier::external_body] pub fn vsv_is_type_param(p: &TypeParamSet, f: &FieldInfoView) -> (r: bool) { unimplemented!() }
#[verifier::external_body] pub fn vsv_bind(b: &mut TypeArgBindings, f: &FieldInfoView, v: &Value) { unimplemented!() }
#[verifier::external_body] pub fn vsv_expected_ty(f: &FieldInfoView, env: &Env, tb: &TypeVarEnv) -> (r: Type) { unimplemented!() }
#[verifier::external_body] pub fn vsv_none_left(m: &FieldsByName) -> (r: bool) { unimplemented!() }
#[verifier::external_body] pub fn vsv_missing_names(m: FieldsByName) -> (r: String) { unimplemented!() }
#[verifier::external_body] pub fn vsv_type_args(s: &StructInfoView, b: &TypeArgBindings) -> (r: Vec<Type>) { unimplemented!() }
#[verifier::external_body] pub fn vsv_struct_type(name: TypeName, args: Vec<Type>) -> (r: Type) { unimplemented!() }
impl ErrorMessage {
    #[verifier::external_body]
    pub fn as_string(&self) -> (r: String) { unimplemented!() }
}
/// Type::from_fun_info(..).unwrap_or_err_ty(): reads env.types and the type bindings only
#[verifier::external_body]
pub fn vfun_runtime_type(fun_info: &FunInfo, env: &Env) -> (r: Type) { unimplemented!() }
/// Rc::ptr_eq on two namespace handles
#[verifier::external_body]
pub fn vns_same(a: &NamespaceRef, b: &NamespaceRef) -> (r: bool) { unimplemented!() }
/// `b.as_ref()` on a Box: the boxed value (Box::as_ref has no Verus specification)
pub fn vbox_ref<T>(b: &Box<T>) -> (r: &T) ensures *r == **b { &**b }
#[verifier::external_body]
pub fn vtn_eq(a: &TypeName, b: &TypeName) -> (r: bool) { unimplemented!() }
"""


def restore_contract(needs, extra_requires=(), props=None, hints=None, loops=None, err="r->Err_0.0.0@", extra_ensures=(), body_prelude=None):
    return Contract(
        requires=[("stack_nonempty", "old(env).stack.0@.len() >= 1"), ("operands_on_value_stack", "vals(*old(env)).len() >= %s" % needs)] + list(extra_requires),
        ensures=[("failed_step_hands_back_what_it_popped", "r is Err ==> restores(*old(env), *final(env), %s)" % err, {"C07"}),
                 ("other_frames_untouched", "others_same(*old(env), *final(env))", {"C07"})] + list(extra_ensures),
        hints=hints or [], loops=loops or {}, body_prelude=body_prelude,
        props=props or {"C07", "C02"})


BU = "broadcast use lemma_owners_push_b;"
# block accounting of a successful step (C06)
ONE_BLOCK_MORE = ("pushes_one_block_no_owner", "r is Ok ==> blocks(*final(env)) == blocks(*old(env)) + 1 && owners(pend(*final(env))) == owners(pend(*old(env)))", {"C06"})
FRAME_NEUTRAL = ("blocks_and_pending_untouched", "blocks(*final(env)) == blocks(*old(env)) && pend(*final(env)) == pend(*old(env))", {"C06"})
BASE_KEPT = ("block_accounting_kept", "r is Ok ==> base(*final(env)) == base(*old(env))", {"C06"})


TYPE_LIT = rw.simple("local", r"&TypeName \{\s*text: (\"[A-Za-z]+\")\.into\(\),\s*\}", r"&TypeNameLit { text: vs_string_from_lit(\1) }")
def _unreach(text):
    """`unreachable!(..)` -> `vunreachable()` (arguments dropped: they are only formatted)"""
    n = 0
    while True:
        m = re.search(r"(?<![A-Za-z0-9_])unreachable!\s*\(", text)
        if not m:
            break
        close = rw._balanced(text, m.end() - 1)
        text = text[:m.start()] + rw._pad(text[m.start():close], "vunreachable()") + text[close:]
        n += 1
    return text, n


_unreach.rule_id = "R12u"
UNREACH = _unreach
BASE_RULES = [TYPE_LIT, common.r9, rw.simple("R11", r"Rc::clone\(&(\w+)\)", r"vc_clone(&\1)"),
              rw.simple("local", r"Value::new\(Value_::Int\(([^()]*(?:\([^()]*\))?[^()]*)\)\)", r"Value::new_int(\1)")]


def build(tier):
    u = UnitFile("steps")
    u.raw(common.HEADER)
    u.raw(common.prelude("strings.rs"), kind="prelude")
    u.raw(common._without(common.OPAQUE, ["SymbolName", "Symbol"]), kind="prelude")
    u.raw(GLUE, kind="prelude")
    u.add_type(AST, "SymbolName")
    u.raw("#[derive(Clone, Copy)]  // as in the source (derive lines are dropped by the extractor)")
    u.add_type(AST, "InternedSymbolId")
    u.raw("#[verifier::external_body] pub struct SyntaxId { _o: u8 }", kind="prelude")
    u.add_type(AST, "Symbol")
    u.add_type(VAL, "Value")
    u.add_type(VAL, "Value_", rules=common.VALUE_TYPE_RULES)
    common.add_error_types(u)
    u.raw(common.FMT, kind="prelude")
    common.add_env_full(u, real_typename=True, typehint_stub=True, real_ast=("LetDestination", "ExpressionWithComma", "ParenthesizedArguments", "ParenthesizedExpression", "DictKeyValue", "Pattern", "TypeSymbol"), no_syntaxid=True)
    u.raw(common.TOP_SPEC, kind="spec")
    u.raw(common.VALUE_GLUE, kind="prelude")
    u.raw(GLUE2, kind="prelude")
    u.raw(GLUE3, kind="prelude")
    both = {"C07", "C02"}
    common.add_env_accessors(u, {"C07"}, both)
    V = "vals(*old(env))"

    u.add_fn(EV, "eval_if", rules=BASE_RULES, contract=restore_contract("1", extra_ensures=[ONE_BLOCK_MORE], body_prelude=BU, props={"C07", "C02", "C06"}))
    u.add_fn(EV, "eval_while_body", rules=BASE_RULES, contract=restore_contract("1", extra_requires=[("called_for_a_while_loop", "expr.expr_ is While")], extra_ensures=[BASE_KEPT], body_prelude=BU, props={"C07", "C02", "C06"}))
    u.add_fn(EV, "eval_boolean_binop", rules=BASE_RULES + [UNREACH], contract=restore_contract("2", extra_requires=[("is_boolean_operator", "op.kind is And || op.kind is Or")], extra_ensures=[FRAME_NEUTRAL], props={"C07", "C02", "C06"}))
    u.add_fn(EV, "eval_assert", rules=BASE_RULES, contract=restore_contract("(if recv_expr.expr_ is BinaryOperator { 3int } else { 1int })", extra_ensures=[FRAME_NEUTRAL], props={"C07", "C02", "C06"}))
    FOR_RULES = BASE_RULES + [UNREACH,
        rw.simple("R2", r">= items\.len\(\)", ">= rv_len(items)"),
        rw.simple("R2", r"\bitems\[(\w+) as usize\]\.clone\(\)", r"rv_get(items, \1 as usize).clone()"),
        rw.simple("R5", r"for \(symbol, item\) in symbols\.iter\(\)\.zip\(items\) \{", "let mut __i1: usize = 0; while __i1 < symbols.len() && __i1 < items.len() { let symbol = &symbols[__i1]; let item = &items[__i1]; __i1 += 1;"),
    ]
    u.add_fn(EV, "eval_for_in", rules=FOR_RULES, contract=restore_contract("2", extra_ensures=[BASE_KEPT], body_prelude=BU, props={"C07", "C02", "C06"},
        extra_requires=[("called_for_a_for_loop", "outer_expr.expr_ is ForIn"), ("loop_index_below_iterated_value", "*vals(*old(env))[vals(*old(env)).len() - 2].0 matches Value_::Int(i) && i >= 0")],
        loops={1: dict(invariant=[("frame", "env.stack.0@.len() >= 1, others_same(*old(env), *env), vals(*env) == vals(*old(env)).drop_last().drop_last()"), ("index_in_range", "0 <= iteree_idx < isize::MAX")], decreases="symbols@.len() - __i1")}))
    u.add_fn(EV, "eval_assign", rules=BASE_RULES, contract=restore_contract("1", extra_ensures=[("blocks_and_pending_untouched", "blocks(*final(env)) == blocks(*old(env)) && pend(*final(env)) =~= pend(*old(env))", {"C06"})], props={"C07", "C02", "C06"},
        hints=[dict(anchor="return Err", where="before", name="nothing_popped_yet", optional=True, text="proof { assert(env.stack.0@ =~= old(env).stack.0@); }"),
               dict(anchor="env.stack", where="before", name="popped_one_value", text="let ghost mid = *env;\nproof { assert(mid.stack.0@.drop_last() =~= old(env).stack.0@.drop_last()); }"),
               dict(anchor="if expr_value_is_used", where="before", name="only_bindings_changed", text="proof { assert(env.stack.0@.len() == mid.stack.0@.len()); assert(env.stack.0@.drop_last() =~= mid.stack.0@.drop_last()); }")]))
    DOT_RULES = BASE_RULES + [
        rw.simple("R4", r"for \(field_name, field_value\) in fields \{", "let mut __i1: usize = 0; while __i1 < fields.len() { let (field_name, field_value) = &fields[__i1]; __i1 += 1;"),
        rw.simple("R10", r"\*field_name == symbol\.name", "vsym_eq(field_name, &symbol.name)"),
        rw.simple("local", r"format_type_error\(\"struct\", ", "format_type_error(&\"struct\", "),
    ]
    u.add_fn(EV, "eval_dot_access", rules=DOT_RULES, contract=restore_contract("1", extra_ensures=[FRAME_NEUTRAL], props={"C07", "C02", "C06"},
        loops={1: dict(invariant=[("frame", "env.stack.0@.len() >= 1, others_same(*old(env), *env), blocks(*env) == blocks(*old(env)), pend(*env) == pend(*old(env))"),
                                  ("pushed_only_when_found", "!found ==> vals(*env) == vals(*old(env)).drop_last()")],
                       decreases="fields@.len() - __i1")}))
    OP_RULES = BASE_RULES + [UNREACH, common.CLONE,
        rw.simple("F1", r"\brhs_float == 0\.0\b", "vfl_is_zero(rhs_float)"),
        rw.simple("F1", r"\blhs_float \+ rhs_float\b", "vfl_add(lhs_float, rhs_float)"),
        rw.simple("F1", r"\blhs_float - rhs_float\b", "vfl_sub(lhs_float, rhs_float)"),
        rw.simple("F1", r"\blhs_float \* rhs_float\b", "vfl_mul(lhs_float, rhs_float)"),
        rw.simple("F1", r"\blhs_float / rhs_float\b", "vfl_div(lhs_float, rhs_float)"),
        rw.simple("local", r"Value::new\(Value_::Float\(", "Value::new(Value_::Float("),
    ]
    u.add_fn(EV, "eval_int_binop", rules=OP_RULES, contract=restore_contract("2", extra_requires=[("is_integer_operator", "op.kind is Add || op.kind is Subtract || op.kind is Multiply || op.kind is Divide || op.kind is Modulo || op.kind is Exponent || op.kind is BitwiseAnd || op.kind is BitwiseOr || op.kind is LessThan || op.kind is LessThanOrEqual || op.kind is GreaterThan || op.kind is GreaterThanOrEqual")], extra_ensures=[FRAME_NEUTRAL], props={"C07", "C02", "C06"}))
    u.add_fn(EV, "eval_float_binop", rules=OP_RULES, contract=restore_contract("2", extra_requires=[("is_float_operator", "op.kind is AddFloat || op.kind is SubtractFloat || op.kind is MultiplyFloat || op.kind is DivideFloat")], extra_ensures=[FRAME_NEUTRAL], props={"C07", "C02", "C06"}))
    SC_RULES = OP_RULES + [
        rw.simple("R2", r"String::with_capacity\(lhs_str\.len\(\) \+ rhs_str\.len\(\)\)", "vS_new_with_room(lhs_str, rhs_str)"),
        rw.simple("R2", r"out_str\.push_str\((\w+)\);", r"vS_push(&mut out_str, \1);"),
    ]
    u.add_fn(EV, "eval_string_concat", rules=SC_RULES, contract=restore_contract("2", extra_ensures=[FRAME_NEUTRAL], props={"C07", "C02", "C06"}))
    AU_RULES = BASE_RULES + [
        rw.simple("R2", r"env\.pop_value\(\)\.expect\(&format!\(\s*\"[^\"]*\",\s*op\.as_src\(\)\s*\)\)", "vexpect_value(env.pop_value())"),
    ]
    u.add_fn(EV, "eval_assign_update", rules=AU_RULES, contract=restore_contract("1", extra_ensures=[("blocks_and_pending_untouched", "blocks(*final(env)) == blocks(*old(env)) && pend(*final(env)) =~= pend(*old(env))", {"C06"}),
        # C04: `x += e` / `x -= e` leave x (what a later read of the name finds) equal to what `x = x + e` / `x = x - e` would give
        ("the_variable_reads_as_the_wrapped_sum_afterwards",
         "r is Ok ==> (get_var_result(variable, *old(env)) matches Some(v0) && *v0.0 matches Value_::Int(a) && *vals(*old(env)).last().0 matches Value_::Int(b)"
         " && b_get(top(*final(env)).bindings, variable.interned_id) matches Some(v1)"
         " && *v1.0 == Value_::Int(wrap64(if op is Add { a + b } else { a - b }) as i64))", {"C04"})], props={"C07", "C02", "C06"},
        extra_requires=[("variable_is_a_local_when_it_is_an_int", "get_var_result(variable, *old(env)) matches Some(v) && *v.0 is Int ==> b_has(top(*old(env)).bindings, variable.interned_id)")]))
    LET_RULES = BASE_RULES + [
        rw.simple("R5", r"for \(symbol, item\) in symbols\.iter\(\)\.zip\(items\) \{", "let mut __i1: usize = 0; while __i1 < symbols.len() && __i1 < items.len() { let symbol = &symbols[__i1]; let item = &items[__i1]; __i1 += 1;"),
    ]
    u.add_fn(EV, "eval_let", rules=LET_RULES, contract=restore_contract("1", extra_ensures=[("blocks_and_pending_untouched", "blocks(*final(env)) == blocks(*old(env)) && pend(*final(env)) =~= pend(*old(env))", {"C06"})], props={"C07", "C02", "C06"},
        loops={1: dict(invariant=[("frame", "stack_frame.bindings.block_bindings@.len() == top(*old(env)).bindings.block_bindings@.len()")], decreases="symbols@.len() - __i1")}))
    MC_RULES = BASE_RULES + [
        # R13c: `X.map_err(|e| BODY)` is `match X { Ok(v) => Ok(v), Err(e) => Err(BODY) }` (definition of Result::map_err)
        rw.simple("R13c", r"(eval_match_cases_on\(\s*env,\s*expr_value_is_used,\s*scrutinee_pos,\s*cases,\s*&scrutinee_value,?\s*\))\s*\.map_err\(\|e\| (\(RestoreValues\(vec!\[scrutinee_value\.clone\(\)\]\), e\))\)",
                  r"match \1 { Ok(v) => Ok(v), Err(e) => Err(\2) }"),
    ]
    SV_RULES = [
        rw.simple("S1", r"let TypeDef::Struct\(struct_info\) = type_info\.clone\(\) else \{", "let Some(struct_info) = vsv_as_struct(type_info) else {"),
        rw.simple("S2", r"let type_params: HashSet<_> = struct_info\.type_params\.iter\(\)\.map\(\|p\| &p\.name\)\.collect\(\);", "let type_params = vsv_type_params(&struct_info);"),
        rw.simple("S3", r"let mut type_arg_bindings = FxHashMap::default\(\);", "let mut type_arg_bindings = vsv_new_bindings();"),
        rw.simple("S4", r"let mut expected_fields_by_name = FxHashMap::default\(\);\s*for field_info in &struct_info\.fields \{\s*expected_fields_by_name\.insert\(&field_info\.sym\.name, field_info\.clone\(\)\);\s*\}",
                  "let mut expected_fields_by_name = vsv_fields_by_name(&struct_info);"),
        rw.simple("local", r"let mut fields = vec!\[\];", "let mut fields: Vec<(SymbolName, Value)> = Vec::new();"),
        rw.simple("local", r"let mut popped_values: Vec<Value> = vec!\[\];", "let mut popped_values: Vec<Value> = Vec::new();"),
        rw.simple("R4", r"for \(field_sym, field_expr\) in field_exprs \{", "let mut __i1: usize = 0; while __i1 < field_exprs.len() { let (field_sym, field_expr) = &field_exprs[__i1]; __i1 += 1;"),
        rw.simple("S5", r"expected_fields_by_name\.remove\(&field_sym\.name\)", "vsv_take_field(&mut expected_fields_by_name, &field_sym.name)"),
        rw.simple("S6", r"type_params\.contains\(&field_info\.hint\.sym\.name\)", "vsv_is_type_param(&type_params, &field_info)"),
        rw.simple("S7", r"type_arg_bindings\.insert\(\s*field_info\.hint\.sym\.name\.clone\(\),\s*Type::from_value\(&field_value\),\s*\);", "vsv_bind(&mut type_arg_bindings, &field_info, &field_value);"),
        rw.simple("S8", r"Type::from_hint\(&field_info\.hint, &env\.types, &type_bindings\)\.unwrap_or_err_ty\(\)", "vsv_expected_ty(&field_info, env, &type_bindings)"),
        rw.simple("R11", r"popped_values\.iter\(\)\.rev\(\)\.cloned\(\)\.collect\(\)", "vrev_cloned(&popped_values)"),
        rw.simple("S9", r"!expected_fields_by_name\.is_empty\(\)", "!vsv_none_left(&expected_fields_by_name)"),
        rw.simple("S10", r"let missing: Vec<_> = expected_fields_by_name\s*\.into_keys\(\)\s*\.map\(\|sn\| format!\(\"`\{\}`\", sn\.text\)\)\s*\.collect\(\);", "let missing = vsv_missing_names(expected_fields_by_name);"),
        rw.simple("S10", r"missing\.join\(\", \"\)", "missing"),
        rw.simple("S11", r"let mut type_args = vec!\[\];\s*for type_param in &struct_info\.type_params \{\s*let param_value = type_arg_bindings\s*\.get\(&type_param\.name\)\s*\.cloned\(\)\s*\.unwrap_or\(Type::no_value\(\)\);\s*type_args\.push\(param_value\);\s*\}",
                  "let type_args = vsv_type_args(&struct_info, &type_arg_bindings);"),
        rw.simple("R11", r"env\.current_frame\(\)\.type_bindings\.clone\(\)", "vc_clone(&env.current_frame().type_bindings)"),
        rw.simple("S12", r"Type::UserDefined \{\s*kind: TypeDefKind::Struct,\s*name: type_symbol\.name\.clone\(\),\s*args: type_args,\s*\}", "vsv_struct_type(vc_clone(&type_symbol.name), type_args)"),
    ] + BASE_RULES + [common.CLONE]
    u.add_fn(EV, "eval_struct_value", rules=SV_RULES, contract=restore_contract("field_exprs@.len()", extra_ensures=[FRAME_NEUTRAL], props={"C07", "C02", "C06"},
        loops={1: dict(invariant=[("frame", "env.stack.0@.len() >= 1, others_same(*old(env), *env), blocks(*env) == blocks(*old(env)), pend(*env) == pend(*old(env))"),
                                  ("popped_values_restore_the_stack", "vals(*old(env)) =~= vals(*env) + popped_values@.reverse()"),
                                  ("operands_left", "vals(*env).len() >= field_exprs@.len() - __i1")],
                       decreases="field_exprs@.len() - __i1")}))
    MCO_RULES = BASE_RULES + [
        rw.simple("R11", r"\bpayload\.as_ref\(\)", "vbox_ref(payload)"),
        rw.simple("R10", r"\bvalue_type_name == pattern_type_name\b", "vtn_eq(value_type_name, pattern_type_name)"),
        rw.simple("R4", r"for \(pattern, case_expr\) in cases \{", "let mut __i1: usize = 0; while __i1 < cases.len() { let (pattern, case_expr) = &cases[__i1]; __i1 += 1;"),
        rw.simple("R5", r"for \(symbol, value\) in symbols\.iter\(\)\.zip\(items\) \{", "let mut __i2: usize = 0; while __i2 < symbols.len() && __i2 < items.len() { let symbol = &symbols[__i2]; let value = &items[__i2]; __i2 += 1;"),
    ]
    u.add_fn(EV, "eval_match_cases_on", rules=MCO_RULES, contract=Contract(
        requires=[("stack_nonempty", "old(env).stack.0@.len() >= 1")],
        ensures=[("other_frames_and_values_untouched", "others_same(*old(env), *final(env)), vals(*final(env)) == vals(*old(env))", {"C07", "C06"}),
                 ("a_matching_case_pushes_one_block", "r is Ok ==> blocks(*final(env)) == blocks(*old(env)) + 1 && owners(pend(*final(env))) == owners(pend(*old(env)))", {"C06"}),
                 ("no_case_changes_nothing", "r is Err ==> blocks(*final(env)) == blocks(*old(env)) && pend(*final(env)) == pend(*old(env))", {"C06", "C07"})],
        loops={1: dict(invariant=[("nothing_changed_yet", "*env == *old(env), old(env).stack.0@.len() >= 1")], decreases="cases@.len() - __i1"),
               2: dict(invariant=[("nothing_changed_yet", "*env == *old(env), old(env).stack.0@.len() >= 1")], decreases="symbols@.len() - __i2")},
        body_prelude=BU,
        props={"C07", "C02", "C06"}))
    u.add_fn(EV, "eval_match_cases", rules=MC_RULES, contract=restore_contract("1", extra_ensures=[ONE_BLOCK_MORE], props={"C07", "C02", "C06"}))
    NS_RULES = BASE_RULES + [
        rw.simple("R2", r"\bns_info\.borrow\(\)", "vns_borrow(ns_info)"),
        rw.simple("R2", r"\bns_info\.values\.get\(&symbol\.name\)", "vns_get_value(&ns_info, &symbol.name)"),
        rw.simple("R2", r"\bns_info\.exported_syms\.contains\(&symbol\.name\)", "vns_is_exported(&ns_info, &symbol.name)"),
        rw.simple("R2", r"env\.relative_to_project\(&ns_info\.abs_path\)\.display\(\)", "vns_path_display(env, &ns_info)"),
        rw.simple("local", r"format_type_error\(\"namespace\", ", "format_type_error(&\"namespace\", "),
    ]
    RECV = "vals(*old(env)).last()"
    u.add_fn(EV, "eval_namespace_access", rules=NS_RULES, contract=restore_contract("1", extra_ensures=[
        FRAME_NEUTRAL,
        ("only_public_items_are_reachable", "*%s.0 matches Value_::Namespace { ns_info, .. } && !ns_exports(ns_info, symbol.name) ==> r is Err" % RECV, {"C34"}),
        ("yields_the_namespace_s_value", "r is Ok && expr_value_is_used ==> (*%s.0 matches Value_::Namespace { ns_info, .. } && ns_value(ns_info, symbol.name) is Some"
                                         " && vals(*final(env)) =~= vals(*old(env)).drop_last().push(ns_value(ns_info, symbol.name)->Some_0))" % RECV, {"C34"}),
    ], props={"C07", "C02", "C06", "C34"}))
    IMP_RULES = BASE_RULES + [
        rw.simple("T1", r"Rc<RefCell<NamespaceInfo>>", "NamespaceRef"),
        rw.simple("R2", r"Rc::ptr_eq\(&current_ns, &imported_ns\)", "vns_same(&current_ns, &imported_ns)"),
        rw.simple("R2", r"current_ns\s*\.borrow_mut\(\)\s*\.values\s*\.insert\(namespace_sym\.name\.clone\(\), v\);", "vns_insert(&current_ns, namespace_sym.name.clone(), v);"),
        rw.simple("R2", r"current_ns\s*\.borrow_mut\(\)\s*\.values\s*\.insert\(sym\.clone\(\), value\.clone\(\)\);", "vns_insert_imported(&current_ns, sym.clone(), value.clone(), Ghost(imported_ref));"),
        rw.simple("R2", r"let imported_ns = imported_ns\.borrow\(\);", "let ghost imported_ref = imported_ns; let imported_ns = vns_borrow(&imported_ns);"),
        rw.simple("R4", r"for \(sym, value\) in &imported_ns\.values \{", "let __entries = vns_entries(&imported_ns); let mut __i1: usize = 0; while __i1 < __entries.len() { let sym = &__entries[__i1].0; let value = &__entries[__i1].1; __i1 += 1;"),
        rw.simple("R2", r"imported_ns\.exported_syms\.contains\(sym\)", "vns_is_exported(&imported_ns, sym)"),
        rw.simple("local", r"Value::new\(Value_::Namespace \{", "Value::new(Value_::Namespace {"),
    ]
    u.add_fn(EV, "insert_imported_namespace", rules=IMP_RULES, contract=Contract(
        ensures=[("an_unqualified_import_lists_public_names_only", "namespace_sym is None ==> forall|i: int| 0 <= i < r@.len() ==> ns_exports(imported_ns, #[trigger] r@[i])", {"C34"})],
        loops={1: dict(invariant=[("only_public_names_so_far", "guard_of(&imported_ns) == imported_ref, forall|i: int| 0 <= i < syms@.len() ==> ns_exports(imported_ref, #[trigger] syms@[i])"),
                                  ("entries", "__i1 <= __entries@.len(), forall|i: int| 0 <= i < __entries@.len() ==> ns_value(imported_ref, (#[trigger] __entries@[i]).0) == Some(__entries@[i].1)")],
                       decreases="__entries@.len() - __i1")},
        props={"C34"}))
    EQ_RULES = BASE_RULES + [UNREACH,
        rw.simple("R10", r"\blhs_value == rhs_value\b", "vq_value_eq(&lhs_value, &rhs_value)"),
        rw.simple("R10", r"\blhs_value != rhs_value\b", "!vq_value_eq(&lhs_value, &rhs_value)")]
    L, R = "vals(*old(env))[vals(*old(env)).len() - 2]", "vals(*old(env)).last()"
    u.add_fn(EV, "eval_equality_binop", rules=EQ_RULES, contract=Contract(
        requires=[("stack_nonempty", "old(env).stack.0@.len() >= 1"), ("operands_on_value_stack", "vals(*old(env)).len() >= 2"),
                  ("is_equality_operator", "op.kind is Equal || op.kind is NotEqual")],
        ensures=[("equal_is_value_equality", "expr_value_is_used && op.kind is Equal ==> vals(*final(env)) =~= vals(*old(env)).drop_last().drop_last().push(bool_val(val_eq(%s, %s)))" % (L, R), {"C13"}),
                 ("not_equal_is_its_negation", "expr_value_is_used && op.kind is NotEqual ==> vals(*final(env)) =~= vals(*old(env)).drop_last().drop_last().push(bool_val(!val_eq(%s, %s)))" % (L, R), {"C13"}),
                 ("other_frames_untouched", "others_same(*old(env), *final(env))", {"C07"}), FRAME_NEUTRAL],
        props={"C13", "C02"}))
    u.add_fn(ENV, "current_frame", impl="Env", contract=Contract(
        requires=[("nonempty", "self.stack.0@.len() >= 1")],
        ensures=[("is_top", "*r == self.stack.0@.last()")], props={"C07"}))
    u.add_fn(EV, "done_subexpressions", impl="ExpressionState", contract=Contract(
        ensures=[("def", "r == (*self is EvaluatedSubexpressions)")], props={"C06"}))
    # ---- the block-handling arms of eval_expr (C06): every successful step keeps the frame's base block
    # count, i.e. every block pushed for a pending expression is popped by exactly that expression
    ARM_SIG = ("pub fn arm_%s(env: &mut Env, outer_expr: Rc<Expression>, expr_state: &mut ExpressionState)"
               " -> Result<Option<StackFrame>, (RestoreValues, EvalError)>")
    ARM_PREFIX = ("    let expr_position = outer_expr.position.clone();\n    let expr_value_is_used = outer_expr.value_is_used;\n    " + BU + "\n"
                  "    match &outer_expr.expr_ {\n")
    ARM_SUFFIX = ",\n        _ => {}\n    }\n    Ok(None)"
    ARM_RULES = BASE_RULES + [UNREACH]
    BW = "base_with(*old(env), *old(expr_state), outer_expr)"

    def arm(name, pattern, extra_requires=(), hints=None):
        u.add_block_fn(EV, "eval_expr", pattern, sig=ARM_SIG % name, name="arm_%s" % name,
                       prefix=ARM_PREFIX, suffix=ARM_SUFFIX, rules=ARM_RULES,
                       contract=Contract(
                           requires=[("stack_nonempty", "old(env).stack.0@.len() >= 1"),
                                     ("is_this_arm", "outer_expr.expr_ is %s" % name),
                                     ("one_base_block", "%s == 1" % BW)] + list(extra_requires),
                           ensures=[("block_accounting_kept", "r is Ok ==> base(*final(env)) == 1 && r->Ok_0 is None", {"C06"}),
                                    ("other_frames_untouched", "others_same(*old(env), *final(env))", {"C06"})],
                           hints=hints or [],
                           props={"C06"}, safety_props={"C02", "C06"}))
    VAL1 = ("operand_on_value_stack", "*old(expr_state) is PartiallyEvaluated ==> vals(*old(env)).len() >= 1")
    NOT_NOTBLOCK = ("state_made_by_this_dispatch", "!(*old(expr_state) matches ExpressionState::PartiallyEvaluated(BlockState::NotBlock))")
    arm("Match", "Expression_::Match(scrutinee, cases) => match expr_state {", extra_requires=[VAL1])
    arm("If", "Expression_::If(condition, ref then_body, ref else_body) => match expr_state {", extra_requires=[VAL1])
    arm("While", "Expression_::While(condition, ref body) => {", extra_requires=[VAL1, NOT_NOTBLOCK])
    arm("ForIn", "Expression_::ForIn(sym, expr, body) => {", extra_requires=[
        NOT_NOTBLOCK,
        ("index_and_value_on_value_stack", "*old(expr_state) matches ExpressionState::PartiallyEvaluated(BlockState::WillRunBlock) ==> vals(*old(env)).len() >= 2"
         " && (*vals(*old(env))[vals(*old(env)).len() - 2].0 matches Value_::Int(i) && i >= 0)")])
    arm("Try", "Expression_::Try(try_body, _catch_sym, _catch_body) => match expr_state {",
        extra_requires=[("state_made_by_this_dispatch", "!(*old(expr_state) is PartiallyEvaluated)")])
    arm("Return", "Expression_::Return(expr) => {")
    arm("Break", "Expression_::Break => {")
    arm("Continue", "Expression_::Continue => {")
    # ---- the other arms: they neither push nor pop bindings blocks, push only non-owner entries, and hand
    # back what they popped when they fail
    ARM2_SIG = ("pub fn arm_%s(env: &mut Env, session: &Session, outer_expr: Rc<Expression>, expr_state: &mut ExpressionState)"
                " -> Result<Option<StackFrame>, (RestoreValues, EvalError)>")
    ARM2_RULES = ARM_RULES + [
        rw.simple("R4", r"for arg in &paren_args\.arguments \{", "let mut __i1: usize = 0; while __i1 < paren_args.arguments.len() { let arg = &paren_args.arguments[__i1]; __i1 += 1;"),
        rw.simple("R4", r"for \(_, field_expr\) in field_exprs\.iter\(\) \{", "let mut __i1: usize = 0; while __i1 < field_exprs.len() { let field_expr = &field_exprs[__i1].1; __i1 += 1;"),
        rw.simple("local", r"Value::new\(Value_::String\(s\.clone\(\)\)\)", "Value::new_string(s.clone())"),
        rw.simple("local", r"Value::new\(Value_::Float\(f\.into_inner\(\)\)\)", "Value::new_float(f)"),
        rw.simple("R2", r"Type::from_fun_info\(fun_info, &env\.types, &env\.stack\.type_bindings\(\)\)\s*\.unwrap_or_err_ty\(\)", "vfun_runtime_type(fun_info, env)"),
        rw.simple("R11", r"stack_frame\.bindings\.block_bindings\.clone\(\)", "vc_clone(&stack_frame.bindings.block_bindings)"),
        rw.simple("R11", r"\bfun_info\.clone\(\)", "vc_clone(fun_info)"),
    ]
    PUSH_LOOP = dict(invariant=[("frame", "env.stack.0@.len() >= 1, others_same(*old(env), *env), blocks(*env) == blocks(*old(env)), vals(*env) == vals(*old(env))"),
                                ("only_non_owner_entries", "owners(pend(*env)) == owners(pend(*old(env)))")],
                     body_prelude=BU)

    def arm2(name, pattern, gname=None, nth=0, extra_requires=(), loops=None, is_arm=None, needs=None):
        gname = gname or name
        if needs:
            extra_requires = list(extra_requires) + [("operands_on_value_stack", "*old(expr_state) is EvaluatedSubexpressions ==> vals(*old(env)).len() >= %s" % needs)]
        lp = {}
        for k_, (var, bound) in (loops or {}).items():
            lp[k_] = dict(PUSH_LOOP, decreases="%s - %s" % (bound, var))
        u.add_block_fn(EV, "eval_expr", pattern, nth=nth, sig=ARM2_SIG % gname, name="arm_%s" % gname,
                       prefix=ARM_PREFIX, suffix=ARM_SUFFIX, rules=ARM2_RULES,
                       contract=Contract(
                           requires=[("stack_nonempty", "old(env).stack.0@.len() >= 1"),
                                     ("is_this_arm", is_arm or ("outer_expr.expr_ is %s" % name)),
                                     ("one_base_block", "%s == 1" % BW)] + list(extra_requires),
                           ensures=[("block_accounting_kept", "r is Ok && r->Ok_0 is None ==> base(*final(env)) == 1", {"C06"}),
                                    ("a_call_leaves_this_frame_alone", "r is Ok && r->Ok_0 is Some ==> base(*final(env)) == %s" % BW, {"C06"}),
                                    ("failed_step_hands_back_what_it_popped", "r is Err ==> restores(*old(env), *final(env), r->Err_0.0.0@)", {"C07"}),
                                    ("other_frames_untouched", "others_same(*old(env), *final(env))", {"C06"})],
                           loops=lp, props={"C06", "C07"}, safety_props=set()))
    from extract import Item, match_close, ExtractError

    def binop_arm(kind_text):
        """the `Expression_::BinaryOperator(..) => { .. }` arm of eval_expr whose pattern mentions `kind_text`"""
        src = u.source(EV)
        host = src.find_fn("eval_expr")
        toks = src.toks
        idx = [k for k, t in enumerate(toks) if host.start <= t.start < host.end]
        for a in idx:
            if not (toks[a].text == "Expression_" and toks[a + 1].text == ":" and toks[a + 3].text == "BinaryOperator" and toks[a + 4].text == "("):
                continue
            close = match_close(toks, a + 4)
            pat = src.text[toks[a].start:toks[close].end]
            if kind_text not in pat:
                continue
            j = close + 1
            while toks[j].text != "{":
                j += 1
            end = match_close(toks, j)
            return Item(src, "block", "eval_expr:BinaryOperator[%s]" % kind_text, toks[a].start, toks[end].end)
        raise ExtractError("BinaryOperator arm mentioning %s not found in eval_expr" % kind_text)

    def arm2_item(gname, item, is_arm, needs):
        u.add_item_fn(EV, item, "arm_%s" % gname, sig=ARM2_SIG % gname, prefix=ARM_PREFIX, suffix=ARM_SUFFIX, rules=ARM2_RULES,
                      contract=Contract(
                          requires=[("stack_nonempty", "old(env).stack.0@.len() >= 1"), ("is_this_arm", is_arm), ("one_base_block", "%s == 1" % BW),
                                    ("operands_on_value_stack", "*old(expr_state) is EvaluatedSubexpressions ==> vals(*old(env)).len() >= %s" % needs)],
                          ensures=[("block_accounting_kept", "r is Ok ==> base(*final(env)) == 1", {"C06"}),
                                   ("failed_step_hands_back_what_it_popped", "r is Err ==> restores(*old(env), *final(env), r->Err_0.0.0@)", {"C07"}),
                                   ("other_frames_untouched", "others_same(*old(env), *final(env))", {"C06"})],
                          props={"C06", "C07"}, safety_props=set()), qual=item.name)
    IS_BINOP = "outer_expr.expr_ is BinaryOperator"
    for (gname, kind_text) in (("IntOp", "BinaryOperatorKind::Modulo"), ("FloatOp", "BinaryOperatorKind::AddFloat"), ("Equality", "BinaryOperatorKind::NotEqual"),
                               ("BoolOp", "BinaryOperatorKind::And"), ("StringConcat", "BinaryOperatorKind::StringConcat")):
        arm2_item(gname, binop_arm(kind_text), IS_BINOP, 2)
    arm2("Assign", "Expression_::Assign(variable, expr) => {", needs=1)
    arm2("AssignUpdate", "Expression_::AssignUpdate(variable, op, expr) => {", needs=1, extra_requires=[
        ("variable_is_a_local_when_it_is_an_int", "outer_expr.expr_ matches Expression_::AssignUpdate(variable, _, _) ==> (get_var_result(&variable, *old(env)) matches Some(v) && *v.0 is Int ==> b_has(top(*old(env)).bindings, variable.interned_id))")])
    arm2("Let", "Expression_::Let(destination, hint, expr) => {", needs=1)
    arm2("IntLiteral", "Expression_::IntLiteral(i) => {")
    arm2("FloatLiteral", "Expression_::FloatLiteral(f) => {")
    arm2("StringLiteral", "Expression_::StringLiteral(s) => {")
    arm2("Variable", "Expression_::Variable(name_sym) => {")
    arm2("StructLiteral", "Expression_::StructLiteral(type_sym, field_exprs) => {", loops={1: ("__i1", "field_exprs@.len()")}, needs="outer_expr.expr_->StructLiteral_1@.len()")
    arm2("Call", "Expression_::Call(receiver, paren_args) => match expr_state {", loops={1: ("__i1", "paren_args.arguments@.len()")})
    arm2("MethodCall", "Expression_::MethodCall(receiver_expr, meth_name, paren_args) => {", loops={1: ("__i1", "paren_args.arguments@.len()")})
    arm2("DotAccess", "Expression_::DotAccess(recv, sym) => {", needs=1)
    arm2("NamespaceAccess", "Expression_::NamespaceAccess(recv, sym) => {", needs=1)
    arm2("Parentheses", "Expression_::Parentheses(paren) => {")
    arm2("FunLiteral", "Expression_::FunLiteral(fun_info) => {")
    arm2("Invalid", "Expression_::Invalid => {")
    # literal arms: pop the evaluated elements (first loop), or schedule them (second loop)
    rw.ITER_BY_VALUE_OK.add("item_exprs")
    LIT_RULES = ARM2_RULES + [
        rw.simple("T1", r"rpds::Vector<Value>", "RpdsVector<Value>"), rw.simple("T1", r"rpds::Vector::new\(\)", "RpdsVector::new()"),
        rw.simple("T1", r"rpds::HashTrieMap<String, Value>", "RpdsHashTrieMap<String, Value>"), rw.simple("T1", r"rpds::HashTrieMap::new\(\)", "RpdsHashTrieMap::new()"),
        rw.simple("R4r", r"for _ in 0\.\.items\.len\(\) \{", "let mut __i1: usize = 0; while __i1 < items.len() { __i1 += 1;"),
        rw.simple("R4", r"for item in items\.iter\(\) \{", "let mut __i2: usize = 0; while __i2 < items.len() { let item = &items[__i2]; __i2 += 1;"),
        rw.simple("R4", r"for kv in item_exprs \{", "let mut __i1: usize = 0; while __i1 < item_exprs.len() { let kv = &item_exprs[__i1]; __i1 += 1;"),
        rw.simple("R4", r"for kv in item_exprs\.iter\(\) \{", "let mut __i2: usize = 0; while __i2 < item_exprs.len() { let kv = &item_exprs[__i2]; __i2 += 1;"),
        rw.simple("R11", r"popped_values\.iter\(\)\.rev\(\)\.cloned\(\)\.collect\(\)", "vrev_cloned(&popped_values)"),
    ]
    POP_LOOP = dict(invariant=[("frame", "env.stack.0@.len() >= 1, others_same(*old(env), *env), blocks(*env) == blocks(*old(env)), pend(*env) == pend(*old(env))")])

    def lit_arm(name, pattern, seqname, extra_pop_inv=(), per_item=1):
        payload = "outer_expr.expr_->%s_0" % name
        extra_pop_inv = list(extra_pop_inv) + [("operands_left", "vals(*env).len() >= %d * (%s@.len() - __i1)" % (per_item, seqname))]
        u.add_block_fn(EV, "eval_expr", pattern, sig=ARM2_SIG % name, name="arm_%s" % name,
                       prefix=ARM_PREFIX, suffix=ARM_SUFFIX, rules=LIT_RULES,
                       contract=Contract(
                           requires=[("stack_nonempty", "old(env).stack.0@.len() >= 1"), ("is_this_arm", "outer_expr.expr_ is %s" % name), ("one_base_block", "%s == 1" % BW),
                                     ("operands_on_value_stack", "*old(expr_state) is EvaluatedSubexpressions ==> vals(*old(env)).len() >= %d * %s@.len()" % (per_item, payload))],
                           ensures=[("block_accounting_kept", "r is Ok ==> base(*final(env)) == 1", {"C06"}),
                                    ("failed_step_hands_back_what_it_popped", "r is Err ==> restores(*old(env), *final(env), r->Err_0.0.0@)", {"C07"}),
                                    ("other_frames_untouched", "others_same(*old(env), *final(env))", {"C06"})],
                           loops={1: dict(POP_LOOP, invariant=POP_LOOP["invariant"] + list(extra_pop_inv), decreases="%s@.len() - __i1" % seqname),
                                  2: dict(PUSH_LOOP, decreases="%s@.len() - __i2" % seqname)},
                           props={"C06", "C07"}, safety_props={"C02"}))
    lit_arm("ListLiteral", "Expression_::ListLiteral(items) => {", "items")
    lit_arm("TupleLiteral", "Expression_::TupleLiteral(items) => {", "items")
    lit_arm("DictLiteral", "Expression_::DictLiteral(item_exprs) => {", "item_exprs",
            extra_pop_inv=[("popped_values_restore_the_stack", "vals(*old(env)) =~= vals(*env) + popped_values@.reverse()")], per_item=2)
    arm2("Assert", "Expression_::Assert(expr) => {", extra_requires=[
        ("state_made_by_this_dispatch", "*old(expr_state) is PartiallyEvaluated ==> outer_expr.expr_->Assert_0.expr_ is BinaryOperator"),
        ("operands_on_value_stack", "(*old(expr_state) is PartiallyEvaluated ==> vals(*old(env)).len() >= 2)"
         " && (*old(expr_state) is EvaluatedSubexpressions ==> vals(*old(env)).len() >= (if outer_expr.expr_->Assert_0.expr_ is BinaryOperator { 3int } else { 1int }))")])
    u.add_canary_proof()
    u.raw(common.FOOTER)
    return u
