// ---- units/infix/specs.rs (C03): every binary operator has the same precedence and associates
// to the left.  Written from the property statement. --------------------------------------

pub open spec fn is_binop(e: Expression) -> bool { e.expr_ is BinaryOperator }

/// a chain `x1 op1 x2 .. opn xn` is grouped ((x1 op1 x2) .. ) opn xn: the right operand of every
/// operator on the spine is not itself an operator application (an explicit `(..)` is a
/// Parentheses node, hence an operand)
pub open spec fn left_spine(e: Expression) -> bool
    decreases e,
{
    match e.expr_ {
        Expression_::BinaryOperator(l, _, r) => !is_binop(*r) && left_spine(*l),
        _ => true,
    }
}

pub enum Item { Operand(Expression), Operator(BinaryOperatorKind) }

/// operands and operators in source order
pub open spec fn inorder(e: Expression) -> Seq<Item>
    decreases e,
{
    match e.expr_ {
        Expression_::BinaryOperator(l, op, r) => inorder(*l) + seq![Item::Operator(op.kind)] + inorder(*r),
        _ => seq![Item::Operand(e)],
    }
}

/// C03 in one statement: a left-spine tree evaluates its chain strictly left to right — its
/// operand/operator sequence is that of its left part, then the last operator, then ONE operand
pub proof fn lemma_left_spine_last_operand(e: Expression)
    requires left_spine(e), is_binop(e),
    ensures
        inorder(e) =~= inorder(*e.expr_->BinaryOperator_0) + seq![Item::Operator(e.expr_->BinaryOperator_1.kind)]
            + seq![Item::Operand(*e.expr_->BinaryOperator_2)],
        left_spine(*e.expr_->BinaryOperator_0),
{
    let r = *e.expr_->BinaryOperator_2;
    assert(!is_binop(r));
    assert(inorder(r) =~= seq![Item::Operand(r)]);
}
