"""Unit `infix` (C03): left_associate and parse_expression (parser.rs)."""
import os
import sys

HERE = os.path.dirname(os.path.abspath(__file__))
ROOT = os.path.dirname(os.path.dirname(HERE))
sys.path.insert(0, os.path.join(ROOT, "vc"))
sys.path.insert(0, os.path.join(ROOT, "units"))
import rewrite as rw  # noqa: E402
from gen import Contract, UnitFile  # noqa: E402
from extract import ExtractError  # noqa: E402
import common  # noqa: E402

PAR = "src/parser.rs"
AST = "src/parser/ast.rs"
RLIMIT = 100
MIN_FUNCTIONS = 2

ASSUMPTIONS = dict(common.OPAQUE_ASSUMPTIONS)
ASSUMPTIONS.update(common.AST_OPAQUE_ASSUMPTIONS)
ASSUMPTIONS.update(common.FMT_ASSUMPTIONS)
ASSUMPTIONS.update({
    "vc_clone": "Clone", "vs_string_eq_lit": "-", "vs_string_eq": "-", "vs_string_from_lit": "-",
    "TypeHint": "opaque stand-in", "SyntaxId": "opaque stand-in for parser::ast::SyntaxId", "IdGenerator": "opaque stand-in",
    "next": "IdGenerator::next returns some fresh id", "clone": "Position::clone returns an equal value",
    "merge": "Position::merge returns some position (positions are irrelevant to grouping; see unit lex for C23)",
    "vc_rc_unwrap_or_clone": "Rc::unwrap_or_clone returns the payload (or a clone equal to it)",
    "Token": "opaque stand-in for parser::lex::Token", "TokenStream": "opaque stand-in for parser::lex::TokenStream",
    "ParseError": "opaque stand-in", "pop": "TokenStream::pop (no property used)",
    "token_as_binary_op": "token_as_binary_op is a function of the token (ghost op_of); its 21-way string match is not verified",
    "parse_expression": "the recursive call of parse_expression returns an expression grouped to the left: the induction hypothesis of the property, assumed at the call (the other arms of parse_expression are not under contract)",
    "op_of": "uninterpreted ghost: the operator a token denotes",
})
LEMMAS = {"lemma_left_spine_last_operand": {"C03"}}
UNVERIFIED = {"C03": [
    "that the evaluator evaluates a left-nested BinaryOperator tree left to right (eval_expr dispatch pushes lhs then rhs) — not under contract",
    "parse_expression's other arms (call, method call, dot access, namespace access) and parse_expression_no_trailing: they wrap or produce operands, not operator applications; only the operator arm is under contract (as the call of left_associate with the recursive result)",
    "token_as_binary_op: that all 21 operator strings map to one BinaryOperator arm (uniform precedence is structural: there is a single operator arm in parse_expression)"]}

GLUE = """
#[verifier::external_body] pub struct TypeHint { _o: u8 }
#[verifier::external_body] pub struct SyntaxId { _o: u8 }
#[verifier::external_body] pub struct IdGenerator { _o: u8 }
impl IdGenerator {
    #[verifier::external_body]
    pub fn next(&mut self) -> (r: SyntaxId) { unimplemented!() }
}
impl Clone for Position {
    #[verifier::external_body]
    fn clone(&self) -> (r: Self) ensures r == *self { unimplemented!() }
}
impl Position {
    #[verifier::external_body]
    pub fn merge(first: &Self, second: &Self) -> (r: Self) { unimplemented!() }
}
#[verifier::external_body]
pub fn vc_rc_unwrap_or_clone<T>(x: Rc<T>) -> (r: T) ensures r == *x { unimplemented!() }
"""

ARM_GLUE = """
// stand-ins for what the operator arm calls (ASSUMED contracts)
#[verifier::external_body] pub struct Token { _o: u8 }
#[verifier::external_body] pub struct TokenStream { _o: u8 }
#[verifier::external_body] pub struct ParseError { _o: u8 }
pub uninterp spec fn op_of(t: Token) -> Option<BinaryOperatorSymbol>;
impl TokenStream {
    #[verifier::external_body]
    pub fn pop(&mut self) -> (r: Option<Token>) { unimplemented!() }
}
#[verifier::external_body]
pub fn token_as_binary_op(token: &Token) -> (r: Option<BinaryOperatorSymbol>)
    ensures r == op_of(*token),
{ unimplemented!() }
/// the recursive call: the induction hypothesis of C03 (result grouped to the left, non-empty)
#[verifier::external_body]
pub fn parse_expression(tokens: &mut TokenStream, id_gen: &mut IdGenerator, diagnostics: &mut Vec<ParseError>) -> (r: Expression)
    ensures left_spine(r),
{ unimplemented!() }
"""

WITNESSES = [
    {"match": r"infix\.", "kind": "run", "props": ["C03"],
     "input": "println(string_repr(2 ** 3 ** 2))\nprintln(string_repr(2 ** 2 ** 3 ** 1))\nprintln(string_repr(100 - 2 ** 3 ** 2))\nprintln(string_repr(2 ** 3 ** 2 - 1 * 2))\nprintln(string_repr(64 / 4 / 2 ** 2 ** 1))\nprintln(string_repr(7 % 4 % 2 + 2 ** 1 ** 5))",
     "expect": {"stdout": "64\n64\n885842380864\n126\n64\n243"},
     "note": "every operator, `**` included, groups to the left in a chain"},
    {"match": r"infix\.", "kind": "run", "props": ["C03"],
     "input": "println(string_repr(0.1 +. 0.2 +. 0.3))\nprintln(string_repr(10000000000000000.0 +. 1.0 +. 1.0))\nprintln(string_repr(0.1 *. 0.2 *. 0.3))\nprintln(string_repr(\"a\" ^ \"b\" ^ \"c\"))\nprintln(string_repr(8 / 4 / 2))",
     "expect": {"stdout": "0.6000000000000001\n10000000000000000.0\n0.006000000000000001\n\"abc\"\n1"},
     "note": "float operators are not associative: a chain must still group to the left"},
    {"match": r"infix\.(operator_arm|left_associate)", "kind": "run", "props": ["C03"],
     "input": "println(string_repr(10 - 1 - 1 - 1))\nprintln(string_repr(100 / 2 / 5 / 2))\nprintln(string_repr(2 * 3 + 4 - 1 * 2))\nprintln(string_repr(10 - (1 - 1) - 1))\nprintln(string_repr(1 - 2 - 3 - 4 - 5))",
     "expect": {"stdout": "7\n5\n18\n9\n-13"}, "note": "chains of three or more operators group to the left"},
    {"match": r"infix\.", "kind": "run", "props": ["C03"],
     "input": "fun pick(n: Int): Int { n }\nprintln(string_repr(1 + (10 - 3 - 2)))\nprintln(string_repr(1 + pick(100 / 10 / 5)))\nprintln(string_repr(1 + [20 - 5 - 3].len() + [10 - 3 - 2].get(0).or_value(0)))\n"
              "println(string_repr(1 + if True { 10 - 3 - 2 } else { 0 }))\nprintln(\"v=\" ^ string_repr(10 - 3 - 2))\nprintln(string_repr(2 * (1 + (10 - 3 - 2 - 1))))\nprintln(string_repr((10 - 3 - 2) * 2))\n"
              "println(string_repr(1 + match Some(9) { Some(v) => v - 3 - 2, None => 0 }))\nprintln(string_repr(1 + (fun(k: Int) { k - 3 - 2 })(10)))\n",
     "expect": {"stdout": "6\n3\n7\n6\nv=5\n10\n10\n5\n6"},
     "note": "a chain nested in parentheses, call arguments, a list, an if / match / closure body inside the right operand of another operator still groups to the left"},
]


def build(tier):
    u = UnitFile("infix")
    u.raw(common.HEADER)
    u.raw(common.prelude("strings.rs"), kind="prelude")
    u.raw(common.OPAQUE, kind="prelude")
    u.raw(GLUE, kind="prelude")
    common.add_ast_types(u)
    u.add_fn(AST, "new", impl="Expression", contract=Contract(
        ensures=[("fields", "r.expr_ == expr_ && r.position == position && r.id == id")], props={"C03"}))
    u.raw(open(os.path.join(HERE, "specs.rs")).read(), kind="spec")
    # left_associate exists since the C03 fix; on a tree without it the operator arm alone decides
    try:
        u.source(PAR).find_fn("left_associate")
        has_helper = True
    except ExtractError:
        has_helper = False
    if has_helper:
      u.add_fn(PAR, "left_associate",
             rules=[rw.simple("R11", r"Rc::unwrap_or_clone\(", "vc_rc_unwrap_or_clone(")],
             contract=Contract(
                 requires=[("lhs_grouped", "left_spine(lhs)"), ("rhs_grouped", "left_spine(rhs)")],
                 ensures=[("grouped_left", "left_spine(r)"), ("is_operator", "is_binop(r)"),
                          ("same_sequence", "inorder(r) =~= inorder(lhs) + seq![Item::Operator(op.kind)] + inorder(rhs)")],
                 decreases="rhs",
                 props={"C03"}))
    # the operator arm of parse_expression, as an anchored block.  The recursive call is used through
    # the contract this arm is meant to maintain (the induction hypothesis): its result is grouped left.
    u.raw(ARM_GLUE, kind="prelude")
    u.add_block_fn(
        PAR, "parse_expression", "Some(token) if token_as_binary_op(&token).is_some() => {",
        sig=("pub fn operator_arm(mut expr: Expression, token: Token, tokens: &mut TokenStream, id_gen: &mut IdGenerator, "
             "diagnostics: &mut Vec<ParseError>) -> Expression"),
        name="operator_arm",
        prefix="match Some(token) {\n", suffix="\n _ => {} }\n    expr",
        contract=Contract(
            requires=[("chain_so_far_grouped", "left_spine(expr)"), ("is_operator", "op_of(token) is Some")],
            ensures=[("grouped_left", "left_spine(r)"),
                     ("extends_chain", "exists|rhs: Expression| left_spine(rhs) && #[trigger] inorder(rhs).len() >= 1 && inorder(r) =~= inorder(expr) + seq![Item::Operator(op_of(token)->Some_0.kind)] + inorder(rhs)")],
            props={"C03"}))
    u.add_canary_proof()
    u.raw(common.FOOTER)
    return u
