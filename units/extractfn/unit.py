"""Unit `extractfn` (C20, extract-function half): the text splices of extract_single_expr and extract_exprs
(src/extract_function.rs): given the spans the AST search found (the top-level item and the selected expression or
run of expressions) and the free variables, the result is the source with the text of the new function and a newline
inserted before the item, and the selection replaced by `NAME(<the free variables, comma separated>)` (in braces when it replaces an `else if`); every other
character is kept.  The free-variable analysis is unit `freevars`; that the new program behaves the same is checked
on a corpus only (freevars.bounded[extract_function_corpus])."""
import os
import sys

HERE = os.path.dirname(os.path.abspath(__file__))
ROOT = os.path.dirname(os.path.dirname(HERE))
sys.path.insert(0, os.path.join(ROOT, "vc"))
sys.path.insert(0, os.path.join(ROOT, "units"))
import rewrite as rw  # noqa: E402
from gen import Contract, UnitFile  # noqa: E402
import common  # noqa: E402

XF = "src/extract_function.rs"
POS = "src/parser/position.rs"
VFS = "src/parser/vfs.rs"
RLIMIT = 100
MIN_FUNCTIONS = 2

ASSUMPTIONS = {
    "axiom_clen": "char::len_utf8 is between 1 and 4, and 1 for ASCII", "axiom_clen16": "-", "axiom_len_bound": "a str is at most isize::MAX bytes long",
    "vt_len": "-", "vt_slice": "&s[a..b]: panics unless both are char boundaries; the chars between them", "vt_slice_from": "&s[a..]",
    "vt_find_char": "(unused here)", "vt_rfind_char": "(unused here)", "vt_utf16_count": "(unused here)",
    "vtc_len_utf8": "-", "vtc_len_utf16": "-", "vu_min": "-", "CharIndices": "(unused here)", "vt_char_indices": "(unused here)", "next": "(unused here)",
    "vc_clone": "-", "vs_string_eq_lit": "-", "vs_string_eq": "-", "vs_string_from_lit": "-",
    "PathBuf": "opaque", "VfsId": "opaque", "ExprView": "the `position` field of an ast::Expression",
    "SymbolName": "opaque", "SyntaxId": "opaque", "Type": "opaque", "TyMap": "opaque stand-in for FxHashMap<SyntaxId, Type>", "get": "FxHashMap::get",
    "vS_new": "String::new() is the empty text", "vS_push_str": "String::push_str appends the text", "vS_as_str": "String as &str: the same text",
    "extracted_fun_src": "for the two splices the text of the new function is an uninterpreted function `fun_src` of its arguments; its last step (signature parts, then the selected text as it is, then the closing brace) is under contract as fun_src_text, how the signature parts are rendered (iterator adapters over the parameters and their types) is not",
    "vjoin_names": "`params.iter().map(|(p, _)| p.text.clone()).collect::<Vec<String>>().join(\", \")`: the parameter names joined with `, ` (uninterpreted `joined_names`)",
}
LEMMAS = {k: {"C20"} for k in ("lemma_off_step", "lemma_off_zero", "lemma_off_mono", "lemma_off_inj", "lemma_cix", "lemma_cix_props",
                              "lemma_blen_concat", "lemma_off_sub", "lemma_u16_bounds", "lemma_u16_split")}
UNVERIFIED = {"C20": [
    "extract-function: which spans are used (parsing, find_item_at, find_expr_of_id, find_block_selection), that they nest on character boundaries as the preconditions say, and the text of the new function itself (extracted_fun_src)",
]}

GLUE = """
#[verifier::external_body] pub struct PathBuf { _o: u8 }
#[verifier::external_body] pub struct VfsId { _o: u8 }
#[verifier::external_body] pub struct SymbolName { _o: u8 }
#[verifier::external_body] pub struct SyntaxId { _o: u8 }
#[verifier::external_body] pub struct Type { _o: u8 }
#[verifier::external_body] pub struct TyMap { _o: u8 }
pub uninterp spec fn ty_of(m: TyMap, id: SyntaxId) -> Option<Type>;
impl TyMap {
    #[verifier::external_body]
    pub fn get(&self, id: &SyntaxId) -> (r: Option<&Type>)
        ensures r is Some <==> ty_of(*self, *id) is Some, r is Some ==> *r->Some_0 == ty_of(*self, *id)->Some_0,
    { unimplemented!() }
}
pub open spec fn opt_ty(o: Option<&Type>) -> Option<Type> { match o { Some(t) => Some(*t), None => None } }
#[verifier::external_body]
pub fn vS_new() -> (r: String) ensures r@ == Seq::<char>::empty() { unimplemented!() }
#[verifier::external_body]
pub fn vS_push_str(s: &mut String, t: &str) ensures final(s)@ == old(s)@ + t@ { unimplemented!() }
#[verifier::external_body]
pub fn vS_as_str(s: &String) -> (r: &str) ensures r@ == s@ { unimplemented!() }
/// the text of the new function
pub uninterp spec fn fun_src(src: Seq<char>, name: Seq<char>, return_ty: Option<Type>, body_start: usize, body_end: usize, params: Seq<(SymbolName, Option<Type>)>) -> Seq<char>;
/// the parameter names joined with `, `
pub uninterp spec fn joined_names(params: Seq<(SymbolName, Option<Type>)>) -> Seq<char>;
#[verifier::external_body]
pub fn extracted_fun_src(src: &str, name: &str, return_ty: Option<&Type>, body_start: usize, body_end: usize, params: &Vec<(SymbolName, Option<Type>)>) -> (r: String)
    ensures r@ == fun_src(src@, name@, opt_ty(return_ty), body_start, body_end, params@),
{ unimplemented!() }
#[verifier::external_body]
pub fn vjoin_names(params: &Vec<(SymbolName, Option<Type>)>) -> (r: String) ensures r@ == joined_names(params@) { unimplemented!() }
"""
GLUE2 = """
/// the part of ast::Expression these functions read
pub struct ExprView { pub position: Position }
"""


def build(tier):
    u = UnitFile("extractfn")
    u.raw(common.HEADER)
    u.raw(common.prelude("strings.rs"), kind="prelude")
    u.raw(common.prelude("text.rs"), kind="prelude")
    u.raw(GLUE, kind="prelude")
    u.add_type(VFS, "VfsPathBuf")
    u.add_type(POS, "Position")
    u.raw(GLUE2, kind="prelude")
    c20 = {"C20"}
    RULES = [
        # R9g: `format!("{}\n", extracted_fun_src(ARGS))` is the function's text and a newline
        rw.simple("R9g", r"result\.push_str\(&format!\(\s*\"\{\}\\n\",\s*extracted_fun_src\(((?:[^()]|\([^()]*\))*?),?\s*\),?\s*\)\);",
                  r'{ let __f = extracted_fun_src(\1); vS_push_str(&mut result, vS_as_str(&__f)); vS_push_str(&mut result, "\\n"); }'),
        rw.simple("R2j", r"let arguments_src = params\s*\.iter\(\)\s*\.map\(\|\(param, _\)\| param\.text\.clone\(\)\)\s*\.collect::<Vec<String>>\(\)\s*\.join\(\", \"\);",
                  "let arguments_src = vjoin_names(&params);"),
        # R9h: `format!("{name}({arguments_src})")` is NAME ( ARGS )
        rw.simple("R9h", r"result\.push_str\(&format!\(\"\{name\}\(\{arguments_src\}\)\"\)\);",
                  'vS_push_str(&mut result, name); vS_push_str(&mut result, "("); vS_push_str(&mut result, vS_as_str(&arguments_src)); vS_push_str(&mut result, ")");'),
        rw.simple("R2", r"result\.push_str\((\"[^\"]*\")\);", r"vS_push_str(&mut result, \1);"),
        rw.simple("R7", r"result\.push_str\(\s*&src\[\.\.([\w\.]+)\],?\s*\);", r"vS_push_str(&mut result, vt_slice(src, 0, \1));"),
        rw.simple("R7", r"result\.push_str\(\s*&src\[([\w\.]+)\.\.([\w\.]+)\],?\s*\);", r"vS_push_str(&mut result, vt_slice(src, \1, \2));"),
        rw.simple("R7", r"result\.push_str\(\s*&src\[([\w\.]+)\.\.\],?\s*\);", r"vS_push_str(&mut result, vt_slice_from(src, \1));"),
    ]
    cb = lambda x: "is_cbt(src@, %s as int)" % x
    ci = lambda x: "cix(src@, %s as int)" % x

    def splice(within, sig, I0, I1, S0, S1, ret_ty, braces):
        lb, rb = (('(if needs_braces { "{ "@ } else { Seq::<char>::empty() }) + ', ' + (if needs_braces { " }"@ } else { Seq::<char>::empty() })') if braces else ("", ""))
        pts = (I0, I1, S0, S1)
        u.add_range_fn(XF, within, "result.push_str(&src[..item_pos.start_offset]);", "result.push_str(&src[item_pos.end_offset..]);",
                       sig=sig, prefix="    let mut result = vS_new();\n", suffix="\n    result", rules=RULES,
                       contract=Contract(
                           requires=[("spans_nest_in_the_text", "%s <= %s <= %s <= %s <= blen_cs(src@)" % (I0, S0, S1, I1)),
                                     ("on_boundaries", ", ".join(cb(x) for x in pts))],
                           ensures=[("new_function_before_the_item_and_a_call_in_place_of_the_selection",
                                     "result@ == src@.subrange(0, %s) + fun_src(src@, name@, %s, %s, %s, params@) + \"\\n\"@ + src@.subrange(%s, %s)"
                                     " + %sname@ + \"(\"@ + joined_names(params@) + \")\"@%s + src@.subrange(%s, src@.len() as int)"
                                     % (ci(I0), ret_ty, S0, S1, ci(I0), ci(S0), lb, rb, ci(S1)))],
                           body_prelude="proof { lemma_cix(src@, 0); lemma_off_zero(src@); lemma_cix(src@, src@.len() as int);\n"
                                        + "".join("    lemma_cix_props(src@, %s as int);\n" % x for x in pts)
                                        + "    if %s > %s { lemma_off_mono(src@, %s, %s); } if %s > %s { lemma_off_mono(src@, %s, %s); } if %s > %s { lemma_off_mono(src@, %s, %s); } }"
                                        % (ci(I0), ci(S0), ci(S0), ci(I0), ci(S0), ci(S1), ci(S1), ci(S0), ci(S1), ci(I1), ci(I1), ci(S1)),
                           ret="result", props=c20))

    splice("extract_single_expr",
           "pub fn extract_single_splice(src: &str, name: &str, id_to_ty: &TyMap, expr_id: SyntaxId, item_pos: &Position, expr: &ExprView, params: Vec<(SymbolName, Option<Type>)>, needs_braces: bool) -> (result: String)",
           "item_pos.start_offset", "item_pos.end_offset", "expr.position.start_offset", "expr.position.end_offset", "ty_of(*id_to_ty, expr_id)", True)
    splice("extract_exprs",
           "pub fn extract_exprs_splice(src: &str, name: &str, return_ty: Option<&Type>, item_pos: &Position, body_start: usize, body_end: usize, params: Vec<(SymbolName, Option<Type>)>) -> (result: String)",
           "item_pos.start_offset", "item_pos.end_offset", "body_start", "body_end", "opt_ty(return_ty)", False)
    # the text of the new function: the selected text is copied as it is between the signature and the closing brace
    FS_RULE = rw.simple("R9x", r'format!\(\s*"fun \{\}\{\}\(\{\}\)\{\} \{\{\\n  \{\}\\n\}\}\\n",\s*name,\s*type_params_signature,\s*params_signature,\s*return_signature,\s*&src\[body_start\.\.body_end\],?\s*\)',
                        '{ let mut __r = vS_new(); vS_push_str(&mut __r, "fun "); vS_push_str(&mut __r, name); vS_push_str(&mut __r, vS_as_str(&type_params_signature)); vS_push_str(&mut __r, "("); '
                        'vS_push_str(&mut __r, vS_as_str(&params_signature)); vS_push_str(&mut __r, ")"); vS_push_str(&mut __r, vS_as_str(&return_signature)); vS_push_str(&mut __r, " {\\n  "); '
                        'vS_push_str(&mut __r, vt_slice(src, body_start, body_end)); vS_push_str(&mut __r, "\\n}\\n"); __r }')
    u.add_range_fn(XF, "extracted_fun_src", "format!(\"fun {}{}({}){} {{\\n  {}\\n}}\\n\"", "&src[body_start..body_end]",
                   sig="pub fn fun_src_text(src: &str, name: &str, type_params_signature: String, params_signature: String, return_signature: String, body_start: usize, body_end: usize) -> (result: String)",
                   rules=[FS_RULE],
                   contract=Contract(
                       requires=[("span_in_the_text", "body_start <= body_end <= blen_cs(src@), %s, %s" % (cb("body_start"), cb("body_end")))],
                       ensures=[("signature_then_the_selected_text_as_it_is_then_the_closing_brace",
                                 "result@ == \"fun \"@ + name@ + type_params_signature@ + \"(\"@ + params_signature@ + \")\"@ + return_signature@ + \" {\\n  \"@ + src@.subrange(%s, %s) + \"\\n}\\n\"@" % (ci("body_start"), ci("body_end")))],
                       body_prelude="proof { lemma_cix_props(src@, body_start as int); lemma_cix_props(src@, body_end as int); if %s > %s { lemma_off_mono(src@, %s, %s); } }" % (ci("body_start"), ci("body_end"), ci("body_end"), ci("body_start")),
                       ret="result", props=c20))
    u.add_canary_proof()
    u.raw(common.FOOTER)
    return u
