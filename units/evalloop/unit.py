"""Unit `evalloop`: the step loop `eval` (eval.rs) with restore_stack_frame and the Env accessors.
C08 (an interrupted / limited step leaves the stack exactly as it found it) and C25 (with a tick
limit the loop terminates)."""
import os
import re
import sys

HERE = os.path.dirname(os.path.abspath(__file__))
ROOT = os.path.dirname(os.path.dirname(HERE))
sys.path.insert(0, os.path.join(ROOT, "vc"))
sys.path.insert(0, os.path.join(ROOT, "units"))
import rewrite as rw  # noqa: E402
from gen import Contract, UnitFile  # noqa: E402
import common  # noqa: E402

EV = "src/eval.rs"
ENV = "src/env.rs"
RLIMIT = 200
MIN_FUNCTIONS = 10

ASSUMPTIONS = dict(common.OPAQUE_ASSUMPTIONS)
ASSUMPTIONS.update(common.FMT_ASSUMPTIONS)
ASSUMPTIONS.update(common.ENV_OPAQUE_ASSUMPTIONS)
ASSUMPTIONS.update(common.ENV_STRUCT_ASSUMPTIONS)
ASSUMPTIONS.update(common.AST_OPAQUE_ASSUMPTIONS)
ASSUMPTIONS.update({
    "vc_clone": "Clone / Rc::clone returns an equal value", "vs_string_eq_lit": "-", "vs_string_eq": "-", "vs_string_from_lit": "std to_owned",
    "Value": "opaque stand-in for values::Value", "clone": "Clone returns an equal value",
    "unit": "Value::unit() returns some value", "new_string": "Value::new(Value_::String(s)) builds some value",
    "default": "BlockBindings::default()",
    "Type": "opaque stand-in for garden_type::Type",
    "AtomicFlag": "opaque stand-in for Arc<AtomicBool>", "TypeHintRest": "the fields of TypeHint other than `position` (not read by eval)", "StdoutStderrMode": "opaque stand-in", "Instant": "opaque stand-in",
    "va_load": "AtomicBool::load returns some bool (the flag is set by other threads: nondeterministic)",
    "va_store": "AtomicBool::store has no effect on the evaluator state",
    "va_swap": "AtomicBool::swap returns some bool and has no effect on the evaluator state",
    "vu_is_multiple_of": "usize::is_multiple_of (no property used)",
    "eval_expr": "eval_expr (eval.rs:6412-7058 and everything it calls) is NOT verified: assumed to terminate, to keep at least one stack frame and the same number of frames, and to leave ticks, tick_limit and stack_limit unchanged; it may do anything else to env",
    "from_hint": "Type::from_hint returns some Result and does not touch env",
    "check_type": "check_type returns some Result and does not touch env",
    "vq_stop_at_is": "Option<SyntaxId> == Some(&id) (no property used)",
    "vq_opt_id_eq": "Option<SyntaxId> == Option<SyntaxId> (no property used)",
    "vv_last_cloned": "slice::last().cloned() returns the last element if any",
})
LEMMAS = {}
UNVERIFIED = {
    "C09": ["of the evaluator loop only the early error exits are under contract for C09 (every `return Err(EvalError::..)` and every `?` of eval leaves the stack as the step found it, so a session can resume or abort after it); the command handlers are in unit session"],
    "C07": ["only the two error exits of the return-type check in eval's frame-pop branch are under contract here (the value a finished call returns stays on the value stack when its type check fails); the step functions are in units restore and steps"],
    "C08": ["that a resumed evaluation continues identically: follows from the stack being equal only if eval_expr is a function of the stack (unverified)",
            "output interleaving; who sets the interrupted flag (nrepl/json session threads)"],
    "C25": ["termination of each eval_expr step (blocking built-ins such as read_line, see C24; loops inside built-ins)",
            "native stack overflow in Value::display / drop on deeply nested values",
            "that playground-run / sandboxed-test set tick_limit (two assignments in sandboxed_playground.rs / test_runner.rs)"],
}

_POKE = 'import "__shell.gdn" as shell\n\nfun poke() { shell::run("sh", ["-c", "kill -SIG $PPID; sleep 0.3"]) }\n'
INTERRUPT_PROGRAMS = [
    {"what": "interrupt mid-program and on the last toplevel expression", "defs": _POKE,
     "body": 'println("a")\npoke()\nprintln("b")\nshell::run("sh", ["-c", "kill -SIG $PPID; sleep 0.3; echo done"])\n', "resumes": 3},
    {"what": "interrupt inside a loop in a function", "defs": _POKE + 'fun work(): Int {\n  let total = 0\n  let i = 0\n  while i < 4 {\n    if i == 2 { poke() }\n    total += i\n    i += 1\n  }\n  total\n}\n',
     "body": 'println(string_repr(work()))\nwork() + 1\n', "resumes": 4},
    {"what": "interrupt as the last expression of a callee", "defs": _POKE + 'fun last(): Int {\n  println("in")\n  poke()\n  7\n}\n',
     "body": 'let x = last()\nprintln(string_repr(x))\nx * 2\n', "resumes": 3},
    {"what": "interrupt inside nested calls and a for loop", "defs": _POKE + 'fun inner(n: Int): Int {\n  if n == 1 { poke() }\n  n * 10\n}\nfun outer(): List<Int> {\n  let out: List<Int> = []\n  for n in [0, 1, 2] {\n    out = out.append(inner(n))\n  }\n  out\n}\n',
     "body": 'println(string_repr(outer()))\nstring_repr(outer())\n', "resumes": 4},
    {"what": "interrupt while the tail expression of a function is running (seen at the frame return)", "defs": _POKE + 'fun tail_poke() { shell::run("sh", ["-c", "kill -SIG $PPID; sleep 0.3; echo out"]) }\nfun twice(): Int { tail_poke() tail_poke() 5 }\n',
     "body": 'let r = tail_poke()\nprintln(string_repr(r))\nprintln(string_repr(twice()))\n40 + 2\n', "resumes": 5},
    {"what": "only the final step is interrupted", "defs": _POKE,
     "body": 'println("x")\npoke()\n', "resumes": 2},
    {"what": "a buffer evaluated with its file path, interrupted between two toplevel expressions that call a function of that file", "with_path": True,
     "body": 'import "__shell.gdn" as shell\nfun step(n: Int) { println(string_repr(n)) }\nstep(1)\nshell::run("sh", ["-c", "kill -SIG $PPID; sleep 0.3"])\nstep(2)\nstep(3)\n', "resumes": 3}
]
SANDBOX_PROGRAMS = [
    'println(string_repr("abc".split("")))\n', 'println("ab".replace("", "-"))\n', 'while True {}\n',
    'fun f(): Int { f() }\nf()\n', 'let xs: List<Int> = []\nwhile True { xs = xs.append(1) }\n',
    'fun g(n: Int): Int { if n == 0 { 0 } else { 1 + g(n - 1) } }\nprintln(string_repr(g(100000)))\n',
    'let s = "a"\nwhile True { s = s ^ s }\n', 'fun h(xs: List<Int>): Int { h(xs.append(1)) }\nh([])\n',
    'let i = 0\nwhile True { i += 1 [i].map(fun(x) { x + 1 }) }\n',
    'println(string_repr([1, 2, 3].map(fun(x) { while True {} x })))\n',
]
WITNESSES = [
    {"match": r"evalloop\.eval\.site\[unbound_return_type", "kind": "resume-corpus", "props": ["C07"], "expect": {},
     "input": [{"what": "a function whose return type hint names no type, resumed", "session": ["fun f(): Nosuch { 1 }", "f()"], "resumes": 3}]},
    {"match": r"evalloop\.eval\.site\[wrong_return_type", "kind": "resume-corpus", "props": ["C07"], "expect": {},
     "input": [{"what": "a function returning a value of the wrong type, resumed", "session": ["fun g(): String { 1 }", "g()"], "resumes": 3}]},
    {"match": r"evalloop\.eval\.", "kind": "interrupt-session", "props": ["C08"], "input": INTERRUPT_PROGRAMS, "timeout": 60},
    {"match": r"evalloop\.eval\.site\[early_exit_(question_mark|Exception)", "kind": "resume-corpus", "props": ["C07", "C09"], "expect": {},
     "input": [{"what": "a function whose return type hint names no type, resumed three times", "session": ["fun f(): Nosuch { 1 }", "f()"], "resumes": 3},
               {"what": "a return type hint with an unknown type argument", "session": ["fun f2(): Option<Nosuch> { Some(1) }", "f2()"], "resumes": 3},
               {"what": "a function returning a value of the wrong type, resumed three times", "session": ["fun g(): String { 1 }", "g()"], "resumes": 3},
               {"what": "a generic function whose result fails the return check", "session": ["fun untyped(x) { x }", "fun wrap<T>(x: T): List<T> { untyped(x) }", "wrap(1)"], "resumes": 3}]},
    {"match": r"evalloop\.eval\.", "kind": "json-session", "props": ["C09"], "timeout": 60,
     "input": ["fun f(): NoSuchTy { 1 }", "f()", ":resume", ":resume", ":abort", "1 + 1"],
     "expect": {"py": "(lambda n: '' if n >= 6 and 'panicked' not in err else 'only %d responses for 6 requests (a failed return-type check, two resumes, abort, 1 + 1): ' % n + (out + err)[-300:])(len([o for o in jsons(full_out) if isinstance(o, dict)]))"},
     "note": "a failing return-type check resumed twice: the session must still answer"},
] + [
    # C25: a sandboxed run of a non-terminating program must end (limit error) well within the timeout
    {"match": r"evalloop\.eval_with_tick_limit\.", "kind": "playground", "props": ["C25"], "input": prog, "timeout": 20,
     "expect": {"py": "'' if ('limit' in out or 'error' in out) else 'no limit error reported: ' + out[-200:]"}}
    for prog in SANDBOX_PROGRAMS
]

BOUNDED = [
    {"name": "interrupt_sessions", "kind": "interrupt-session", "props": ["C08"], "input": INTERRUPT_PROGRAMS, "n_inputs": len(INTERRUPT_PROGRAMS), "timeout": 120,
     "bound": "%d listed programs that interrupt their own interpreter at a known step (mid-program, inside loops and nested calls, at a frame return, on the last step, and in a buffer evaluated with its file path) and are resumed: printed output and result must equal those of the uninterrupted session" % len(INTERRUPT_PROGRAMS),
     "expect": {}},
]

GLUE = """
#[verifier::external_body] pub struct Value { _o: u8 }
impl Clone for Value {
    #[verifier::external_body]
    fn clone(&self) -> (r: Self) ensures r == *self { unimplemented!() }
}
impl Clone for Position {
    #[verifier::external_body]
    fn clone(&self) -> (r: Self) ensures r == *self { unimplemented!() }
}
impl Value {
    #[verifier::external_body]
    pub fn unit() -> (r: Self) { unimplemented!() }
    #[verifier::external_body]
    pub fn new_string<T>(s: T) -> (r: Self) { unimplemented!() }
}
#[verifier::external_body] pub struct Type { _o: u8 }
#[verifier::external_body] pub struct AtomicFlag { _o: u8 }
#[verifier::external_body] pub struct StdoutStderrMode { _o: u8 }
#[verifier::external_body] pub struct Instant { _o: u8 }
#[verifier::external_body]
pub fn va_load(f: &AtomicFlag) -> (r: bool) { unimplemented!() }
#[verifier::external_body]
pub fn va_store(f: &AtomicFlag, v: bool) { unimplemented!() }
#[verifier::external_body]
pub fn va_swap(f: &AtomicFlag, v: bool) -> (r: bool) { unimplemented!() }
#[verifier::external_body]
pub fn vu_is_multiple_of(a: usize, b: usize) -> (r: bool) { unimplemented!() }
"""

GLUE2 = """
impl BlockBindings {
    #[verifier::external_body]
    pub fn default() -> (r: Self) { unimplemented!() }
}
impl Clone for TypeVarEnv {
    #[verifier::external_body]
    fn clone(&self) -> (r: Self) ensures r == *self { unimplemented!() }
}
// eval_expr and everything below it: ASSUMED frame (see ASSUMPTIONS)
#[verifier::external_body]
pub fn eval_expr(env: &mut Env, session: &Session, outer_expr: Rc<Expression>, expr_state: &mut ExpressionState)
    -> (r: Result<Option<StackFrame>, (RestoreValues, EvalError)>)
    requires old(env).stack.0@.len() >= 1,
    ensures
        final(env).stack.0@.len() == old(env).stack.0@.len(),
        final(env).ticks == old(env).ticks,
        final(env).tick_limit == old(env).tick_limit,
        final(env).stack_limit == old(env).stack_limit,
{ unimplemented!() }
impl Type {
    #[verifier::external_body]
    pub fn from_hint(hint: &TypeHint, types: &OpaqueMap<TypeName, TypeDefAndMethods>, type_bindings: &TypeVarEnv) -> (r: Result<Type, String>) { unimplemented!() }
}
#[verifier::external_body]
pub fn check_type(value: &Value, expected: &Type, env: &Env) -> (r: Result<(), ErrorMessage>) { unimplemented!() }
#[verifier::external_body]
pub fn vq_stop_at_is(a: &Option<SyntaxId>, id: &SyntaxId) -> (r: bool) { unimplemented!() }
#[verifier::external_body]
pub fn vq_opt_id_eq(a: &Option<SyntaxId>, b: &Option<SyntaxId>) -> (r: bool) { unimplemented!() }
#[verifier::external_body]
pub fn vv_last_cloned(v: &Vec<Value>) -> (r: Option<Value>)
    ensures r is Some <==> v@.len() > 0,
{ unimplemented!() }
"""

SPECS = """
/// C08: the stack as the interrupted / limited step found it
pub open spec fn same_stack(a: Seq<StackFrame>, b: Seq<StackFrame>) -> bool {
    a.len() == b.len() && a.len() >= 1 && a.drop_last() == b.drop_last()
    && a.last().exprs_to_eval@ =~= b.last().exprs_to_eval@
    && a.last().evalled_values@ =~= b.last().evalled_values@
    && a.last() == (StackFrame { exprs_to_eval: a.last().exprs_to_eval, evalled_values: a.last().evalled_values, ..b.last() })
}

/// C25: the budget left, as a termination measure
pub open spec fn ticks_left(env: Env) -> nat {
    match env.tick_limit {
        Some(l) => if env.ticks < l { (l - env.ticks) as nat } else { 0 },
        None => 0,
    }
}
"""

RULES = [
    rw.simple("R2", r"session\.interrupted\.load\(Ordering::SeqCst\)", "va_load(&session.interrupted)"),
    rw.simple("R2", r"session\.interrupted\.store\((\w+), Ordering::SeqCst\)", r"va_store(&session.interrupted, \1)"),
    rw.simple("R2", r"session\.interrupted\.swap\((\w+), Ordering::SeqCst\)", r"va_swap(&session.interrupted, \1)"),
    rw.simple("R2", r"env\.ticks\.is_multiple_of\(([0-9_]+)\)", r"vu_is_multiple_of(env.ticks, \1)"),
    rw.simple("R10", r"env\.stop_at_expr_id\.as_ref\(\) == Some\(&outer_expr\.id\)", "vq_stop_at_is(&env.stop_at_expr_id, &outer_expr.id)"),
    rw.simple("R10", r"env\.stop_at_expr_id == env\.current_frame\(\)\.caller_expr_id", "vq_opt_id_eq(&env.stop_at_expr_id, &env.current_frame().caller_expr_id)"),
    rw.simple("R2", r"env\.current_frame\(\)\.evalled_values\.last\(\)\.cloned\(\)", "vv_last_cloned(&env.current_frame().evalled_values)"),
    rw.simple("local", r"Value::new\(Value_::String\(", "Value::new_string(("),
    rw.simple("R11", r"Rc::clone\(&(\w+)\)", r"vc_clone(&\1)"),
    rw.simple("R11", r"(\"[^\"]*\")\.to_owned\(\)", r"vs_string_from_lit(\1)"),
    "R4e", common.r9,
]

SESSION_RULES = [rw.simple("T1", r"Arc<AtomicBool>", "AtomicFlag")]


def build(tier):
    u = UnitFile("evalloop")
    u.raw(common.HEADER)
    u.raw(common.prelude("strings.rs"), kind="prelude")
    u.raw(common.OPAQUE, kind="prelude")
    u.raw(GLUE, kind="prelude")
    common.add_error_types(u)
    u.raw(common.FMT, kind="prelude")
    common.add_env_full(u, typehint_stub=True)
    u.add_type(EV, "Session", rules=SESSION_RULES)
    u.raw(common.TOP_SPEC, kind="spec")
    u.raw(SPECS, kind="spec")
    u.raw(GLUE2, kind="prelude")
    both = {"C08", "C25"}
    common.add_env_accessors(u, both)
    u.add_fn(ENV, "current_frame", impl="Env", contract=Contract(
        requires=[("nonempty", "self.stack.0@.len() >= 1")],
        ensures=[("is_top", "*r == self.stack.0@.last()")], props=both))
    u.add_fn(EV, "done_subexpressions", impl="ExpressionState", contract=Contract(
        ensures=[("def", "r == (*self is EvaluatedSubexpressions)")], props=both))
    rw.ITER_BY_VALUE_OK.add("evalled_values")
    u.add_fn(EV, "restore_stack_frame", rules=["R4"], contract=Contract(
        requires=[("nonempty", "old(env).stack.0@.len() >= 1")],
        ensures=[("values_back", "top(*final(env)).evalled_values@ =~= top(*old(env)).evalled_values@ + evalled_values@"),
                 ("step_back", "top(*final(env)).exprs_to_eval@ =~= top(*old(env)).exprs_to_eval@.push(expr_to_eval)"),
                 ("rest_same", "top(*final(env)) == (StackFrame { exprs_to_eval: top(*final(env)).exprs_to_eval, evalled_values: top(*final(env)).evalled_values, ..top(*old(env)) })"),
                 ("others", "final(env).stack.0@.len() == old(env).stack.0@.len() && final(env).stack.0@.drop_last() == old(env).stack.0@.drop_last()"),
                 ("env_rest", "*final(env) == (Env { stack: final(env).stack, ..*old(env) })")],
        loops={1: dict(invariant=[
            ("prefix", "__i1 <= evalled_values@.len(), old(env).stack.0@.len() >= 1, env.stack.0@.len() == old(env).stack.0@.len(), env.stack.0@.drop_last() == old(env).stack.0@.drop_last()"),
            ("pushed", "top(*env).evalled_values@ =~= top(*old(env)).evalled_values@ + evalled_values@.take(__i1 as int)"),
            ("same", "top(*env) == (StackFrame { evalled_values: top(*env).evalled_values, ..top(*old(env)) }) && *env == (Env { stack: env.stack, ..*old(env) })")],
            decreases="evalled_values@.len() - __i1")},
        props=both))
    SNAP = "let ghost snap = env.stack.0@;"
    SAME = ("assert(env.stack.0@.len() == snap.len());\n"
            "assert(env.stack.0@.drop_last() == snap.drop_last());\n"
            "assert(top(*env) == (StackFrame { exprs_to_eval: top(*env).exprs_to_eval, evalled_values: top(*env).evalled_values, ..snap.last() }));\n"
            "assert(top(*env).evalled_values@ =~= snap.last().evalled_values@);\n"
            "assert(top(*env).exprs_to_eval@ =~= snap.last().exprs_to_eval@);\n"
            "assert(same_stack(env.stack.0@, snap));")
    SAME_RET = "proof { if snap.last().evalled_values@.len() > 0 {\n" + SAME + "\n} }"
    # every early `return Err(EvalError::..)` of eval (interrupt, limits, the return-type check) must leave the
    # stack as the step found it; the sites are found in the source on every run, so a new early exit is covered
    # too.  Exits after `let return_value = env.pop_value().expect(..)` are checked under "the value stack was
    # not empty" (otherwise that `expect` has already panicked).
    body = u.source(EV).find_fn("eval").text
    cut = body.find("let return_value")
    SITES = []
    seen = {}
    for m_ in re.finditer(r"return Err\(EvalError::(\w+)", body):
        variant = m_.group(1)
        k_ = seen.get(variant, 0)
        seen[variant] = k_ + 1
        after_pop = cut >= 0 and m_.start() > cut
        legacy = {("Interrupted", 0): "interrupt_restores_step", ("ReachedTickLimit", 0): "tick_limit_restores_step",
                  ("ReachedStackLimit", 0): "stack_limit_restores_step", ("Exception", 0): "unbound_return_type_keeps_return_value",
                  ("Exception", 1): "wrong_return_type_keeps_return_value"}
        name = legacy.get((variant, k_), "early_exit_%s_%d_restores_step" % (variant, k_ + 1))
        SITES.append(dict(anchor="return Err(EvalError::%s" % variant, where="before", nth=k_, name=name,
                          props={"C07", "C09"} if variant == "Exception" else {"C08"}, text=SAME_RET if after_pop else SAME))
    # a `?` in eval is an early exit too: `let X = E?;` / `E?;` is rewritten (rule Rq) into its definition
    # `match E { Ok(v) => v, Err(e) => return Err(e) }` so that the same assertion can be placed before the return
    QRX = re.compile(r"(?P<lhs>let\s+(?:mut\s+)?\w+(?:\s*:\s*[^=;]+?)?\s*=\s*)?(?P<e>(?<![\w)\]])\b[\w:]+(?:\([^;]*?\)|\.[\w]+(?:\([^;]*?\))?)*)\?\s*;")
    q_positions = [m_.start() for m_ in QRX.finditer(body)]

    def rq(text):
        n = [0]

        def repl(m_):
            n[0] += 1
            lhs = m_.group("lhs") or ""
            return "%smatch %s { Ok(__v) => __v, Err(__e) => { return Err(__e); } };" % (lhs, m_.group("e"))
        return QRX.sub(repl, text), n[0]
    rq.rule_id = "Rq"
    for k_, pos_ in enumerate(q_positions):
        after_pop = cut >= 0 and pos_ > cut
        SITES.append(dict(anchor="return Err(__e);", where="before", nth=k_, name="early_exit_question_mark_%d_restores_step" % (k_ + 1),
                          props={"C07", "C08", "C09"}, text=SAME_RET if after_pop else SAME))
    PROFILE_LOOP = dict(invariant=[("idx", "__i1 <= env.stack.0@.len()")], decreases="env.stack.0@.len() - __i1")
    u.add_fn(EV, "eval", rules=[rq] + RULES, contract=Contract(
        requires=[("nonempty", "old(env).stack.0@.len() >= 1")],
        # an interrupted / limited evaluation is resumed by calling eval again; eval's first statement
        # returns Unit at once when only the toplevel frame is left and it has nothing to evaluate, so
        # stopping in such a state would lose the result of the run
        ensures=[("stop_leaves_a_pending_step",
                  "(r matches Err(EvalError::Interrupted) || r matches Err(EvalError::ReachedTickLimit(_)) || r matches Err(EvalError::ReachedStackLimit(_)))"
                  " ==> !(final(env).stack.0@.len() == 1 && top(*final(env)).exprs_to_eval@.len() == 0)")],
        attrs=["#[verifier::exec_allows_no_decreases_clause]"],
        hints=SITES,
        loops={1: dict(body_prelude=SNAP, invariant=[("nonempty", "env.stack.0@.len() >= 1")]),
               2: PROFILE_LOOP},
        props={"C08"}, safety_props=set(), canary=False))
    u.add_fn(EV, "eval", rename="eval_with_tick_limit", rules=RULES, contract=Contract(
        requires=[("nonempty", "old(env).stack.0@.len() >= 1"), ("tick_limit_set", "old(env).tick_limit is Some"),
                  ("ticks_in_range", "old(env).ticks < usize::MAX")],
        loops={1: dict(invariant=[("nonempty", "env.stack.0@.len() >= 1"), ("limit_kept", "env.tick_limit == old(env).tick_limit, env.tick_limit is Some, env.ticks < usize::MAX")],
                       decreases="ticks_left(*env), env.stack.0@.len()"),
               2: PROFILE_LOOP},
        props={"C25"}, safety_props=set(), canary=False))
    u.add_canary_proof()
    u.raw(common.FOOTER)
    return u
