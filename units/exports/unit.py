"""Unit `exports` (C34): which names a file exports.  load_toplevel_items_ (src/eval.rs) as an export slice
(vc/exportslice.py): loading a `public fun` puts its name into the namespace's exported_syms, loading a fun that is
not public takes it out, and no other kind of item touches exported_syms; plus the frame: nothing else in the crate
writes exported_syms."""
import glob
import os
import re
import sys

HERE = os.path.dirname(os.path.abspath(__file__))
ROOT = os.path.dirname(os.path.dirname(HERE))
sys.path.insert(0, os.path.join(ROOT, "vc"))
sys.path.insert(0, os.path.join(ROOT, "units"))
from gen import UnitFile, Tag  # noqa: E402
from extract import ExtractError, skeleton_hash  # noqa: E402
import exportslice  # noqa: E402
import common  # noqa: E402

EV = "src/eval.rs"
AST = "src/parser/ast.rs"
RLIMIT = 60
MIN_FUNCTIONS = 1

ASSUMPTIONS = {
    "nondet": "a dropped condition may go either way", "nondet_u8": "a dropped match may take any arm",
}
LEMMAS = {}
UNVERIFIED = {"C34": [
    "the export slice keeps only control flow, the kind of the item, the visibility match and the touches of `exported_syms`: that the name inserted / removed is the name of the fun being loaded, and that the namespace is the one of the file being loaded, is read off the two statements, not proved",
    "calls made while loading an item (update_built_in_fun_info, Env::add_method, Env::add_type, the recursive load of an imported file) are taken not to touch this namespace's exported_syms; the frame clause checks that no function other than load_toplevel_items_ mentions a write to `exported_syms` anywhere under src/",
    "the type checker's infer_namespace_access (the check-time half of C34) reads the same exported_syms set; its body is not under contract",
]}

GLUE = """
#[verifier::external_body]
pub fn nondet() -> (r: bool) { unimplemented!() }
#[verifier::external_body]
pub fn nondet_u8() -> (r: u8) { unimplemented!() }
/// what one loaded item did to its namespace's exported names: 0 nothing, 1 the name was inserted, 2 the name was removed
pub fn export_insert(e: u8) -> (r: u8) requires e == 0 ensures r == 1 { 1 }
pub fn export_remove(e: u8) -> (r: u8) requires e == 0 ensures r == 2 { 2 }
/// any other use of exported_syms while loading an item
pub fn export_other(e: u8) -> (r: u8) requires false { e }
"""

_LIB = "public fun shown(): Int { 1 }\nfun hidden(): Int { 2 }\npublic fun both(): Int { 3 }\nstruct Circle { r: Int }\npublic method hidden(this: Circle): Int { 4 }\nmethod both(this: Circle): Int { 5 }\ntest hidden { assert(True) }\n"
WITNESSES = [
    {"match": r"exports\.", "kind": "run-dir", "props": ["C34"], "input": "",
     "files": {"lib.gdn": _LIB, "main.gdn": "import \"./lib.gdn\" as lib\nprintln(string_repr(lib::shown()))\nprintln(string_repr(lib::both()))\nprintln(string_repr(lib::hidden()))\n"},
     "main": "main.gdn",
     "expect": {"py": "('1' not in out and 'the public fun `shown` is not reachable: ' + (out + err)[-200:]) or ('3' not in out and 'the public fun `both` (a non-public method has the same name) is not reachable: ' + (out + err)[-200:]) or ('2' in out.split() and 'the non-public fun `hidden` (a public method and a test have the same name) ran through lib::hidden') or ''"},
     "note": "a fun and a method (and a test) of the same name with different visibility: only the fun's own visibility counts"},
    {"match": r"exports\.", "kind": "run-dir", "props": ["C34"], "input": "",
     "files": {"lib.gdn": _LIB, "main.gdn": "import \"./lib.gdn\"\nprintln(string_repr(shown()))\nprintln(string_repr(both()))\nprintln(string_repr(hidden()))\n"},
     "main": "main.gdn",
     "expect": {"py": "('1' not in out and 'the public fun `shown` is not imported: ' + (out + err)[-200:]) or ('3' not in out and 'the public fun `both` is not imported: ' + (out + err)[-200:]) or ('2' in out.split() and 'the non-public fun `hidden` ran through an unqualified import') or ''"},
     "note": "the same through an unqualified import"},
    {"match": r"exports\.", "kind": "check", "props": ["C34"], "filename": "main.gdn", "input": "import \"./lib.gdn\" as lib\nlib::hidden()\n", "extra_files": {"lib.gdn": _LIB},
     "expect": {"py": "('hidden' not in out + err and '`garden check` accepts lib::hidden although `hidden` is not public: ' + (out + err)[-200:]) or ''"},
     "note": "check time"},
]


_COLORS = "public enum Color { Red, Green, Shade(Int) }\nenum Hidden { Secret }\npublic fun show(c: Color): String {\n  match c {\n    Red => \"red\"\n    Green => \"green\"\n    Shade(n) => \"shade \" ^ string_repr(n)\n  }\n}\n"
_UTIL = "public fun helper(): Int { 10 }\nfun inner(): Int { 11 }\n"
_SHAPES = ("import \"./util.gdn\" as util\nenum Shape { Circle, Square(Int) }\npublic fun area(n: Int): Int { n * util::helper() }\nfun secret(): Int { 2 }\n")
PROJECTS = [
    {"what": "a file that imports itself (unqualified)", "files": {"main.gdn": "import \"./main.gdn\"\npublic fun f(): Int { 1 }\nprintln(string_repr(f()))\n"}, "main": "main.gdn", "run_contains": ["1"]},
    {"what": "a file that imports itself under an alias", "files": {"main.gdn": "import \"./main.gdn\" as me\npublic fun f(): Int { 1 }\nprintln(string_repr(me::f()))\n"}, "main": "main.gdn", "run_contains": ["1"]},
    {"what": "two files that import each other", "files": {"a.gdn": "import \"./b.gdn\"\npublic fun fa(): Int { 1 }\nprintln(string_repr(fb()))\n", "b.gdn": "import \"./a.gdn\"\npublic fun fb(): Int { fa() + 1 }\n"},
     "main": "a.gdn", "cmds": ["check"]},
    {"what": "a private fun of a file in a two-file cycle, imported unqualified", "files": {"a.gdn": "import \"./b.gdn\"\npublic fun a_pub(): Int { 1 }\nprintln(string_repr(b_pub()))\nprintln(string_repr(b_secret()))\n", "b.gdn": "import \"./a.gdn\" as a\npublic fun b_pub(): Int { a::a_pub() + 1 }\nfun b_secret(): Int { 7 }\n"},
     "main": "a.gdn", "run_contains": ["b_secret"], "run_not_contains": ["7"], "check_contains": ["b_secret"]},
    {"what": "a private fun of a file in a two-file cycle of unqualified imports", "files": {"a.gdn": "import \"./b.gdn\"\npublic fun a_pub(): Int { 1 }\nfun a_secret(): Int { 9 }\nprintln(string_repr(b_secret()))\n", "b.gdn": "import \"./a.gdn\"\npublic fun b_pub(): Int { 2 }\nfun b_secret(): Int { 7 }\nfun peek(): Int { a_secret() }\n"},
     "main": "a.gdn", "run_contains": ["b_secret"], "run_not_contains": ["7"], "check_contains": ["b_secret"]},
    {"what": "a private fun reached from a file that is in a cycle with its owner (b -> c -> b), checked from c", "files": {"a.gdn": "import \"./b.gdn\" as b\nprintln(string_repr(b::fb()))\n", "b.gdn": "import \"./c.gdn\" as c\npublic fun fb(): Int { 1 }\nfun b_secret(): Int { 7 }\n", "c.gdn": "import \"./b.gdn\"\npublic fun fc(): Int { b_secret() }\n"},
     "main": "c.gdn", "cmds": ["check"], "check_contains": ["b_secret"]},
    {"what": "a name defined public first and private later in the imported file (the later definition is the live one), through an alias", "files": {"shapes.gdn": "public fun scale(n: Int): Int { n * 2 }\nfun scale(n: Int): Int { n * 1000 }\n", "main.gdn": "import \"./shapes.gdn\" as shapes\nprintln(string_repr(shapes::scale(3)))\n"},
     "main": "main.gdn", "run_not_contains": ["3000"], "check_contains": ["scale"]},
    {"what": "the same, imported unqualified", "files": {"shapes.gdn": "public fun scale(n: Int): Int { n * 2 }\nfun scale(n: Int): Int { n * 1000 }\n", "main.gdn": "import \"./shapes.gdn\"\nprintln(string_repr(scale(3)))\n"},
     "main": "main.gdn", "run_not_contains": ["3000"], "check_contains": ["scale"]},
    {"what": "a name defined private first and public later", "files": {"shapes.gdn": "fun scale(n: Int): Int { n * 1000 }\npublic fun scale(n: Int): Int { n * 2 }\n", "main.gdn": "import \"./shapes.gdn\" as shapes\nprintln(string_repr(shapes::scale(3)))\n"},
     "main": "main.gdn", "cmds": ["run"], "run_contains": ["6"]},
    {"what": "a cycle of three files with aliases", "files": {"a.gdn": "import \"./b.gdn\" as b\npublic fun fa(): Int { 1 }\nprintln(string_repr(b::fb()))\n", "b.gdn": "import \"./c.gdn\" as c\npublic fun fb(): Int { c::fc() + 1 }\n", "c.gdn": "import \"./a.gdn\" as a\npublic fun fc(): Int { 5 }\n"},
     "main": "a.gdn", "cmds": ["check"]},
    {"what": "the same missing file imported twice", "files": {"main.gdn": "import \"./nope.gdn\"\nimport \"./nope.gdn\" as n\nprintln(\"x\")\n"}, "main": "main.gdn", "cmds": ["check"], "check_contains": ["No such file"]},
    {"what": "a non-public fun reached through an alias", "files": {"util.gdn": _UTIL, "main.gdn": "import \"./util.gdn\" as util\nprintln(string_repr(util::inner()))\n"}, "main": "main.gdn",
     "check_contains": ["inner"], "run_contains": ["not marked as"]},
    {"what": "a variant of a non-public enum reached through an alias", "files": {"util.gdn": _UTIL, "shapes.gdn": _SHAPES, "main.gdn": "import \"./shapes.gdn\" as shapes\nprintln(string_repr(shapes::Circle))\n"}, "main": "main.gdn",
     "check_contains": ["Circle"], "run_contains": ["not marked as"]},
    {"what": "a variant constructor of a non-public enum reached through an alias", "files": {"util.gdn": _UTIL, "shapes.gdn": _SHAPES, "main.gdn": "import \"./shapes.gdn\" as shapes\nprintln(string_repr(shapes::Square(3)))\n"}, "main": "main.gdn",
     "check_contains": ["Square"], "run_contains": ["not marked as"]},
    {"what": "the imported file's own import alias reached through an alias", "files": {"util.gdn": _UTIL, "shapes.gdn": _SHAPES, "main.gdn": "import \"./shapes.gdn\" as shapes\nprintln(string_repr(shapes::util))\n"}, "main": "main.gdn",
     "check_contains": ["util"], "run_contains": ["not marked as"]},
    {"what": "a public fun that uses its file's private items", "files": {"util.gdn": _UTIL, "shapes.gdn": _SHAPES, "main.gdn": "import \"./shapes.gdn\" as shapes\nprintln(string_repr(shapes::area(2)))\n"}, "main": "main.gdn",
     "run_contains": ["20"], "check_not_contains": ["Error"]},
    # names that are in scope in the imported file without being its definitions
    {"what": "a function the imported file itself imported unqualified, reached through the alias",
     "files": {"c.gdn": "public fun c_pub(): String { \"from c\" }\n", "b.gdn": "import \"./c.gdn\"\npublic fun b_pub(): String { c_pub() }\n",
               "main.gdn": "import \"./b.gdn\" as b\nprintln(b::b_pub())\nprintln(\"sec\" ^ \"ond \" ^ b::c_pub())\n"}, "main": "main.gdn",
     "check_contains": ["c_pub"], "run_contains": ["from c", "not marked as"], "run_not_contains": ["second from c"]},
    {"what": "a prelude function reached through the alias",
     "files": {"b.gdn": "public fun b_pub(): String { \"b\" }\n", "main.gdn": "import \"./b.gdn\" as b\nprintln(b::b_pub())\nb::println(\"thr\" ^ \"ough\")\n"}, "main": "main.gdn",
     "check_contains": ["println"], "run_contains": ["not marked as"], "run_not_contains": ["through"]},
    # a public enum: its variants and constructors are definitions the file marks public
    {"what": "a variant of a public enum reached through an alias", "files": {"colors.gdn": _COLORS, "main.gdn": "import \"./colors.gdn\" as colors\nprintln(colors::show(colors::Red))\nprintln(colors::show(colors::Shade(3)))\n"}, "main": "main.gdn",
     "run_contains": ["red", "shade 3"], "check_not_contains": ["Error", "Red", "Shade"]},
    {"what": "a variant of a public enum through an unqualified import", "files": {"colors.gdn": _COLORS, "main.gdn": "import \"./colors.gdn\"\nprintln(show(Red))\nprintln(show(Shade(4)))\n"}, "main": "main.gdn",
     "run_contains": ["red", "shade 4"], "check_not_contains": ["Error", "Red", "Shade"]},
    {"what": "a variant of a non-public enum next to a public one, through an alias", "files": {"colors.gdn": _COLORS, "main.gdn": "import \"./colors.gdn\" as colors\nprintln(string_repr(colors::Secret))\n"}, "main": "main.gdn",
     "check_contains": ["Secret"], "run_contains": ["not marked as"]},
    {"what": "a variant of a non-public enum next to a public one, unqualified", "files": {"colors.gdn": _COLORS, "main.gdn": "import \"./colors.gdn\"\nprintln(string_repr(Secret))\n"}, "main": "main.gdn",
     "check_contains": ["Secret"], "run_not_contains": ["Secret\n"]},
    {"what": "an enum made public first and redefined non-public later", "files": {"colors.gdn": "public enum Color { Red }\nenum Color { Red }\n", "main.gdn": "import \"./colors.gdn\" as colors\nprintln(string_repr(colors::Red))\n"}, "main": "main.gdn",
     "check_contains": ["Red"], "run_contains": ["not marked as"]},
]
BOUNDED = [
    {"name": "import_projects", "kind": "project-corpus", "props": ["C34"], "input": PROJECTS, "n_inputs": len(PROJECTS),
     "bound": "%d listed projects (self-imports, import cycles of two and three files, a missing file imported twice, non-public functions, enum variants, constructors and import aliases reached through an alias, a public function using private items): check and run must not crash or hang, and report the visibility error where one is due" % len(PROJECTS),
     "expect": {}},
]


def _variants(src_text, enum):
    m = re.search(r"\benum\s+%s\s*\{" % enum, src_text)
    if not m:
        raise ExtractError("enum %s not found" % enum)
    depth, i = 0, m.end() - 1
    start = i
    while True:
        if src_text[i] == "{":
            depth += 1
        elif src_text[i] == "}":
            depth -= 1
            if depth == 0:
                break
        i += 1
    body = src_text[start + 1:i]
    body = re.sub(r"//[^\n]*", "", body)
    names, depth, cur = [], 0, ""
    for ch in body:
        if ch in "([{":
            depth += 1
        elif ch in ")]}":
            depth -= 1
        if ch == "," and depth == 0:
            names.append(cur)
            cur = ""
        else:
            cur += ch
    names.append(cur)
    out = []
    for n in names:
        n = re.sub(r"#\[[^\]]*\]", "", n).strip()
        mm = re.match(r"(\w+)", n)
        if mm:
            out.append(mm.group(1))
    return out


def other_writers(repo_src_dir, host_file, host_span):
    """(file, line) of every write to `exported_syms` outside load_toplevel_items_"""
    rx = re.compile(r"\bexported_syms\b\s*(\.\s*(insert|remove|clear|retain|extend|drain|take|replace)\s*\(|=[^=]|\.\s*borrow_mut)|&mut\s+[\w.()]*\bexported_syms\b")
    hits = []
    for fp in sorted(glob.glob(os.path.join(repo_src_dir, "**", "*.rs"), recursive=True)):
        text = open(fp, encoding="utf-8").read()
        for m in rx.finditer(text):
            if os.path.abspath(fp) == os.path.abspath(host_file) and host_span[0] <= m.start() < host_span[1]:
                continue
            # `exported_syms: FxHashSet::default()` in a struct literal is a fresh empty set, not a write to an existing one
            hits.append((os.path.relpath(fp, os.path.dirname(repo_src_dir)), text.count("\n", 0, m.start()) + 1))
    return hits


import findings  # noqa: E402
for _fn, _fp, _fb in findings.C34_PROJECTS:
    BOUNDED.append({"name": _fn, "kind": "project-corpus", "props": ["C34"], "input": [_fp], "n_inputs": 1, "bound": _fb, "expect": {}})


def build(tier):
    u = UnitFile("exports")
    u.raw(common.HEADER)
    u.raw(GLUE, kind="prelude")
    props = {"C34"}
    src = u.source(EV)
    ast = u.source(AST)
    kinds = _variants(ast.text, "ToplevelItem")
    viss = _variants(ast.text, "Visibility")
    if "Fun" not in kinds or "Public" not in viss or len(viss) != 2:
        raise ExtractError("ToplevelItem / Visibility variants are not as the contract expects: %r / %r" % (kinds, viss))
    u.raw("#[derive(Clone, Copy, PartialEq, Eq)] pub enum ItemKind { %s }\n#[derive(Clone, Copy, PartialEq, Eq)] pub enum Vis { %s }" % (", ".join(kinds), ", ".join(viss)), kind="prelude")
    host = src.find_fn("load_toplevel_items_")
    toks = src.toks
    idx = [k for k, t in enumerate(toks) if host.start <= t.start < host.end]
    mk = None
    for k in idx:
        if toks[k].text == "match" and (toks[k + 1].text == "&" and toks[k + 2].text == "item" and toks[k + 3].text == "{"
                                        or toks[k + 1].text == "item" and toks[k + 2].text == "{"):
            o = k + 3 if toks[k + 1].text == "&" else k + 2
            tmp = exportslice.ExportSlicer(src)
            if re.search(r"\bToplevelItem\s*::\s*Fun\b", tmp.text(o, tmp.close(o))):
                mk = k
                break
    if mk is None:
        raise ExtractError("`match &item {` not found in load_toplevel_items_")
    sl = exportslice.ExportSlicer(src)
    end = sl.control(mk, idx[-1], "    ")
    if sl.n_kind_matches < 1 or "Fun" not in sl.kinds_seen:
        raise ExtractError("load_toplevel_items_: no match on the kind of item with a `ToplevelItem::Fun` arm found")
    gname = "slice_load_item"
    u.fn_props[gname] = props
    u.safety_props[gname] = props
    u.items.append({"name": "load_toplevel_items_ (export slice of the per-item match)", "generated_as": gname, "kind": "slice", "where": host.where,
                    "sha256_16": host.sha(), "skeleton": "-"})
    line0 = src.line_of(toks[mk].start)
    # the slice drops every condition: a failure in a restructured match counts only if an input reproduces it
    u.skeletons[gname] = skeleton_hash(src.text[toks[mk].start:toks[end - 1].end])
    u.raw("#[verifier::exec_allows_no_decreases_clause]", fn=gname, props=props)
    u.emit("pub fn %s(kind: ItemKind, vis: Vis) -> (e: u8)" % gname, Tag("repo", fn=gname, repo_file=EV, repo_line=line0, props=props))
    u.raw("    ensures", fn=gname, props=props)
    private = [v for v in viss if v != "Public"][0]
    for (name, text) in (("public_fun_is_exported", "kind == ItemKind::Fun && vis == Vis::Public ==> e == 1"),
                         ("other_fun_is_not_exported", "kind == ItemKind::Fun && vis == Vis::%s ==> e == 2" % private),
                         ("only_a_fun_changes_the_exported_names", "kind != ItemKind::Fun ==> e == 0")):
        oid = "exports.%s.post[%s]" % (gname, name)
        u.clauses.append((oid, props, text))
        u.emit("        " + text + ",", Tag("contract", fn=gname, clause=oid, props=props))
    u.emit("{", Tag("repo", fn=gname, repo_file=EV, repo_line=line0, props=props))
    u.emit("    let mut e: u8 = 0;", Tag("glue", fn=gname, props=props))
    for (ln_text, ln_no) in sl.out:
        u.emit(ln_text, Tag("repo", fn=gname, repo_file=EV, repo_line=ln_no, props=props))
    u.emit("    e", Tag("glue", fn=gname, props=props))
    u.emit("}", Tag("repo", fn=gname, repo_file=EV, repo_line=line0, props=props))
    # ---- the variants of an enum: after every item is loaded, each variant becomes a value of the namespace; the
    # variants of a public enum are exported, those of any other enum are not (a later non-public redefinition wins)
    vk = None
    for k in idx:
        if toks[k].text == "for" and k > end and re.match(r"for\s*\(\s*variant_idx\s*,\s*variant_sym\s*\)\s+in\s+enum_info\s*\.\s*variants",
                                                       src.text[toks[k].start:toks[k].start + 120]):
            vk = k
            break
    span2 = (0, 0)
    if vk is None:
        raise ExtractError("the loop over `enum_info.variants` after the per-item match was not found in load_toplevel_items_")
    ob = vk
    while toks[ob].text != "{":
        ob += 1
    sl2 = exportslice.ExportSlicer(src)
    cb = sl2.close(ob)
    sl2.block(ob + 1, cb, "    ")
    span2 = (toks[ob].start, toks[cb].end)
    g2 = "slice_load_enum_variant"
    u.fn_props[g2] = props
    u.safety_props[g2] = props
    u.items.append({"name": "load_toplevel_items_ (export slice of the loop that makes the variants of an enum values)", "generated_as": g2, "kind": "slice",
                    "where": host.where, "sha256_16": host.sha(), "skeleton": "-"})
    l2 = src.line_of(toks[vk].start)
    u.skeletons[g2] = skeleton_hash(src.text[toks[vk].start:toks[cb].end])
    u.raw("#[verifier::exec_allows_no_decreases_clause]", fn=g2, props=props)
    u.emit("pub fn %s(vis: Vis) -> (e: u8)" % g2, Tag("repo", fn=g2, repo_file=EV, repo_line=l2, props=props))
    u.raw("    ensures", fn=g2, props=props)
    for (name, text) in (("variant_of_a_public_enum_is_exported", "vis == Vis::Public ==> e == 1"),
                         ("variant_of_another_enum_is_not_exported", "vis == Vis::%s ==> e == 2" % private)):
        oid = "exports.%s.post[%s]" % (g2, name)
        u.clauses.append((oid, props, text))
        u.emit("        " + text + ",", Tag("contract", fn=g2, clause=oid, props=props))
    u.emit("{", Tag("repo", fn=g2, repo_file=EV, repo_line=l2, props=props))
    u.emit("    let mut e: u8 = 0;", Tag("glue", fn=g2, props=props))
    for (ln_text, ln_no) in sl2.out:
        u.emit(ln_text, Tag("repo", fn=g2, repo_file=EV, repo_line=ln_no, props=props))
    u.emit("    e", Tag("glue", fn=g2, props=props))
    u.emit("}", Tag("repo", fn=g2, repo_file=EV, repo_line=l2, props=props))
    # every mention of exported_syms inside load_toplevel_items_ lies in one of the two slices
    span1 = (toks[mk].start, toks[end - 1].end)
    stray = [m.start() for m in re.finditer(r"\bexported_syms\b", host.text)
             if not (span1[0] <= host.start + m.start() < span1[1] or span2[0] <= host.start + m.start() < span2[1])]
    f2 = "load_toplevel_items_touches_exported_syms_only_in_the_slices"
    u.fn_props[f2] = props
    u.skeletons[f2] = skeleton_hash(host.text)
    u.items.append({"name": "load_toplevel_items_ (mentions of exported_syms outside the two slices)", "generated_as": f2, "kind": "structural",
                    "where": host.where, "sha256_16": host.sha(), "skeleton": u.skeletons[f2]})
    oid = "exports.%s.post[no_mention_outside_the_slices]" % f2
    u.clauses.append((oid, props, "stray == 0"))
    u.emit("pub fn %s() -> (stray: u64)" % f2, Tag("repo", fn=f2, repo_file=EV, repo_line=host.line0, props=props))
    u.raw("    ensures", fn=f2, props=props)
    u.emit("        stray == 0,", Tag("contract", fn=f2, clause=oid, props=props))
    u.emit("{ %d }" % len(stray), Tag("repo", fn=f2, repo_file=EV, repo_line=host.line0, props=props))
    # frame: no other writer of exported_syms anywhere in the crate
    repo_src = os.path.dirname(src.path)
    hits = other_writers(repo_src, src.path, (host.start, host.end))
    fname = "frame_exported_syms"
    u.fn_props[fname] = props
    u.items.append({"name": "every write to NamespaceInfo.exported_syms under src/", "generated_as": fname, "kind": "slice", "where": "src/**/*.rs",
                    "sha256_16": "-", "skeleton": "-"})
    # (a new writer is necessarily a new mention: reported only when an input shows a wrongly exported name)
    mentions = []
    for fp in sorted(glob.glob(os.path.join(repo_src, "**", "*.rs"), recursive=True)):
        text = open(fp, encoding="utf-8").read()
        for m in re.finditer(r"\bexported_syms\b", text):
            fns = re.findall(r"^\s*(?:pub(?:\([a-z]+\))?\s+)?fn\s+(\w+)", text[:m.start()], re.M)
            mentions.append("%s:%s" % (os.path.basename(fp), fns[-1] if fns else "-"))
    import hashlib
    u.skeletons[fname] = hashlib.sha256(" ".join(mentions).encode()).hexdigest()[:12]
    oid = "exports.%s.post[only_load_toplevel_items_writes_exported_syms]" % fname
    u.clauses.append((oid, props, "other_writers == 0"))
    where = hits[0] if hits else (EV, host.line0)
    u.emit("pub fn %s() -> (other_writers: u64)" % fname, Tag("repo", fn=fname, repo_file=where[0], repo_line=where[1], props=props))
    u.raw("    ensures", fn=fname, props=props)
    u.emit("        other_writers == 0,", Tag("contract", fn=fname, clause=oid, props=props))
    u.emit("{ %d }  // %s" % (len(hits), ", ".join("%s:%d" % h for h in hits[:8])), Tag("repo", fn=fname, repo_file=where[0], repo_line=where[1], props=props))
    # ---- check time: a member reached through `ns::name` that the file does not export is reported -----------------
    from slicer import Slicer

    class AccessSlicer(Slicer):
        """keeps the test `ns_info.exported_syms.contains(&sym.name)`, every diagnostic (by its severity) and the point
        where the type of the member that was found is returned"""
        def __init__(self, src_):
            Slicer.__init__(self, src_, r"severity\s*:\s*Severity\s*::\s*(?P<sev>\w+)|(?P<found>Type\s*::\s*from_value\s*\(\s*value\s*\))",
                            flag_rx=r"ns_info\s*\.\s*exported_syms\s*\.\s*contains\s*\(\s*&\s*sym\s*\.\s*name\s*\)", flag_name="exported")
            self.ret = "return Ghost(errors);"
            self.n_found = self.n_err = 0

        def render_effect(self, m):
            if m.group("found"):
                self.n_found += 1
                return "proof { assert(exported || errors >= 1); }   // the member was found: if the file does not export it, an error was reported"
            if m.group("sev") == "Error":
                self.n_err += 1
                return "proof { errors = errors + 1; }"
            return "{}"

    tc = u.source("src/checks/type_checker.rs")
    hosts_ = [it for it in tc.all_fns() if it.name == "infer_namespace_access"]
    if len(hosts_) != 1:
        raise ExtractError("type_checker.rs: infer_namespace_access not found")
    h2 = hosts_[0]
    sl2 = AccessSlicer(tc)
    ks = [k for k, t in enumerate(tc.toks) if h2.start <= t.start < h2.end]
    d_, k0_ = 0, None
    for k in ks:
        tt = tc.toks[k].text
        if tc.toks[k].kind == "punct" and tt in "([":
            d_ += 1
        elif tc.toks[k].kind == "punct" and tt in ")]":
            d_ -= 1
        elif tt == "{" and d_ == 0:
            k0_ = k
            break
    sl2.block(k0_ + 1, sl2.close(k0_), "    ")
    if sl2.n_found != 1 or sl2.n_guards + sl2.n_mixed < 1:
        # (a test of exported_syms mixed with other conditions counts as nondeterministic: the obligation then fails)
        raise ExtractError("infer_namespace_access: expected one `Type::from_value(value)` and a test of exported_syms; found %d / %d" % (sl2.n_found, sl2.n_guards + sl2.n_mixed))
    gname = "slice_infer_namespace_access"
    u.fn_props[gname] = props
    u.safety_props[gname] = props
    u.skeletons[gname] = skeleton_hash(h2.text)
    u.items.append({"name": "infer_namespace_access (visibility slice: %d error diagnostics, %d tests of exported_syms)" % (sl2.n_err, sl2.n_guards), "generated_as": gname, "kind": "slice",
                    "where": h2.where, "sha256_16": h2.sha(), "skeleton": u.skeletons[gname]})
    tg2 = Tag("repo", fn=gname, repo_file="src/checks/type_checker.rs", repo_line=h2.line0, props=props)
    u.raw("#[verifier::exec_allows_no_decreases_clause]", fn=gname, props=props)
    u.emit("pub fn %s(exported: bool) -> (r: Ghost<int>)" % gname, tg2)
    u.emit("{", tg2)
    u.emit("    let ghost mut errors: int = 0;", Tag("glue", fn=gname, props=props))
    for (ln_text, ln_no) in sl2.out:
        u.emit(ln_text, Tag("repo", fn=gname, repo_file="src/checks/type_checker.rs", repo_line=ln_no, props=props))
    u.emit("    Ghost(errors)", Tag("glue", fn=gname, props=props))
    u.emit("}", tg2)
    u.clauses.append(("exports.%s.safety@assert" % gname, props, "exported || errors >= 1 where the member's type is returned"))
    u.add_canary_proof()
    u.raw(common.FOOTER)
    return u
