"""Unit `fixes` (C22): apply_fixes (syntax_check.rs) and the unused-literal fix span
(checks/unused_literals.rs: get_line_position)."""
import os
import re
import sys

HERE = os.path.dirname(os.path.abspath(__file__))
ROOT = os.path.dirname(os.path.dirname(HERE))
sys.path.insert(0, os.path.join(ROOT, "vc"))
sys.path.insert(0, os.path.join(ROOT, "units"))
import rewrite as rw  # noqa: E402
from gen import Contract, UnitFile  # noqa: E402
import common  # noqa: E402

SC = "src/syntax_check.rs"
UL = "src/checks/unused_literals.rs"
DG = "src/diagnostics.rs"
POS = "src/parser/position.rs"
VFS = "src/parser/vfs.rs"
RLIMIT = 200
MIN_FUNCTIONS = 2

ASSUMPTIONS = {
    "vc_clone": "Clone", "vs_string_eq_lit": "-", "vs_string_eq": "-", "vs_string_from_lit": "std to_owned",
    "axiom_cb_ends": "0 and len are char boundaries", "axiom_char_len": "char::len_utf8 facts", "axiom_same_line": "-",
    "axiom_no_nl_empty": "-", "axiom_ws_empty": "an empty byte range is all-whitespace", "axiom_no_nl_split": "-", "axiom_line_mono": "-", "axiom_blen_bound": "str length bound",
    "vs_len": "str::len", "vs_slice_from": "&s[a..]", "vs_slice": "&s[a..b]", "vs_starts_with_char": "-", "vs_starts_with_str": "-",
    "vs_starts_with_lit": "-", "vs_ends_with_char": "-", "vs_find_char": "str::find(char)", "vs_first_char": "-",
    "vc_is_whitespace": "-", "vc_len_utf8": "-", "vs_split_once_nl": "-", "LinePositions": "-", "LineNumber": "-",
    "vlp_new": "-", "from_offset": "-", "as_usize": "-", "ReMatch": "-", "end": "-", "as_str": "-",
    "PathBuf": "opaque", "clone": "derived Clone returns an equal value",
    "vs_rfind_char": "str::rfind(char): byte index of the last occurrence; both ends are char boundaries",
    "vs_trim_is_empty": "`t.trim().is_empty()`: true only if t consists of whitespace",
    "vs_to_owned": "str::to_owned copies the text",
    "vS_len": "String::len", "vS_slice": "&s[a..b] on a String", "vS_slice_from": "&s[a..] on a String", "sv": "-",
    "vf_concat3": "format!(\"{}{}{}\", a, b, c) is the concatenation a ++ b ++ c",
    "vsort_fixes_desc": "slice::sort_by_key(|f| Reverse(f.position.start_offset)) permutes the fixes into descending start order",
    "vto_vec": "slice::to_vec copies the elements",
    "VecIntoIter": "std::vec::IntoIter", "vi_into_iter": "Vec::into_iter", "next": "Iterator::next",
    "Visitor": "opaque stand-in for UnusedLiteralVisitor (only passed to the source lookup)",
    "vvfs_file_src": "env.vfs.file_src(path): the text of the file the position refers to, if loaded",
    "ws_only": "-", "file_text": "-",
}
LEMMAS = {}
UNVERIFIED = {"C22": [
    "that the fixed program behaves the same (needs the language semantics); reaching a fixed point of repeated --fix",
    "the spans produced by the other lints (unnecessary let, unused vars, ...): only the unused-literal span is under contract",
    "apply_fixes' precondition (fix spans in range and on char boundaries) is pushed to the producers of the fixes and not checked there; overlapping fixes are no longer a precondition (apply_fixes skips them)",
]}

GLUE = """
#[verifier::external_body] pub struct PathBuf { _o: u8 }

#[verifier::external_body]
pub fn vs_rfind_char(s: &str, c: char) -> (r: Option<usize>)
    ensures r is Some ==> (r->Some_0 + char_len(c) <= blen(s) && is_cb(s, r->Some_0 as int) && is_cb(s, r->Some_0 + char_len(c))),
{ s.rfind(c) }
#[verifier::external_body]
pub fn vs_trim_is_empty(s: &str) -> (r: bool)
    ensures r ==> ws_only(s, 0, blen(s) as int),
{ s.trim().is_empty() }
/// the text of a String, as a str (ghost)
pub uninterp spec fn sv(s: &String) -> &str;
#[verifier::external_body]
pub fn vs_to_owned(s: &str) -> (r: String)
    ensures blen(sv(&r)) == blen(s), forall|k: int| 0 <= k <= blen(s) ==> (#[trigger] is_cb(sv(&r), k) <==> is_cb(s, k)),
{ s.to_owned() }
/// format!("{}{}{}", a, b, c)
#[verifier::external_body]
pub fn vf_concat3(a: &str, b: &String, c: &str) -> (r: String)
    ensures blen(sv(&r)) == blen(a) + blen(sv(b)) + blen(c),
        forall|k: int| 0 <= k <= blen(a) ==> (#[trigger] is_cb(sv(&r), k) <==> is_cb(a, k)),
{ unimplemented!() }
/// `&s[a..b]` / `&s[a..]` on a String
#[verifier::external_body]
pub fn vS_slice<'a>(s: &'a String, a: usize, b: usize) -> (r: &'a str)
    requires a <= b <= blen(sv(s)), is_cb(sv(s), a as int), is_cb(sv(s), b as int),
    ensures is_sub(r, sv(s), a as int, b as int),
{ &s[a..b] }
#[verifier::external_body]
pub fn vS_len(s: &String) -> (r: usize) ensures r == blen(sv(s)) { s.len() }
#[verifier::external_body]
pub fn vS_slice_from<'a>(s: &'a String, a: usize) -> (r: &'a str)
    requires a <= blen(sv(s)), is_cb(sv(s), a as int),
    ensures is_sub(r, sv(s), a as int, blen(sv(s)) as int),
{ &s[a..] }
"""

GLUE2 = """
impl Clone for VfsPathBuf {
    #[verifier::external_body]
    fn clone(&self) -> (r: Self) ensures r == *self { unimplemented!() }
}
impl Clone for Position {
    #[verifier::external_body]
    fn clone(&self) -> (r: Self) ensures r == *self { unimplemented!() }
}
pub open spec fn fix_in(s: &str, f: Autofix) -> bool {
    f.position.start_offset <= f.position.end_offset <= blen(s)
    && is_cb(s, f.position.start_offset as int) && is_cb(s, f.position.end_offset as int)
}
/// spans pairwise disjoint and at distinct offsets (touching allowed)
pub open spec fn disjoint(fs: Seq<Autofix>) -> bool {
    forall|i: int, j: int| #![trigger fs[i], fs[j]] 0 <= i < fs.len() && 0 <= j < fs.len() && i != j ==>
        ((fs[i].position.end_offset <= fs[j].position.start_offset && fs[i].position.start_offset < fs[j].position.start_offset)
         || (fs[j].position.end_offset <= fs[i].position.start_offset && fs[j].position.start_offset < fs[i].position.start_offset))
}
pub open spec fn sorted_desc(fs: Seq<Autofix>) -> bool {
    forall|i: int, j: int| #![trigger fs[i], fs[j]] 0 <= i < j < fs.len() ==> fs[i].position.start_offset >= fs[j].position.start_offset
}
#[verifier::external_body]
pub fn vto_vec(fs: &[Autofix]) -> (r: Vec<Autofix>)
    ensures r@ == fs@,
{ unimplemented!() }
#[verifier::external_body]
pub fn vsort_fixes_desc(fs: &mut Vec<Autofix>)
    ensures sorted_desc(final(fs)@), final(fs)@.len() == old(fs)@.len(),
        forall|i: int| 0 <= i < final(fs)@.len() ==> old(fs)@.contains(#[trigger] final(fs)@[i]),
        disjoint(old(fs)@) ==> disjoint(final(fs)@),
{ unimplemented!() }

#[verifier::external_body] pub struct Visitor { _o: u8 }
pub uninterp spec fn file_text(v: &Visitor, p: &VfsPathBuf) -> Option<&'static str>;
#[verifier::external_body]
pub fn vvfs_file_src<'a>(v: &'a Visitor, p: &VfsPathBuf) -> (r: Option<&'a String>)
    ensures r is Some <==> file_text(v, p) is Some, r is Some ==> sv(r->Some_0) == file_text(v, p)->Some_0,
{ unimplemented!() }
"""

import json as _json
CORPUS = _json.load(open(os.path.join(HERE, "corpus.json")))
BOUNDED = [
    {"name": "fix_preserves", "kind": "fix-corpus", "props": ["C22"], "input": CORPUS, "n_inputs": len(CORPUS) + 16,
     "bound": "%d listed programs (every fixable lint, shadowed and repeated lets, nested and mixed boolean chains, several lints at once) plus the repository's 16 check_fix fixtures: --fix to a fixed point within 5 rounds, the result checks cleanly, prints the same output and ends with the same status" % len(CORPUS)},
]
WITNESSES = [
    {"match": r"get_line_position", "kind": "check-fix", "props": ["C22"],
     "input": "fun f() {\n  1 println(\"hi\")\n  2\n}\n\nf()\n",
     "expect": {"stdout_contains": "println(\"hi\")"}, "note": "removing an unused literal must not delete the other code on its line"},
]


def build(tier):
    u = UnitFile("fixes")
    u.raw(common.HEADER)
    u.raw(common.prelude("strings.rs"), kind="prelude")
    u.raw(common.prelude("str.rs"), kind="prelude")
    u.raw(common.prelude("iter.rs"), kind="prelude")
    u.raw(GLUE, kind="prelude")
    u.add_type(VFS, "VfsId")
    u.add_type(VFS, "VfsPathBuf")
    u.add_type(POS, "Position")
    u.add_type(DG, "Autofix")
    u.raw(GLUE2, kind="prelude")
    c22 = {"C22"}
    import rewrite
    rewrite.ITER_BY_VALUE_OK.add("fixes")
    AF_RULES = [
        rw.simple("R11", r"\bfixes\.to_vec\(\)", "vto_vec(fixes)"),
        rw.simple("R2", r"fixes\.sort_by_key\(\|b\| std::cmp::Reverse\(b\.position\.start_offset\)\);", "vsort_fixes_desc(&mut fixes);"),
        rw.simple("R11", r"\bsrc\.to_owned\(\)", "vs_to_owned(src)"),
        rw.simple("R9", r"format!\(\"\{\}\{\}\{\}\", &result\[\.\.start\], fix\.new_text, &result\[end\.\.\]\)",
                  "vf_concat3(vS_slice(&result, 0, start), &fix.new_text, vS_slice_from(&result, end))"),
        "R4b",
    ]
    u.add_fn(SC, "apply_fixes", rules=AF_RULES + [rw.simple("R2", r"\bsrc\.len\(\)", "vs_len(src)")], contract=Contract(
        # no disjointness precondition: ANY list of in-range fixes is applied without a panic,
        # because a fix that overlaps one already applied is skipped
        requires=[("spans_in_source", "forall|i: int| 0 <= i < fixes@.len() ==> fix_in(src, #[trigger] fixes@[i])")],
        loops={1: dict(invariant=[
            ("todo_ok", "forall|i: int| 0 <= i < it_rest(&__it1).len() ==> fix_in(src, #[trigger] it_rest(&__it1)[i])"),
            ("prefix_intact", "applied_start <= blen(src), applied_start <= blen(sv(&result)), forall|k: int| 0 <= k <= applied_start ==> (#[trigger] is_cb(sv(&result), k) <==> is_cb(src, k))")],
            decreases="it_rest(&__it1).len()")},
        props=c22))
    def opt_chain(m):
        recv, how, arg, var, body, dflt = m.group("recv"), m.group("how"), m.group("arg"), m.group("v"), m.group("body"), m.group("d")
        mm = re.match(r"(\w+)\[\.\.(.+)\]$", recv.strip())
        if mm:
            sl = "vS_slice(%s, 0, %s)" % (mm.group(1), mm.group(2))
        else:
            mm = re.match(r"(\w+)\[(.+)\.\.\]$", recv.strip())
            sl = "vS_slice_from(%s, %s)" % (mm.group(1), mm.group(2))
        fn = "vs_rfind_char" if how == "rfind" else "vs_find_char"
        dflt = re.sub(r"\bsrc\.len\(\)", "vS_len(src)", dflt)
        return "match %s(%s, %s) { Some(%s) => %s, None => %s }" % (fn, sl, arg, var, body, dflt)
    GLP_RULES = [
        rw.simple("local", r"self\.env\.vfs\.file_src\(&position\.vfs_path\)", "vvfs_file_src(self, &position.vfs_path)"),
        # R13: `X.find(c).map(|v| BODY).unwrap_or(D)` is `match X.find(c) { Some(v) => BODY, None => D }`
        rw.simple("R13", r"(?P<recv>\w+\[[^\]]+\])\s*\.(?P<how>r?find)\((?P<arg>'(?:\\.|[^'])')\)\s*\.map\(\|(?P<v>\w+)\| (?P<body>[^)]*)\)\s*\.unwrap_or\((?P<d>[^;]*)\);",
                  lambda m: opt_chain(m) + ";"),
        rw.simple("R1", r"(\w+)\[([\w\.]+?)\.\.([\w\.]+)\]\.trim\(\)\.is_empty\(\)", r"vs_trim_is_empty(vS_slice(\1, \2, \3))"),
        rw.simple("R1", r"(\w+)\[([\w\.]+?)\.\.([\w\.]+)\]\.ends_with\(('(?:\\.|[^'])')\)", r"vs_ends_with_char(vS_slice(\1, \2, \3), \4)"),
    ]
    TXT = "file_text(self, &position.vfs_path)"
    u.add_fn(UL, "get_line_position", impl="UnusedLiteralVisitor", wrap_impl="Visitor", rules=GLP_RULES, contract=Contract(
        requires=[("position_in_file", "%s is Some ==> position.start_offset <= position.end_offset <= blen(%s->Some_0) && is_cb(%s->Some_0, position.start_offset as int) && is_cb(%s->Some_0, position.end_offset as int)" % (TXT, TXT, TXT, TXT)),
                  ("line_and_column_in_file", "%s is Some ==> position.end_line_number <= blen(%s->Some_0) && position.end_column <= blen(%s->Some_0)" % (TXT, TXT, TXT))],
        ensures=[
            ("covers_literal", "%s is Some ==> r.start_offset <= position.start_offset && position.end_offset <= r.end_offset <= blen(%s->Some_0)" % (TXT, TXT)),
            ("on_boundaries", "%s is Some ==> is_cb(%s->Some_0, r.start_offset as int) && is_cb(%s->Some_0, r.end_offset as int)" % (TXT, TXT, TXT)),
            ("removes_only_blanks_besides_the_literal", "%s is Some ==> ws_only(%s->Some_0, r.start_offset as int, position.start_offset as int) && ws_only(%s->Some_0, position.end_offset as int, r.end_offset as int)" % (TXT, TXT, TXT)),
        ],
        props=c22))
    u.add_canary_proof()
    u.raw(common.FOOTER)
    return u
