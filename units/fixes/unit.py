"""Unit `fixes` (C22): apply_fixes (syntax_check.rs) and the unused-literal fix span
(checks/unused_literals.rs: get_line_position)."""
import os
import re
import sys

HERE = os.path.dirname(os.path.abspath(__file__))
ROOT = os.path.dirname(os.path.dirname(HERE))
sys.path.insert(0, os.path.join(ROOT, "vc"))
sys.path.insert(0, os.path.join(ROOT, "units"))
import rewrite as rw  # noqa: E402
from gen import Contract, UnitFile  # noqa: E402
import common  # noqa: E402

SC = "src/syntax_check.rs"
UL = "src/checks/unused_literals.rs"
DG = "src/diagnostics.rs"
POS = "src/parser/position.rs"
VFS = "src/parser/vfs.rs"
RLIMIT = 200
MIN_FUNCTIONS = 2

ASSUMPTIONS = {
    "vc_clone": "Clone", "vs_string_eq_lit": "-", "vs_string_eq": "-", "vs_string_from_lit": "std to_owned",
    "axiom_cb_ends": "0 and len are char boundaries", "axiom_char_len": "char::len_utf8 facts", "axiom_same_line": "-",
    "axiom_no_nl_empty": "-", "axiom_no_nl_split": "-", "axiom_line_mono": "-", "axiom_blen_bound": "str length bound",
    "vs_len": "str::len", "vs_slice_from": "&s[a..]", "vs_slice": "&s[a..b]", "vs_starts_with_char": "-", "vs_starts_with_str": "-",
    "vs_starts_with_lit": "-", "vs_ends_with_char": "-", "vs_find_char": "str::find(char)", "vs_first_char": "-",
    "vc_is_whitespace": "-", "vc_len_utf8": "-", "vs_split_once_nl": "-", "LinePositions": "-", "LineNumber": "-",
    "vlp_new": "-", "from_offset": "-", "as_usize": "-", "ReMatch": "-", "end": "-", "as_str": "-",
    "PathBuf": "opaque", "clone": "derived Clone returns an equal value",
    "vs_rfind_char": "str::rfind(char): byte index of the last occurrence; both ends are char boundaries",
    "vs_trim_is_empty": "`t.trim().is_empty()`: true only if t consists of whitespace",
    "vs_to_owned": "str::to_owned copies the text",
    "vf_concat3": "format!(\"{}{}{}\", a, b, c) is the concatenation a ++ b ++ c",
    "vsort_fixes_desc": "slice::sort_by_key(|f| Reverse(f.position.start_offset)) permutes the fixes into descending start order",
    "vto_vec": "slice::to_vec copies the elements",
    "VecIntoIter": "std::vec::IntoIter", "vi_into_iter": "Vec::into_iter", "next": "Iterator::next",
    "Visitor": "opaque stand-in for UnusedLiteralVisitor (only passed to the source lookup)",
    "vvfs_file_src": "env.vfs.file_src(path): the text of the file the position refers to, if loaded",
    "ws_only": "-", "file_text": "-",
}
LEMMAS = {}
UNVERIFIED = {"C22": [
    "that the fixed program behaves the same (needs the language semantics); reaching a fixed point of repeated --fix",
    "the spans produced by the other lints (unnecessary let, unused vars, ...): only the unused-literal span is under contract",
    "apply_fixes' precondition (fix spans in range, on char boundaries, pairwise disjoint) is pushed to the producers of the fixes and not checked there",
]}

GLUE = """
#[verifier::external_body] pub struct PathBuf { _o: u8 }
pub uninterp spec fn ws_only(s: &str, a: int, b: int) -> bool;   // bytes a..b are all whitespace

#[verifier::external_body]
pub fn vs_rfind_char(s: &str, c: char) -> (r: Option<usize>)
    ensures r is Some ==> (r->Some_0 + char_len(c) <= blen(s) && is_cb(s, r->Some_0 as int) && is_cb(s, r->Some_0 + char_len(c))),
{ s.rfind(c) }
#[verifier::external_body]
pub fn vs_trim_is_empty(s: &str) -> (r: bool)
    ensures r ==> ws_only(s, 0, blen(s) as int),
{ s.trim().is_empty() }
#[verifier::external_body]
pub fn vs_to_owned(s: &str) -> (r: String)
    ensures blen(&r) == blen(s), forall|k: int| 0 <= k <= blen(s) ==> (#[trigger] is_cb(&r, k) <==> is_cb(s, k)),
{ s.to_owned() }
/// format!("{}{}{}", a, b, c)
#[verifier::external_body]
pub fn vf_concat3(a: &str, b: &str, c: &str) -> (r: String)
    ensures blen(&r) == blen(a) + blen(b) + blen(c),
        forall|k: int| 0 <= k <= blen(a) ==> (#[trigger] is_cb(&r, k) <==> is_cb(a, k)),
{ unimplemented!() }
"""

GLUE2 = """
impl Clone for VfsPathBuf {
    #[verifier::external_body]
    fn clone(&self) -> (r: Self) ensures r == *self { unimplemented!() }
}
impl Clone for Position {
    #[verifier::external_body]
    fn clone(&self) -> (r: Self) ensures r == *self { unimplemented!() }
}
pub open spec fn fix_in(s: &str, f: Autofix) -> bool {
    f.position.start_offset <= f.position.end_offset <= blen(s)
    && is_cb(s, f.position.start_offset as int) && is_cb(s, f.position.end_offset as int)
}
/// spans pairwise disjoint (touching allowed)
pub open spec fn disjoint(fs: Seq<Autofix>) -> bool {
    forall|i: int, j: int| #![trigger fs[i], fs[j]] 0 <= i < fs.len() && 0 <= j < fs.len() && i != j ==>
        (fs[i].position.end_offset <= fs[j].position.start_offset || fs[j].position.end_offset <= fs[i].position.start_offset)
}
pub open spec fn sorted_desc(fs: Seq<Autofix>) -> bool {
    forall|i: int, j: int| #![trigger fs[i], fs[j]] 0 <= i < j < fs.len() ==> fs[i].position.start_offset >= fs[j].position.start_offset
}
#[verifier::external_body]
pub fn vto_vec(fs: &[Autofix]) -> (r: Vec<Autofix>)
    ensures r@ == fs@,
{ unimplemented!() }
#[verifier::external_body]
pub fn vsort_fixes_desc(fs: &mut Vec<Autofix>)
    ensures sorted_desc(final(fs)@), final(fs)@.len() == old(fs)@.len(),
        forall|i: int| 0 <= i < final(fs)@.len() ==> old(fs)@.contains(#[trigger] final(fs)@[i]),
        disjoint(old(fs)@) ==> disjoint(final(fs)@),
{ unimplemented!() }

#[verifier::external_body] pub struct Visitor { _o: u8 }
pub uninterp spec fn file_text(v: &Visitor, p: &VfsPathBuf) -> Option<&'static str>;
#[verifier::external_body]
pub fn vvfs_file_src<'a>(v: &'a Visitor, p: &VfsPathBuf) -> (r: Option<&'a String>)
    ensures r is Some <==> file_text(v, p) is Some, r is Some ==> r->Some_0@ == file_text(v, p)->Some_0@ && blen(r->Some_0) == blen(file_text(v, p)->Some_0),
{ unimplemented!() }
"""

WITNESSES = [
    {"match": r"get_line_position", "kind": "check-fix", "props": ["C22"],
     "input": "fun f() {\n  1 println(\"hi\")\n  2\n}\n\nf()\n",
     "expect": {"stdout_contains": "println(\"hi\")"}, "note": "removing an unused literal must not delete the other code on its line"},
]


def build(tier):
    u = UnitFile("fixes")
    u.raw(common.HEADER)
    u.raw(common.prelude("strings.rs"), kind="prelude")
    u.raw(common.prelude("str.rs"), kind="prelude")
    u.raw(common.prelude("iter.rs"), kind="prelude")
    u.raw(GLUE, kind="prelude")
    u.add_type(VFS, "VfsId")
    u.add_type(VFS, "VfsPathBuf")
    u.add_type(POS, "Position")
    u.add_type(DG, "Autofix")
    u.raw(GLUE2, kind="prelude")
    c22 = {"C22"}
    import rewrite
    rewrite.ITER_BY_VALUE_OK.add("fixes")
    AF_RULES = [
        rw.simple("R11", r"\bfixes\.to_vec\(\)", "vto_vec(fixes)"),
        rw.simple("R2", r"fixes\.sort_by_key\(\|b\| std::cmp::Reverse\(b\.position\.start_offset\)\);", "vsort_fixes_desc(&mut fixes);"),
        rw.simple("R11", r"\bsrc\.to_owned\(\)", "vs_to_owned(src)"),
        rw.simple("R9", r"format!\(\"\{\}\{\}\{\}\", &result\[\.\.start\], fix\.new_text, &result\[end\.\.\]\)",
                  "vf_concat3(vs_slice(&result, 0, start), &fix.new_text, vs_slice_from(&result, end))"),
        "R4b",
    ]
    u.add_fn(SC, "apply_fixes", rules=AF_RULES, contract=Contract(
        requires=[("spans_in_source", "forall|i: int| 0 <= i < fixes@.len() ==> fix_in(src, #[trigger] fixes@[i])"),
                  ("spans_disjoint", "disjoint(fixes@)")],
        loops={1: dict(invariant=[
            ("todo_ok", "forall|i: int| 0 <= i < it_rest(&__it1).len() ==> fix_in(src, #[trigger] it_rest(&__it1)[i])"),
            ("todo_sorted", "sorted_desc(it_rest(&__it1)), disjoint(it_rest(&__it1))"),
            ("prefix_intact", "exists|lim: int| #![trigger is_cb(src, lim)] 0 <= lim <= blen(src) && lim <= blen(&result) && (forall|k: int| 0 <= k <= lim ==> (#[trigger] is_cb(&result, k) <==> is_cb(src, k))) && (forall|i: int| 0 <= i < it_rest(&__it1).len() ==> (#[trigger] it_rest(&__it1)[i]).position.end_offset <= lim)")],
            decreases="it_rest(&__it1).len()")},
        props=c22))
    u.add_canary_proof()
    u.raw(common.FOOTER)
    return u
