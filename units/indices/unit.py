"""Unit `indices` (C02): the index arithmetic of the list built-ins that turn Garden integers into
Rust indices (List::slice, List::get), as statement ranges / blocks of eval_built_in_method_call."""
import os
import sys

HERE = os.path.dirname(os.path.abspath(__file__))
ROOT = os.path.dirname(os.path.dirname(HERE))
sys.path.insert(0, os.path.join(ROOT, "vc"))
sys.path.insert(0, os.path.join(ROOT, "units"))
import rewrite as rw  # noqa: E402
import re  # noqa: E402
from gen import Contract, UnitFile, Tag  # noqa: E402
from extract import ExtractError, skeleton_hash  # noqa: E402
from slicer import Slicer  # noqa: E402
import common  # noqa: E402

EV = "src/eval.rs"
RLIMIT = 60
MIN_FUNCTIONS = 2

ASSUMPTIONS = {
    "Value": "opaque stand-in for values::Value", "clone": "Clone returns an equal value",
    "none": "Value::none() builds some value", "some": "Value::some(v) builds some value",
    "nondet": "a dropped condition may go either way", "nondet_u8": "a dropped match may take any arm",
    "vv_get_unwrap": "`items.get(i).unwrap()` on an rpds::Vector: panics unless i < len (that is the obligation); returns the element",
}
LEMMAS = {}
UNVERIFIED = {"C02": [
    "rpds::Vector is stood in for by Vec (only len() and get() are used); lengths are assumed to fit in i64",
    "argument-index slices: (until the fifth session the catch-all arm of `match receiver_value.as_ref()` was taken to be unreachable; a user-defined `struct Float {}` reaches it, so it is followed now)",
    "argument-index slices: three explicit panic sites are not obligations: `.lock().expect(..)` on the output buffers (mutex poisoning), `duration_since(UNIX_EPOCH).unwrap()` (clock before 1970), and List::get's `.unwrap()` (proved separately as list_get_arm); every other unreachable!/panic!/todo!/unimplemented!/assert!/unwrap()/expect() inside a built-in arm is an obligation that must be dead under nondeterministic branch conditions",
    "argument-index slices (argidx_*): per arm of the two built-in dispatch functions, only `check_arity(.., N, ..)?` and the literal indexes `arg_values[k]` / `arg_positions[k]` are kept (control flow with nondeterministic conditions); computed indexes are not covered",
    "the bodies of the other built-in arms: string built-ins (String::substring's skip/take arithmetic), file and shell built-ins",
]}

GLUE = """
#[verifier::external_body] pub struct Value { _o: u8 }
impl Clone for Value {
    #[verifier::external_body]
    fn clone(&self) -> (r: Self) ensures r == *self { unimplemented!() }
}
impl Value {
    #[verifier::external_body]
    pub fn none() -> (r: Self) { unimplemented!() }
    #[verifier::external_body]
    pub fn some(v: Value) -> (r: Self) { unimplemented!() }
}
#[verifier::external_body]
pub fn vv_get_unwrap<'a>(v: &'a Vec<Value>, i: usize) -> (r: &'a Value)
    requires i < v@.len(),
    ensures *r == v@[i as int],
{ unimplemented!() }
pub open spec fn clamp_int(x: int, lo: int, hi: int) -> int { if x < lo { lo } else if x > hi { hi } else { x } }
"""

IDX_GLUE = """
#[verifier::external_body]
pub fn nondet() -> (r: bool) { unimplemented!() }
#[verifier::external_body]
pub fn nondet_u8() -> (r: u8) { unimplemented!() }
/// `arg_values[k]` / `arg_positions[k]` with n arguments: panics unless k < n
pub fn idx(n: usize, k: usize) requires k < n { }
/// an explicit panic (unreachable!, panic!, unwrap(), ..) kept by the slice: must not be reached
pub fn panic_site() requires false { }
/// a listed panic site that is not an obligation (see UNVERIFIED)
pub fn assumed_not_to_panic() { }
"""

EXTREMES = ["0", "1", "-1", "2", "3", "4", "5", "-4", "-5", "9223372036854775807", "-9223372036854775807 - 1"]
_progs = []
for a in EXTREMES:
    for b in EXTREMES:
        _progs.append("println(string_repr([10, 11, 12].slice(%s, %s)))" % (a, b))
    _progs.append("println(string_repr([10, 11, 12].get(%s)))" % a)
    _progs.append("println(string_repr([].slice(%s, 0)))" % a)
_PRELUDES = ["src/__prelude.gdn", "src/__random.gdn", "src/__time.gdn", "src/__reflect.gdn"]
WITNESSES = [
    {"match": r"indices\.", "kind": "run", "props": ["C02"], "input": "\n".join(_progs) + "\nprintln(\"done\")\n", "timeout": 30,
     "expect": {"stdout_contains": "done"}},
    {"match": r"argidx_", "kind": "builtin-args", "props": ["C02"], "input": "", "preludes": _PRELUDES, "skip": ["read_line"],
     "min_inputs": 100, "timeout": 120, "expect": {}},
]
sys.path.insert(0, HERE)
import shadow_types  # noqa: E402
WITNESSES += shadow_types.witnesses(r"argidx_", ["C02"])
BOUNDED = [
    {"name": "builtin_argument_calls", "kind": "builtin-args", "props": ["C02"], "input": "", "preludes": _PRELUDES, "skip": ["read_line"],
     "min_inputs": 100, "n_inputs": 140,
     "bound": "every built-in declared in src/__prelude.gdn, __random.gdn, __time.gdn and __reflect.gdn called with a wrongly typed value in each argument position, with one argument too few, one too many, and with well-typed arguments (about 150 calls derived from the declarations on each run): none may panic",
     "expect": {}},
]


# explicit panic sites of the built-in arms that are not obligations of the slices (each is listed in UNVERIFIED)
ALLOWED_PANIC_SITES = [
    r"\.lock\(\)\s*\.expect\(",                                   # mutex poisoning: the interpreter thread is the only writer
    r"duration_since\(\s*std::time::UNIX_EPOCH\s*\)\s*\.unwrap\(\)",   # the system clock is after 1970
    r"items\s*\.get\(\*i as usize\)\s*\.unwrap\(\)",                 # proved in list_get_arm (this unit)
]


class ArgIdxSlicer(Slicer):
    """per-arm slice: `check_arity(.., N, ..)?` (afterwards exactly N arguments) and every literal index
    `arg_values[k]` / `arg_positions[k]`; everything else is dropped"""

    def __init__(self, src):
        Slicer.__init__(self, src, r"check_arity\s*\((?P<args>[^;]*?)\)\s*\?|\barg_(?:values|positions)\[(?P<k>\d+)\]"
                        r"|(?P<allowed>" + "|".join(ALLOWED_PANIC_SITES) + r")"
                        r"|(?P<panic>\b(?:unreachable|panic|todo|unimplemented|assert|assert_eq|assert_ne)!\s*[(\[{]|\.unwrap\(\)|\.expect\()",
                        flag_rx=r"\bno_such_flag_zz\b")
        self.n_allowed = 0
        self.n_panic = 0
        self.n_arity = 0
        self.n_dropped = 0

    def drop_arm(self, scrutinee, pattern):
        # assumption indices.argidx.receiver_variant (see ASSUMPTIONS): a built-in method arm is only
        # entered with a receiver of the method's own type, so the catch-all arm of the match on the
        # receiver's variant is not followed
        # (until the fifth session the catch-all arm of `match receiver_value.as_ref()` was dropped here on the assumption
        # that a built-in method arm is only entered with a receiver of the method's own type; `struct Float {}` followed by
        # `Float{}.ceil()` refutes it: a user-defined type may carry the name of a built-in one.  No arm is dropped now.)
        return False

    def render_effect(self, m):
        if m.group("k") is not None:
            return "idx(n, %s);" % m.group("k")
        if m.group("allowed") is not None:
            self.n_allowed += 1
            return "assumed_not_to_panic();"
        if m.group("panic") is not None:
            self.n_panic += 1
            return "panic_site();"
        parts = rw._split_args(m.group("args"))
        self.n_arity += 1
        if len(parts) >= 4 and re.fullmatch(r"\d+", parts[3].strip()):
            return "if n != %s { return Err(()); }" % parts[3].strip()
        return "if nondet() { return Err(()); }"


def add_arg_index_slices(u, props):
    """one slice per arm of the two built-in dispatch functions (same arm discovery as unit sandbox)"""
    src = u.source(EV)
    n_arms = n_idx = 0
    for hname, short in (("eval_built_in_call", "fn"), ("eval_built_in_method_call", "meth")):
        host = src.find_fn(hname)
        sl = ArgIdxSlicer(src)
        toks = src.toks
        idx = [k for k, t in enumerate(toks) if host.start <= t.start < host.end]
        mk = None
        for k in idx:
            if toks[k].text == "match" and toks[k + 1].text == "kind" and toks[k + 2].text == "{":
                mk = k
                break
        if mk is None:
            raise ExtractError("`match kind {` not found in %s" % hname)
        close = sl.close(mk + 2)
        u.items.append({"name": hname, "generated_as": "argidx_%s_*" % short, "kind": "slice", "where": host.where, "sha256_16": host.sha(), "skeleton": ""})
        j = mk + 3
        seen = {}
        while j < close:
            m = j
            arrow = None
            while m < close:
                t = toks[m]
                if t.kind == "punct" and t.text in "([{":
                    m = sl.close(m) + 1
                    continue
                if t.text == "=" and toks[m + 1].text == ">" and toks[m + 1].start == t.end:
                    arrow = m
                    break
                m += 1
            if arrow is None:
                break
            pat = src.text[toks[j].start:toks[arrow - 1].end]
            names = re.findall(r"Kind::(\w+)", pat) or ["other"]
            bs = arrow + 2
            if toks[bs].text == "{":
                be = sl.close(bs)
                a2, b2 = bs + 1, be
                j = be + 1
            else:
                e = sl.find0(bs, close, lambda x: x.text == ",")
                e = close if e is None else e
                a2, b2 = bs, e
                j = e
            if j < close and toks[j].text == ",":
                j += 1
            name = "_".join(names)[:60]
            seen[name] = seen.get(name, 0) + 1
            gname = "argidx_%s_%s" % (short, name) + ("_%d" % seen[name] if seen[name] > 1 else "")
            sl.out = []
            before = sl.n_effects
            sl.block(a2, b2, "    ")
            if sl.n_effects == before:
                continue          # no literal index and no arity check in this arm
            line0 = src.line_of(toks[arrow].start)
            u.fn_props[gname] = props
            u.safety_props[gname] = props
            # the slice drops every condition: a failure in a restructured arm counts only if an input reproduces it
            u.skeletons[gname] = skeleton_hash(src.text[toks[a2].start:toks[b2 - 1].end]) if b2 > a2 else "-"
            tag0 = Tag("repo", fn=gname, repo_file=EV, repo_line=line0, props=props)
            u.emit("#[verifier::exec_allows_no_decreases_clause]\npub fn %s(n: usize) -> (r: Result<(), ()>)\n{" % gname, tag0)
            for (text, ln) in sl.out:
                # the arity fact established before a loop must be visible inside it
                text = re.sub(r"^(\s*)(while|loop)\b", r"\1#[verifier::loop_isolation(false)] \2", text)
                u.emit(text, Tag("repo", fn=gname, repo_file=EV, repo_line=ln, props=props))
            u.emit("    Ok(())\n}", tag0)
            n_arms += 1
        n_idx += sl.n_effects
    if n_arms < 60:
        raise ExtractError("only %d built-in arms with argument indexing found" % n_arms)
    u.clauses.append(("indices.argidx.every_literal_argument_index_is_below_the_checked_arity", props, "%d arms" % n_arms))


def build(tier):
    u = UnitFile("indices")
    u.raw(common.HEADER)
    u.raw(GLUE, kind="prelude")
    c02 = {"C02"}
    LEN = "items@.len()"
    u.add_range_fn(
        EV, "eval_built_in_method_call", "let len = items.len() as i64;", "if expr_value_is_used {", exclusive=True,
        sig="pub fn list_slice_bounds(items: &Vec<Value>, i_arg: i64, j_arg: i64) -> (usize, usize)",
        suffix="\n    (start as usize, end as usize)",
        contract=Contract(
            requires=[("len_fits", "%s <= i64::MAX" % LEN)],
            # C02 only asks for "no crash": the one fact the code after this range needs is that
            # `end - start` (the argument of take()) does not underflow.  What slice() returns is not C02's business.
            ensures=[("take_count_does_not_underflow", "r.0 <= r.1")],
            props=c02))
    u.add_block_fn(
        EV, "eval_built_in_method_call", "let v = if *i >= items.len() as i64 || *i < 0 {", upto=";",
        sig="pub fn list_get_arm(items: &Vec<Value>, i: &i64) -> Value",
        suffix="\n    v",
        rules=[rw.simple("R13", r"(\w+)\.get\(([^()]*)\)\.unwrap\(\)", r"vv_get_unwrap(\1, \2)")],
        contract=Contract(requires=[("len_fits", "%s <= i64::MAX" % LEN)], props=c02))
    u.raw(IDX_GLUE, kind="prelude")
    add_arg_index_slices(u, c02)
    u.add_canary_proof()
    u.raw(common.FOOTER)
    return u
