"""Unit `indices` (C02): the index arithmetic of the list built-ins that turn Garden integers into
Rust indices (List::slice, List::get), as statement ranges / blocks of eval_built_in_method_call."""
import os
import sys

HERE = os.path.dirname(os.path.abspath(__file__))
ROOT = os.path.dirname(os.path.dirname(HERE))
sys.path.insert(0, os.path.join(ROOT, "vc"))
sys.path.insert(0, os.path.join(ROOT, "units"))
import rewrite as rw  # noqa: E402
from gen import Contract, UnitFile  # noqa: E402
import common  # noqa: E402

EV = "src/eval.rs"
RLIMIT = 60
MIN_FUNCTIONS = 2

ASSUMPTIONS = {
    "Value": "opaque stand-in for values::Value", "clone": "Clone returns an equal value",
    "none": "Value::none() builds some value", "some": "Value::some(v) builds some value",
    "vv_get_unwrap": "`items.get(i).unwrap()` on an rpds::Vector: panics unless i < len (that is the obligation); returns the element",
}
LEMMAS = {}
UNVERIFIED = {"C02": [
    "rpds::Vector is stood in for by Vec (only len() and get() are used); lengths are assumed to fit in i64",
    "the other ~120 built-in arms: argument-kind dispatch, string built-ins (String::substring's skip/take arithmetic), file and shell built-ins",
]}

GLUE = """
#[verifier::external_body] pub struct Value { _o: u8 }
impl Clone for Value {
    #[verifier::external_body]
    fn clone(&self) -> (r: Self) ensures r == *self { unimplemented!() }
}
impl Value {
    #[verifier::external_body]
    pub fn none() -> (r: Self) { unimplemented!() }
    #[verifier::external_body]
    pub fn some(v: Value) -> (r: Self) { unimplemented!() }
}
#[verifier::external_body]
pub fn vv_get_unwrap<'a>(v: &'a Vec<Value>, i: usize) -> (r: &'a Value)
    requires i < v@.len(),
    ensures *r == v@[i as int],
{ unimplemented!() }
pub open spec fn clamp_int(x: int, lo: int, hi: int) -> int { if x < lo { lo } else if x > hi { hi } else { x } }
"""

EXTREMES = ["0", "1", "-1", "2", "3", "4", "5", "-4", "-5", "9223372036854775807", "-9223372036854775807 - 1"]
_progs = []
for a in EXTREMES:
    for b in EXTREMES:
        _progs.append("println(string_repr([10, 11, 12].slice(%s, %s)))" % (a, b))
    _progs.append("println(string_repr([10, 11, 12].get(%s)))" % a)
    _progs.append("println(string_repr([].slice(%s, 0)))" % a)
WITNESSES = [
    {"match": r"indices\.", "kind": "run", "props": ["C02"], "input": "\n".join(_progs) + "\nprintln(\"done\")\n", "timeout": 30,
     "expect": {"stdout_contains": "done"}},
]


def build(tier):
    u = UnitFile("indices")
    u.raw(common.HEADER)
    u.raw(GLUE, kind="prelude")
    c02 = {"C02"}
    LEN = "items@.len()"
    u.add_range_fn(
        EV, "eval_built_in_method_call", "let len = items.len() as i64;", "if expr_value_is_used {", exclusive=True,
        sig="pub fn list_slice_bounds(items: &Vec<Value>, i_arg: i64, j_arg: i64) -> (usize, usize)",
        suffix="\n    (start as usize, end as usize)",
        contract=Contract(
            requires=[("len_fits", "%s <= i64::MAX" % LEN)],
            # C02 only asks for "no crash": the one fact the code after this range needs is that
            # `end - start` (the argument of take()) does not underflow.  What slice() returns is not C02's business.
            ensures=[("take_count_does_not_underflow", "r.0 <= r.1")],
            props=c02))
    u.add_block_fn(
        EV, "eval_built_in_method_call", "let v = if *i >= items.len() as i64 || *i < 0 {", upto=";",
        sig="pub fn list_get_arm(items: &Vec<Value>, i: &i64) -> Value",
        suffix="\n    v",
        rules=[rw.simple("R13", r"(\w+)\.get\(([^()]*)\)\.unwrap\(\)", r"vv_get_unwrap(\1, \2)")],
        contract=Contract(requires=[("len_fits", "%s <= i64::MAX" % LEN)], props=c02))
    u.add_canary_proof()
    u.raw(common.FOOTER)
    return u
