"""Witness programs for unit `indices`: a user-defined type may carry the name of a built-in one (`struct Float {}`),
and its values then reach the built-in methods of that name with a receiver of another variant."""

SHADOW_TYPES = [
    ("Float", ["ceil()", "floor()", "round()"]),
    ("Int", ["as_float()", "abs()"]),
    ("List", ["len()", "get(0)", "append(1)", "contains(1)", "slice(0, 1)"]),
    ("Dict", ["items()", "keys()", "values()", 'get("k")', "len()"]),
    ("String", ["len()", "chars()", "substring(0, 1)", 'index_of("a")', "lines()"]),
    ("Path", ["exists()"]),
]


def program(type_name, calls):
    lines = ["struct %s { shadow_field: Int }" % type_name, "let v = %s{ shadow_field: 1 }" % type_name]
    for c in calls:
        lines.append("try { v.%s } catch (e) { Unit }" % c)
    lines.append('println("done")')
    return "\n".join(lines) + "\n"


def witnesses(match, props):
    out = []
    for (t, calls) in SHADOW_TYPES:
        # one program per call: the first failing call ends the run (catch is not evaluated at run time)
        for c in calls:
            out.append({"match": match, "kind": "run-file", "props": list(props), "timeout": 30, "expect": {},
                        "input": "struct %s { shadow_field: Int }\nlet v = %s{ shadow_field: 1 }\nv.%s\n" % (t, t, c),
                        "note": "the built-in method %s::%s called on a user-defined struct named %s" % (t, c, t)})
    return out
