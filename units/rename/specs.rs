// ---- units/rename/specs.rs: ghost specification of "replace exactly these spans by the new name"
// (C19), over the char-sequence model of prelude/text.rs.  PROVED by Verus.

/// span k is inside the text, on char boundaries and non-empty
pub open spec fn span_ok(cs: Seq<char>, p: Position) -> bool {
    p.start_offset < p.end_offset <= blen_cs(cs) && is_cbt(cs, p.start_offset as int) && is_cbt(cs, p.end_offset as int)
}
pub open spec fn spans_ok(cs: Seq<char>, ps: Seq<Position>) -> bool {
    forall|k: int| 0 <= k < ps.len() ==> span_ok(cs, #[trigger] ps[k])
}
/// pairwise disjoint (touching allowed)
pub open spec fn spans_disjoint(ps: Seq<Position>) -> bool {
    forall|i: int, j: int| #![trigger ps[i], ps[j]] 0 <= i < ps.len() && 0 <= j < ps.len() && i != j ==>
        (ps[i].end_offset <= ps[j].start_offset || ps[j].end_offset <= ps[i].start_offset)
}
pub open spec fn sorted_by_start(ps: Seq<Position>) -> bool {
    forall|i: int, j: int| #![trigger ps[i], ps[j]] 0 <= i < j < ps.len() ==> ps[i].start_offset <= ps[j].start_offset
}
/// `b` is `a` rearranged: b[k] == a[perm[k]] for an injective index map `perm`
pub open spec fn rearranged_by(a: Seq<Position>, b: Seq<Position>, perm: Seq<int>) -> bool {
    a.len() == b.len() && perm.len() == b.len()
    && (forall|k: int| 0 <= k < perm.len() ==> 0 <= #[trigger] perm[k] < a.len())
    && (forall|i: int, j: int| #![trigger perm[i], perm[j]] 0 <= i < perm.len() && 0 <= j < perm.len() && perm[i] == perm[j] ==> i == j)
    && (forall|k: int| 0 <= k < b.len() ==> #[trigger] b[k] == a[perm[k]])
}
pub open spec fn same_spans(a: Seq<Position>, b: Seq<Position>) -> bool {
    exists|perm: Seq<int>| #[trigger] rearranged_by(a, b, perm)
}
/// byte offset where the text after the first k spans starts
pub open spec fn after_span(ps: Seq<Position>, k: int) -> int {
    if k <= 0 { 0 } else { ps[k - 1].end_offset as int }
}
/// the text produced after handling the first k spans (in order): everything before span k-1 that is
/// not inside an earlier span, verbatim, with every handled span replaced by `nn`
pub open spec fn renamed_prefix(cs: Seq<char>, ps: Seq<Position>, nn: Seq<char>, k: int) -> Seq<char>
    decreases k,
{
    if k <= 0 { Seq::<char>::empty() } else {
        renamed_prefix(cs, ps, nn, k - 1)
            + cs.subrange(cix(cs, after_span(ps, k - 1)), cix(cs, ps[k - 1].start_offset as int)) + nn
    }
}
/// the whole renamed text
pub open spec fn renamed(cs: Seq<char>, ps: Seq<Position>, nn: Seq<char>) -> Seq<char> {
    renamed_prefix(cs, ps, nn, ps.len() as int) + cs.subrange(cix(cs, after_span(ps, ps.len() as int)), cs.len() as int)
}

/// sorted + pairwise disjoint + non-empty spans  ==>  each span ends before the next one starts
pub proof fn lemma_sorted_disjoint_adjacent(cs: Seq<char>, ps: Seq<Position>, k: int)
    requires spans_ok(cs, ps), spans_disjoint(ps), sorted_by_start(ps), 0 <= k < ps.len(),
    ensures after_span(ps, k) <= ps[k].start_offset, is_cbt(cs, after_span(ps, k)), 0 <= after_span(ps, k) <= blen_cs(cs),
{
    lemma_off_zero(cs);
    lemma_cix(cs, 0);
    if k > 0 {
        assert(span_ok(cs, ps[k - 1]));
        assert(span_ok(cs, ps[k]));
        let a = ps[k - 1]; let b = ps[k];
        assert(a.end_offset <= b.start_offset || b.end_offset <= a.start_offset);
    }
}
/// with no spans the text is unchanged
pub proof fn lemma_renamed_nothing(cs: Seq<char>, nn: Seq<char>)
    ensures renamed(cs, Seq::<Position>::empty(), nn) == cs,
{
    lemma_off_zero(cs); lemma_cix(cs, 0);
    assert(cs.subrange(0, cs.len() as int) =~= cs);
    assert(Seq::<char>::empty() + cs =~= cs);
}
/// a single span: prefix + new name + suffix
pub proof fn lemma_renamed_one(cs: Seq<char>, p: Position, nn: Seq<char>)
    requires span_ok(cs, p),
    ensures renamed(cs, seq![p], nn) == cs.subrange(0, cix(cs, p.start_offset as int)) + nn + cs.subrange(cix(cs, p.end_offset as int), cs.len() as int),
{
    lemma_off_zero(cs); lemma_cix(cs, 0);
    let ps = seq![p];
    assert(renamed_prefix(cs, ps, nn, 0) =~= Seq::<char>::empty());
    assert(renamed_prefix(cs, ps, nn, 1) =~= cs.subrange(0, cix(cs, p.start_offset as int)) + nn);
}
