"""Unit `rename` (C19): apply_renames and RenameLocalVisitor::visit_symbol (src/rename.rs)."""
import os
import re
import sys

HERE = os.path.dirname(os.path.abspath(__file__))
ROOT = os.path.dirname(os.path.dirname(HERE))
sys.path.insert(0, os.path.join(ROOT, "vc"))
sys.path.insert(0, os.path.join(ROOT, "units"))
import rewrite as rw  # noqa: E402
from gen import Contract, UnitFile  # noqa: E402
import common  # noqa: E402

RN = "src/rename.rs"
POS = "src/parser/position.rs"
VFS = "src/parser/vfs.rs"
AST = "src/parser/ast.rs"
RLIMIT = 200
MIN_FUNCTIONS = 2

ASSUMPTIONS = {
    "axiom_clen": "char::len_utf8 is between 1 and 4, and 1 for ASCII", "axiom_clen16": "char::len_utf16 is 1 or 2",
    "axiom_len_bound": "a str is at most isize::MAX bytes long",
    "vt_len": "str::len", "vt_slice": "&s[a..b]: panics unless both are char boundaries; the chars between them",
    "vt_slice_from": "&s[a..]", "vt_find_char": "-", "vt_rfind_char": "-", "vt_utf16_count": "-",
    "vtc_len_utf8": "-", "vtc_len_utf16": "-", "vu_min": "-", "CharIndices": "-", "vt_char_indices": "-", "next": "Iterator::next of Vec::IntoIter / CharIndices",
    "PathBuf": "opaque", "vc_clone": "Clone returns an equal value", "vs_string_eq_lit": "-", "vs_string_eq": "-", "vs_string_from_lit": "-",
    "VecIntoIter": "std::vec::IntoIter", "vi_into_iter": "Vec::into_iter yields the elements in order",
    "vto_vec_pos": "slice::to_vec copies the elements",
    "vsort_pos_by_start": "slice::sort_unstable_by_key(|p| p.start_offset): a permutation of the elements in ascending start order",
    "vS_with_capacity": "String::with_capacity(n) is the empty string", "vS_push_str": "String::push_str appends the chars of its argument",
    "PosMap": "opaque stand-in for FxHashMap<SyntaxId, Position>", "get": "FxHashMap::get returns the value stored under the key, if any",
    "vq_pos_ne": "derived PartialEq of Position: `!=` is structural inequality", "vq_pos_eq": "derived PartialEq of Position: `==` is structural equality",
    "SymbolName": "opaque stand-in", "clone": "derived Clone of Position returns an equal value",
}
LEMMAS = {n: {"C19"} for n in (
    "lemma_sorted_disjoint_adjacent", "lemma_renamed_nothing", "lemma_renamed_one",
    "lemma_off_step", "lemma_off_zero", "lemma_off_mono", "lemma_off_inj", "lemma_cix", "lemma_cix_props",
    "lemma_blen_concat", "lemma_off_sub", "lemma_u16_bounds", "lemma_u16_split")}
UNVERIFIED = {"C19": [
    "rename_positions: parsing, type checking (which definition each symbol id refers to: summary.id_to_def_pos) and the Visitor traversal that calls visit_symbol once per symbol occurrence — so apply_renames' precondition (spans of identifiers: in range, on char boundaries, non-empty, pairwise disjoint) is assumed of its caller, and 'exactly the uses that refer to that definition' is proved only relative to id_to_def_pos",
    "that the renamed program prints the same output (needs the language semantics); that the new name is fresh",
    "handle_rename (lsp.rs): builds one TextEdit per position through garden_pos_to_lsp_range, which is under contract in unit lsppos (C29)",
]}

GLUE = """
#[verifier::external_body] pub struct PathBuf { _o: u8 }
#[verifier::external_body] pub struct SymbolName { _o: u8 }
"""
GLUE2 = """
impl Clone for VfsPathBuf {
    #[verifier::external_body]
    fn clone(&self) -> (r: Self) ensures r == *self { unimplemented!() }
}
impl Clone for Position {
    #[verifier::external_body]
    fn clone(&self) -> (r: Self) ensures r == *self { unimplemented!() }
}
#[verifier::external_body]
pub fn vto_vec_pos(ps: &[Position]) -> (r: Vec<Position>)
    ensures r@ == ps@,
{ unimplemented!() }
#[verifier::external_body]
pub fn vsort_pos_by_start(ps: &mut Vec<Position>)
    ensures sorted_by_start(final(ps)@), same_spans(old(ps)@, final(ps)@),
{ unimplemented!() }
/// the text of a String (ghost): vstd's view
#[verifier::external_body]
pub fn vS_with_capacity(n: usize) -> (r: String)
    ensures r@ == Seq::<char>::empty(),
{ String::with_capacity(n) }
#[verifier::external_body]
pub fn vS_push_str(s: &mut String, t: &str)
    ensures final(s)@ == old(s)@ + t@,
{ s.push_str(t) }

#[verifier::external_body] pub struct PosMap { _o: u8 }
pub uninterp spec fn map_get(m: &PosMap, k: SyntaxId) -> Option<Position>;
impl PosMap {
    #[verifier::external_body]
    pub fn get<'a>(&'a self, k: &SyntaxId) -> (r: Option<&'a Position>)
        ensures r is Some <==> map_get(self, *k) is Some, r is Some ==> *r->Some_0 == map_get(self, *k)->Some_0,
    { unimplemented!() }
}
#[verifier::external_body]
pub fn vq_pos_ne(a: &Position, b: &Position) -> (r: bool)
    ensures r == (*a != *b),
{ unimplemented!() }
#[verifier::external_body]
pub fn vq_pos_eq(a: &Position, b: &Position) -> (r: bool)
    ensures r == (*a == *b),
{ unimplemented!() }
"""

RENAME_CORPUS = [
    {"what": "method receiver renamed from a use", "at": "me + me", "delta": 0, "count": 3,
     "src": "method double(me: Int): Int {\n  me + me\n}\nprintln(string_repr(2.double()))\n"},
    {"what": "method receiver renamed from a use, with a parameter and a shadowing closure", "at": "me * by", "delta": 0, "count": 3,
     "src": "method scale(me: Int, by: Int): Int {\n  let f = fun(me: Int) { me + 1 }\n  f(me * by) + me\n}\nprintln(string_repr(3.scale(2)))\n"},
    {"what": "outer variable shadowed by a match payload, used after the match", "at": "let total", "delta": 4, "count": 3,
     "src": "fun f(o: Option<Int>): Int {\n  let total = 100\n  let r = match o {\n    Some(total) => total + 1\n    None => total\n  }\n  r + total\n}\nprintln(string_repr(f(Some(5))))\nprintln(string_repr(f(None)))\n"},
    {"what": "match payload that shadows an outer variable", "at": "Some(total)", "delta": 5, "count": 2,
     "src": "fun f(o: Option<Int>): Int {\n  let total = 100\n  let r = match o {\n    Some(total) => total + 1\n    None => total\n  }\n  r + total\n}\nprintln(string_repr(f(Some(5))))\nprintln(string_repr(f(None)))\n"},
    {"what": "parameter shadowed by a closure parameter", "at": "fun g(x", "delta": 6, "count": 3,
     "src": "fun g(x: Int): Int {\n  let h = fun(x: Int) { x * 2 }\n  h(x) + x\n}\nprintln(string_repr(g(3)))\n"},
    {"what": "closure parameter that shadows a parameter", "at": "fun(x", "delta": 4, "count": 2,
     "src": "fun g(x: Int): Int {\n  let h = fun(x: Int) { x * 2 }\n  h(x) + x\n}\nprintln(string_repr(g(3)))\n"},
    {"what": "variable shadowed by a for loop variable, used after the loop", "at": "let i", "delta": 4, "count": 2,
     "src": "fun k(): Int {\n  let i = 50\n  let t = 0\n  for i in [1, 2] { t += i }\n  t + i\n}\nprintln(string_repr(k()))\n"},
    {"what": "for loop variable that shadows an outer variable", "at": "for i", "delta": 4, "count": 2,
     "src": "fun k(): Int {\n  let i = 50\n  let t = 0\n  for i in [1, 2] { t += i }\n  t + i\n}\nprintln(string_repr(k()))\n"},
    {"what": "variable shadowed in a nested block, used after the block", "at": "let v", "delta": 4, "count": 2,
     "src": "fun m(): Int {\n  let v = 1\n  if True { let v = 2  println(string_repr(v)) }\n  v\n}\nprintln(string_repr(m()))\n"},
    {"what": "destructured match payload shadowing two outer variables", "at": "let a", "delta": 4, "count": 2,
     "src": "fun d(o: Option<(Int, Int)>): Int {\n  let a = 3\n  let b = 4\n  let s = match o { Some((a, b)) => a + b  None => 0 }\n  s + a + b\n}\nprintln(string_repr(d(Some((10, 20)))))\n"},
    {"what": "catch variable shadowing an outer variable", "at": "let e", "delta": 4, "count": 2,
     "src": "fun t(): Int {\n  let e = 7\n  try { throw(\"x\") } catch (e) { 0 }\n  e\n}\nprintln(string_repr(t()))\n"},
    {"what": "non-ASCII text before the occurrences", "at": "let n", "delta": 4, "count": 3,
     "src": "fun u(): Int {\n  let s = \"\u00e9\U0001F600\"  let n = 1\n  println(s)  n + n\n}\nprintln(string_repr(u()))\n"},
    {"what": "variable whose shadowing let has a type hint and mentions the outer variable on its right-hand side", "at": "let total = 10", "delta": 4, "count": 5,
     "src": "fun main() {\n  let total = 10\n  let add = fun(n: Int): Int { n + total }\n  if total > 5 {\n    let total: Int = total * 2\n    println(string_repr(add(total)))\n  }\n  println(string_repr(total))\n}\nmain()\n"},
    {"what": "type-hinted shadowing let whose right-hand side mentions the outer variable", "at": "let total: Int", "delta": 4, "count": 2,
     "src": "fun main() {\n  let total = 10\n  let add = fun(n: Int): Int { n + total }\n  if total > 5 {\n    let total: Int = total * 2\n    println(string_repr(add(total)))\n  }\n  println(string_repr(total))\n}\nmain()\n"},
    {"what": "parameter shadowed twice by lets that read it (no hint, then hint)", "at": "fun w(x", "delta": 6, "count": 2,
     "src": "fun w(x: Int): Int {\n  let x = x + 1\n  let x: Int = x * 3\n  x\n}\nprintln(string_repr(w(2)))\n"},
    {"what": "first shadowing let, read by the hinted let that shadows it", "at": "let x = x", "delta": 4, "count": 2,
     "src": "fun w(x: Int): Int {\n  let x = x + 1\n  let x: Int = x * 3\n  x\n}\nprintln(string_repr(w(2)))\n"},
    {"what": "hinted let shadowing a let, read by the last expression", "at": "let x: Int", "delta": 4, "count": 2,
     "src": "fun w(x: Int): Int {\n  let x = x + 1\n  let x: Int = x * 3\n  x\n}\nprintln(string_repr(w(2)))\n"},
]
BOUNDED = [
    {"name": "rename_corpus", "kind": "rename-corpus", "props": ["C19"], "input": RENAME_CORPUS, "n_inputs": len(RENAME_CORPUS) + 80, "prelude_collisions": True, "min_inputs": len(RENAME_CORPUS) + 20,
     "bound": "%d listed programs with shadowing (match payloads, closure parameters, for variables, nested lets, catch variables) plus up to 80 generated ones in which the renamed local is defined at the byte offset where a prelude definition's name starts: the rename rewrites the expected number of occurrences and the renamed program prints the same output" % len(RENAME_CORPUS),
     "expect": {}},
]
WITNESSES = [
    {"match": r"rename\.", "kind": "rename-corpus", "props": ["C19"], "input": RENAME_CORPUS, "prelude_collisions": True, "expect": {}, "note": "renames under shadowing and at offsets that collide with prelude definitions"},
    {"match": r"rename\.", "kind": "rename", "props": ["C19"],
     "input": "fun f(x: Int): Int {\n  let s = \"é\U0001F600\"  let y = x + 1\n  let g = fun(x: Int) { x * 2 }\n  y + g(x) + x\n}\n\nprintln(string_repr(f(3)))\n",
     "offset": 6, "new_name": "renamed_x",
     "expect": {"stdout": "fun f(renamed_x: Int): Int {\n  let s = \"é\U0001F600\"  let y = renamed_x + 1\n  let g = fun(x: Int) { x * 2 }\n  y + g(renamed_x) + renamed_x\n}\n\nprintln(string_repr(f(3)))\n"},
     "note": "renaming a parameter rewrites its definition and its uses, not the shadowing closure parameter, with non-ASCII text before a use on the same line"},
]


def build(tier):
    u = UnitFile("rename")
    u.raw(common.HEADER)
    u.raw(common.prelude("strings.rs"), kind="prelude")
    u.raw(common.prelude("text.rs"), kind="prelude")
    u.raw(common.prelude("iter.rs"), kind="prelude")
    u.raw(GLUE, kind="prelude")
    u.add_type(VFS, "VfsId")
    u.add_type(VFS, "VfsPathBuf")
    u.add_type(POS, "Position")
    u.add_type(AST, "SyntaxId")
    u.add_type(AST, "InternedSymbolId")
    u.add_type(AST, "Symbol")
    u.raw(open(os.path.join(HERE, "specs.rs")).read(), kind="spec")
    u.raw(GLUE2, kind="prelude")
    u.add_type(RN, "RenameLocalVisitor", subst=[(r"FxHashMap<SyntaxId, Position>", "PosMap")])
    c19 = {"C19"}
    rw.ITER_BY_VALUE_OK.add("positions")
    AR_RULES = [
        rw.simple("R11", r"\bpositions\.to_vec\(\)", "vto_vec_pos(positions)"),
        rw.simple("R2", r"positions\.sort_unstable_by_key\(\|pos\| pos\.start_offset\);", "vsort_pos_by_start(&mut positions);"),
        rw.simple("R2", r"String::with_capacity\(src\.len\(\)\)", "vS_with_capacity(vt_len(src))"),
        rw.simple("R1", r"(\w+)\.push_str\(&src\[(\w+)\.\.([\w\.]+)\]\)", r"vS_push_str(&mut \1, vt_slice(src, \2, \3))"),
        rw.simple("R1", r"(\w+)\.push_str\(&src\[(\w+)\.\.\]\)", r"vS_push_str(&mut \1, vt_slice_from(src, \2))"),
        rw.simple("R2", r"(\w+)\.push_str\((\w+)\)", r"vS_push_str(&mut \1, \2)"),
        "R4b",
    ]
    # names of the two locals the contract talks about, read from the source (a renamed local is not a change)
    body = u.source(RN).find_fn("apply_renames").text
    m_out = re.search(r"let mut (\w+) = String::with_capacity", body)
    m_cur = re.search(r"let mut (\w+) = 0;", body)
    OUT = m_out.group(1) if m_out else "new_src"
    CUR = m_cur.group(1) if m_cur else "i"
    K = "(ps.len() - it_rest(&__it1).len())"
    u.add_fn(RN, "apply_renames", rules=AR_RULES, contract=Contract(
        requires=[("spans_are_identifiers_in_the_text", "spans_ok(src@, positions@)"), ("spans_disjoint", "spans_disjoint(positions@)")],
        ensures=[("exactly_the_spans_are_replaced",
                  "exists|ps: Seq<Position>| sorted_by_start(ps) && same_spans(positions@, ps) && r@ == #[trigger] renamed(src@, ps, new_name@)")],
        hints=[
            dict(anchor="let mut " + OUT, where="before", name="sorted_spans",
                 text="""let ghost ps = positions@;
proof {
    let perm = choose|perm: Seq<int>| #[trigger] rearranged_by(old_positions, ps, perm);
    assert forall|k: int| 0 <= k < ps.len() implies span_ok(src@, #[trigger] ps[k]) by { assert(span_ok(src@, old_positions[perm[k]])); }
    assert forall|i: int, j: int| #![trigger ps[i], ps[j]] 0 <= i < ps.len() && 0 <= j < ps.len() && i != j implies
        (ps[i].end_offset <= ps[j].start_offset || ps[j].end_offset <= ps[i].start_offset) by {
        let a = perm[i]; let b = perm[j];
        assert(old_positions[a].end_offset <= old_positions[b].start_offset || old_positions[b].end_offset <= old_positions[a].start_offset);
    }
    lemma_cix(src@, 0); lemma_off_zero(src@);
}"""),
            dict(anchor=OUT, where="before", nth=-1, name="suffix",
                 text="proof { lemma_off_zero(src@); assert(%s@ == renamed(src@, ps, new_name@)); }" % OUT),
        ],
        body_prelude="let ghost old_positions = positions@;",
        loops={1: dict(invariant=[
            ("rest", "it_rest(&__it1) =~= ps.subrange(%s, ps.len() as int), it_rest(&__it1).len() <= ps.len()" % K),
            ("spans", "spans_ok(src@, ps), spans_disjoint(ps), sorted_by_start(ps)"),
            ("built", "%s@ == renamed_prefix(src@, ps, new_name@, %s)" % (OUT, K)),
            ("cursor", "%s == after_span(ps, %s), is_cbt(src@, %s as int), %s <= blen_cs(src@)" % (CUR, K, CUR, CUR))],
            ensures=[("all_spans_handled", "it_rest(&__it1).len() == 0")],
            decreases="it_rest(&__it1).len()",
            body_prelude="""proof {
    let k = %s - 1;
    assert(position == ps[k]) by { assert(ps.subrange(k, ps.len() as int)[0] == ps[k]); }
    assert(span_ok(src@, ps[k]));
    lemma_sorted_disjoint_adjacent(src@, ps, k);
    assert(ps.subrange(k, ps.len() as int).drop_first() =~= ps.subrange(k + 1, ps.len() as int));
}""" % K)},
        props=c19))
    VS_RULES = [
        rw.simple("R10", r"\*(\w+) != self\.definition_pos", r"vq_pos_ne(\1, &self.definition_pos)"),
        rw.simple("R10", r"\*(\w+) == self\.definition_pos", r"vq_pos_eq(\1, &self.definition_pos)"),
        rw.simple("R10", r"self\.definition_pos != \*(\w+)", r"vq_pos_ne(&self.definition_pos, \1)"),
        rw.simple("R10", r"self\.definition_pos == \*(\w+)", r"vq_pos_eq(&self.definition_pos, \1)"),
    ]
    u.add_fn(RN, "visit_symbol", impl="Visitor for RenameLocalVisitor", wrap_impl="RenameLocalVisitor", rules=VS_RULES, contract=Contract(
        ensures=[
            ("selects_exactly_symbols_of_the_definition",
             "final(self).replace_positions@ == (if map_get(&old(self).id_to_pos, symbol.id) == Some(old(self).definition_pos) { old(self).replace_positions@.push(symbol.position) } else { old(self).replace_positions@ })"),
            ("rest_unchanged", "final(self).definition_pos == old(self).definition_pos && final(self).id_to_pos == old(self).id_to_pos"),
        ],
        props=c19))
    u.add_canary_proof()
    u.raw(common.FOOTER)
    return u
