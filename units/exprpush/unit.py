"""Unit `exprpush` (C07, C09): the dispatch function of the evaluator, eval_expr (src/eval.rs), as a push slice.
When a step fails, the step loop `eval` puts the failing expression back in the state it had and restores the values
the step had popped (units evalloop / restore / steps).  That is only right if the arm of eval_expr that called the
step has not itself pushed anything onto the frame before the step failed: a continuation pushed before a failing step
stays behind, and the resumed evaluation then runs it twice.  The slice keeps the control flow of eval_expr, every
push onto `exprs_to_eval` or the value stack (and a pop that takes a continuation back) and every way out with an error (`?` and `return Err`), and proves that
no error exit is reached after a push."""
import os
import re
import sys

HERE = os.path.dirname(os.path.abspath(__file__))
ROOT = os.path.dirname(os.path.dirname(HERE))
sys.path.insert(0, os.path.join(ROOT, "vc"))
sys.path.insert(0, os.path.join(ROOT, "units"))
from gen import UnitFile, Tag  # noqa: E402
from extract import ExtractError, skeleton_hash  # noqa: E402
from slicer import Slicer  # noqa: E402
import common  # noqa: E402

EV = "src/eval.rs"
RLIMIT = 60
MIN_FUNCTIONS = 1

ASSUMPTIONS = {
    "nondet": "a dropped condition may go either way", "nondet_u8": "a dropped match may take any arm",
}
LEMMAS = {}
UNVERIFIED = {
    "C07": ["the push slice keeps control flow, the calls env.push_expr_to_eval / env.push_value / push_binding_block and the error exits of eval_expr; pushes made inside a step function before it fails are the step's own contract (units steps / calls / blocks)"],
    "C09": ["as C07"],
}

GLUE = """
#[verifier::external_body]
pub fn nondet() -> (r: bool) { unimplemented!() }
#[verifier::external_body]
pub fn nondet_u8() -> (r: u8) { unimplemented!() }
"""

_S = [("a failing `if` condition, replaced, then the session goes on", ["if 1 { 2 }", ":replace True", "40 + 2"]),
      ("a `match` on a value that is not an enum, replaced", ["match 1 { Some(x) => { x } None => { 0 } }", ":replace Some(5)", "40 + 2"]),
      ("a failing `if` condition inside a function and a loop, resumed twice, replaced", ["fun f(c) { let n = 0  while n < 2 { if c { n += 1 } else { n += 2 } }  n }", "f(1)", ":resume", ":resume", ":replace True", "40 + 2"]),
      ("a failing `while` condition and a failing `for` iteree, replaced", ["while 1 { }", ":replace False", "for x in 5 { }", ":replace [1]", "40 + 2"]),
      ("a failing assert and a failing `let` destructuring, skipped", ["assert(1)", ":skip", "let (a, b) = 1", ":skip", "40 + 2"])]
WITNESSES = [
    {"match": r"exprpush\.", "kind": "session-alive", "props": ["C07", "C09"], "input": [x[1] for x in _S], "expect": {},
     "note": "a step that fails after its arm pushed a continuation, then :replace / :resume / :skip: " + "; ".join(x[0] for x in _S)},
]
BOUNDED = [
    {"name": "failed_step_then_command", "kind": "session-alive", "props": ["C07", "C09"], "input": [x[1] for x in _S], "n_inputs": len(_S),
     "bound": "%d request sequences in which a control-flow step fails on a wrongly typed condition / scrutinee / iteree and the session is continued with :replace, :resume or :skip: no panic, every request answered, the last request (40 + 2) answered with 42" % len(_S),
     "expect": {}},
]

PUSH = r"\benv\s*\.\s*(?P<push>push_expr_to_eval|push_value|push_binding_block)\s*\(|\bexprs_to_eval\s*\.\s*(?P<pop>pop)\s*\(\s*\)"


class PushSlicer(Slicer):
    def __init__(self, src):
        Slicer.__init__(self, src, PUSH, flag_rx=r"\bno_such_flag_zz\b")
        # every error exit: nothing may have been pushed on this path
        self.ret = "proof { assert(pushed == 0); } return;"
        self.loop_may_exit = True
        self.n_push = 0

    def render_effect(self, m):
        if m.group("pop"):
            # an arm that takes its own continuation back before it fails
            return "proof { assert(pushed >= 1); pushed = pushed - 1; }"
        self.n_push += 1
        return "proof { pushed = pushed + 1; }"


def build(tier):
    u = UnitFile("exprpush")
    u.raw(common.HEADER)
    u.raw(GLUE, kind="prelude")
    props = {"C07", "C09"}
    src = u.source(EV)
    host = src.find_fn("eval_expr")
    toks = src.toks
    idx = [k for k, t in enumerate(toks) if host.start <= t.start < host.end]
    depth, k0 = 0, None
    for k in idx:
        tt = toks[k].text
        if toks[k].kind == "punct" and tt in "([":
            depth += 1
        elif toks[k].kind == "punct" and tt in ")]":
            depth -= 1
        elif tt == "{" and depth == 0:
            k0 = k
            break
    sl = PushSlicer(src)
    sl.block(k0 + 1, sl.close(k0), "    ")
    if sl.n_push < 20:
        raise ExtractError("eval_expr: only %d pushes found" % sl.n_push)
    gname = "slice_eval_expr_pushes"
    u.fn_props[gname] = props
    u.safety_props[gname] = props
    u.skeletons[gname] = skeleton_hash(host.text)
    u.items.append({"name": "eval_expr (push slice: %d pushes)" % sl.n_push, "generated_as": gname, "kind": "slice", "where": host.where,
                    "sha256_16": host.sha(), "skeleton": u.skeletons[gname]})
    tag = Tag("repo", fn=gname, repo_file=EV, repo_line=host.line0, props=props)
    u.raw("#[verifier::exec_allows_no_decreases_clause]", fn=gname, props=props)
    u.emit("pub fn %s()" % gname, tag)
    u.emit("{", tag)
    u.emit("    let ghost mut pushed: int = 0;", Tag("glue", fn=gname, props=props))
    out, n_loop = [], 0
    lines_ = sl.out
    for i, (t, ln) in enumerate(lines_):
        m = re.match(r"^(\s*)(while nondet\(\) \{|loop \{)\s*$", t)
        if m:
            # the loop's body: the lines up to the closing brace at the same indentation
            j, pushes = i + 1, False
            while j < len(lines_) and not re.match(r"^%s\}\s*$" % re.escape(m.group(1)), lines_[j][0]):
                pushes = pushes or "pushed = pushed + 1" in lines_[j][0]
                j += 1
            n_loop += 1
            head = "while nondet()" if m.group(2).startswith("while") else "loop"
            out.append(("%slet ghost __p%d = pushed;" % (m.group(1), n_loop), ln))
            out.append(("%s#[verifier::loop_isolation(false)] %s" % (m.group(1), head), ln))
            out.append(("%s    invariant pushed %s __p%d," % (m.group(1), ">=" if pushes else "==", n_loop), ln))
            out.append(("%s{" % m.group(1), ln))
        else:
            out.append((t, ln))
    for (t, ln) in out:
        u.emit(t, Tag("repo", fn=gname, repo_file=EV, repo_line=ln, props=props))
    u.emit("}", tag)
    u.clauses.append(("exprpush.%s.safety@assert" % gname, props, "pushed == 0 at every error exit of eval_expr"))
    u.add_canary_proof()
    u.raw(common.FOOTER)
    return u
