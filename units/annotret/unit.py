"""Unit `annotret` (C21, add-type-annotation): the return type offered for a function without a return hint
(AnnotationFinder::body_return_ty, src/add_type_annotation.rs) is the type of the body's last expression (Unit for an
empty body), and it is offered only when the value of every `return` in the body (Unit for a bare `return`) has a
subtype of it; the collector of those returns (ReturnFinder::visit_expr) records a `return` before descending and
never enters a function literal."""
import os
import sys

HERE = os.path.dirname(os.path.abspath(__file__))
ROOT = os.path.dirname(os.path.dirname(HERE))
sys.path.insert(0, os.path.join(ROOT, "vc"))
sys.path.insert(0, os.path.join(ROOT, "units"))
import rewrite as rw  # noqa: E402
from gen import Contract, UnitFile  # noqa: E402
import common  # noqa: E402

TA = "src/add_type_annotation.rs"
RLIMIT = 60
MIN_FUNCTIONS = 3

ASSUMPTIONS = {
    "SyntaxId": "opaque", "Type": "opaque stand-in for garden_type::Type", "clone": "Clone returns an equal value", "unit": "Type::unit() is the type Unit",
    "TyMap": "opaque stand-in for FxHashMap<SyntaxId, Type>", "vtm_get_cloned": "FxHashMap::get(..).cloned()",
    "is_subtype": "garden_type::is_subtype (under contract in unit subtype) as an uninterpreted relation `sub`",
    "ExprKind": "the part of ast::Expression_ these functions distinguish: a `return` with or without a value, or anything else",
    "vlast": "slice::last", "visit_block": "ReturnFinder's traversal of a block (Visitor::visit_block, default): afterwards `returned` holds `returns_of(block)`, the values of the `return` expressions of the block outside function literals, by induction over visit_expr (under contract here) and the default traversal (not machine-checked)",
    "visit_expr_": "Visitor::visit_expr_ (default traversal of the children): only appends to `returned`",
    "FunInfo": "opaque", "vopt_clone": "Option<Rc<Expression>>::clone returns the same expression",
}
LEMMAS = {}
UNVERIFIED = {"C21": [
    "add-type-annotation: that the type checker's id_to_ty is right, how the type renders as a hint (annotation_src / is_annotatable), and which positions are offered; the bounded stand-in wrapdbg.bounded[annotation_corpus] covers those on a corpus",
]}

GLUE = """
#[verifier::external_body] pub struct SyntaxId { _o: u8 }
#[verifier::external_body] pub struct Type { _o: u8 }
#[verifier::external_body] pub struct TyMap { _o: u8 }
#[verifier::external_body] pub struct FunInfo { _o: u8 }
impl Clone for Type {
    #[verifier::external_body]
    fn clone(&self) -> (r: Self) ensures r == *self { unimplemented!() }
}
pub uninterp spec fn unit_ty() -> Type;
pub uninterp spec fn sub(a: Type, b: Type) -> bool;
pub uninterp spec fn ty_of(m: TyMap, id: SyntaxId) -> Option<Type>;
impl Type {
    #[verifier::external_body]
    pub fn unit() -> (r: Type) ensures r == unit_ty() { unimplemented!() }
}
#[verifier::external_body]
pub fn is_subtype(a: &Type, b: &Type) -> (r: bool) ensures r == sub(*a, *b) { unimplemented!() }
#[verifier::external_body]
pub fn vtm_get_cloned(m: &TyMap, id: &SyntaxId) -> (r: Option<Type>) ensures r == ty_of(*m, *id) { unimplemented!() }
/// the parts of the syntax tree these functions read
pub enum Expression_ { Return(Option<Expression>), Other }
pub struct Expression { pub id: SyntaxId, pub expr_: Box<Expression_> }
pub struct Block { pub exprs: Vec<Expression> }
pub struct AnnotationFinder<'a> { pub id_to_ty: &'a TyMap }
#[verifier::external_body]
pub fn vlast(v: &Vec<Expression>) -> (r: Option<&Expression>)
    ensures v@.len() == 0 ==> r is None, v@.len() > 0 ==> r == Some(&v@[v@.len() - 1]),
{ unimplemented!() }
#[verifier::external_body]
pub fn vopt_clone(v: &Option<Expression>) -> (r: Option<Expression>) ensures r == *v { unimplemented!() }
/// the values of the `return` expressions of a block, outside function literals, in traversal order
pub uninterp spec fn returns_of(b: Block) -> Seq<Option<Expression>>;
/// the type a `return` gives back
pub open spec fn returned_ty(m: TyMap, v: Option<Expression>) -> Option<Type> {
    match v { Some(e) => ty_of(m, e.id), None => Some(unit_ty()) }
}
impl ReturnFinder {
    #[verifier::external_body]
    pub fn visit_block(&mut self, block: &Block)
        ensures final(self).returned@ == old(self).returned@ + returns_of(*block),
    { unimplemented!() }
    #[verifier::external_body]
    pub fn visit_expr_(&mut self, e: &Expression_)
        ensures old(self).returned@.is_prefix_of(final(self).returned@),
    { unimplemented!() }
}
"""

WITNESSES = [
    {"match": r"annotret\.", "kind": "refactor-corpus", "props": ["C21"], "expect": {}, "check_errors_not_more": True,
     "command": ["reftest-add-type-annotation", "{file}", "{offset}", "{offset}"], "note": "add_type_annotation at every cursor position of functions with early returns",
     "input": ["fun early(n: Int) {\n  if n > 1 { return \"big\" }\n  n\n}\nprintln(string_repr(early(1)))\nprintln(string_repr(early(2)))\n",
               "fun describe(n: Int) {\n  if n < 0 {\n    return\n  }\n  n * 2\n}\nprintln(string_repr(describe(2)))\nprintln(string_repr(describe(0 - 1)))\n",
               "fun same(n: Int) {\n  if n > 1 { return 5 }\n  n\n}\nprintln(string_repr(same(1)))\nprintln(string_repr(same(2)))\n"]},
]


def build(tier):
    u = UnitFile("annotret")
    u.raw(common.HEADER)
    T = [rw.simple("T1", r"Rc<Expression>", "Expression")]
    u.raw(GLUE, kind="prelude")
    u.add_type(TA, "ReturnFinder", rules=T)
    props = {"C21"}
    Q = rw.simple("Rq", r"self\.id_to_ty\.get\(&expr\.id\)\.cloned\(\)\?", "(match vtm_get_cloned(self.id_to_ty, &expr.id) { Some(__t) => __t, None => { return None; } })")
    M = "*self.id_to_ty"
    last_ty = "(if body.exprs@.len() == 0 { Some(unit_ty()) } else { ty_of(%s, body.exprs@[body.exprs@.len() - 1].id) })" % M
    u.add_fn(TA, "body_return_ty", impl="AnnotationFinder", wrap_impl="<'a> AnnotationFinder<'a>",
             rules=[Q, rw.simple("R2", r"body\.exprs\.last\(\)", "vlast(&body.exprs)"), rw.simple("R2", r"vec!\[\]", "Vec::new()"), "R4"],
             contract=Contract(
                 ensures=[("the_type_of_the_last_expression_or_nothing", "r is Some ==> r == %s" % last_ty),
                          ("every_return_gives_back_a_subtype_of_it", "r is Some ==> forall|i: int| 0 <= i < returns_of(*body).len() ==> returned_ty(%s, #[trigger] returns_of(*body)[i]) is Some && sub(returned_ty(%s, returns_of(*body)[i])->Some_0, r->Some_0)" % (M, M)),
                          ("offered_when_the_returns_agree", "(%s is Some && forall|i: int| 0 <= i < returns_of(*body).len() ==> returned_ty(%s, #[trigger] returns_of(*body)[i]) is Some && sub(returned_ty(%s, returns_of(*body)[i])->Some_0, %s->Some_0)) ==> r is Some" % (last_ty, M, M, last_ty))],
                 loops={1: dict(invariant=[("returns_so_far_agree", "{I} <= finder.returned@.len(), finder.returned@ == returns_of(*body), Some(ty) == %s, forall|i: int| 0 <= i < {I} ==> returned_ty(%s, #[trigger] finder.returned@[i]) is Some && sub(returned_ty(%s, finder.returned@[i])->Some_0, ty)" % (last_ty, M, M))],
                                decreases="finder.returned@.len() - {I}")},
                 props=props))
    u.add_fn(TA, "visit_expr", impl="Visitor for ReturnFinder", wrap_impl="ReturnFinder",
             rules=[rw.simple("R2", r"if let Expression_::Return\(value\) = &expr\.expr_ \{", "if let Expression_::Return(value) = &*expr.expr_ {"),
                    rw.simple("R11", r"self\.returned\.push\(value\.clone\(\)\);", "self.returned.push(vopt_clone(value));")],
             contract=Contract(
                 ensures=[("a_return_is_recorded_with_its_value_before_its_children", "match *expr.expr_ { Expression_::Return(v) => old(self).returned@.push(v).is_prefix_of(final(self).returned@), Expression_::Other => old(self).returned@.is_prefix_of(final(self).returned@) }")],
                 props=props))
    u.add_fn(TA, "visit_expr_fun_literal", impl="Visitor for ReturnFinder", wrap_impl="ReturnFinder",
             rules=[rw.simple("R1", r"\b_: &FunInfo", "_fun_info: &FunInfo")],
             contract=Contract(ensures=[("returns_inside_a_function_literal_are_not_the_enclosing_functions", "final(self).returned@ == old(self).returned@")], props=props))
    u.add_canary_proof()
    u.raw(common.FOOTER)
    return u
