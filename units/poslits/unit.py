"""Unit `poslits` (C23): every hand-built `Position { .. }` literal outside the lexer.  A Garden position is two
points (offset, line, column); the lexer proves each of its points consistent (unit lex).  A literal built from the
fields of other positions stays consistent if each of its two points is taken WHOLE from one point of a consistent
position - start_offset / line_number / column from the same (start or end) point of one source, likewise
end_offset / end_line_number / end_column.  Each literal is extracted on every run into a function whose parameters
are the positions its field expressions read; the obligation is `pt_ok(result)` given `pt_ok` of the parameters."""
import glob
import hashlib
import os
import re
import sys

HERE = os.path.dirname(os.path.abspath(__file__))
ROOT = os.path.dirname(os.path.dirname(HERE))
sys.path.insert(0, os.path.join(ROOT, "vc"))
sys.path.insert(0, os.path.join(ROOT, "units"))
from gen import UnitFile, Tag, REPO  # noqa: E402
from extract import ExtractError  # noqa: E402
import common  # noqa: E402

RLIMIT = 60
MIN_FUNCTIONS = 3
FIELDS = ("start_offset", "end_offset", "line_number", "end_line_number", "column", "end_column")
SKIP_FILES = {"src/parser/lex.rs": "proved against pos_ok in unit lex", "src/parser/position.rs": "Position::merge is proved in unit lex; the rest are tests"}
# literals that are not obligations: (file regex, regex on the whitespace-free literal text, reason)
ALLOWED = [
    (r"src/checks/type_checker\.rs", r"start_offset:0,end_offset:0,line_number:0,end_line_number:0,column:0,end_column:0", "synthetic position of a definition that has no source text (built-in stubs)"),
    (r"src/checks/type_checker\.rs", r"start_offset:insert_offset,end_offset:insert_offset,.*column:0,end_column:0", "start of the line that holds the closing brace (end_offset - end_column), column 0: consistent because columns are byte columns (col_of)"),
    (r"src/checks/unused_vars\.rs", r"start_offset:first_tp\.position\.start_offset-1,", "the `<` one byte before the first type parameter, column - 1 on the same line (since /repo ad1965d only for a function without a name, which cannot have type parameters; with a name the span starts at the end of the name and is an obligation)"),
]

ASSUMPTIONS = {
    "nondet_usize": "a field expression that is not a field of a position may be anything",
}
LEMMAS = {}
UNVERIFIED = {"C23": [
    "position literals: only the coherence of each (offset, line, column) triple is an obligation; that start <= end, that both lie in the file, and the three listed literals (units/poslits/unit.py ALLOWED: a synthetic 0..0 position, a line-start position, a one-byte shift) are not",
    "positions changed field by field after construction (`p.end_offset = ..`, as checks/unused_literals.rs get_line_position does) are not literals and are covered by the bounded quick-fix range corpus only",
]}

GLUE = """
#[verifier::external_body]
pub fn nondet_usize() -> (r: usize) { unimplemented!() }
/// the six numeric fields of parser::position::Position
#[derive(Clone, Copy)]
pub struct GPos { pub start_offset: usize, pub end_offset: usize, pub line_number: usize, pub end_line_number: usize, pub column: usize, pub end_column: usize }
pub uninterp spec fn line_at(o: usize) -> usize;
pub uninterp spec fn col_at(o: usize) -> usize;
/// both points of the position are consistent: line and column are those of the offset
pub open spec fn pt_ok(p: GPos) -> bool {
    p.line_number == line_at(p.start_offset) && p.column == col_at(p.start_offset)
    && p.end_line_number == line_at(p.end_offset) && p.end_column == col_at(p.end_offset)
}
"""

WITNESSES = [
    {"match": r"poslits\.", "kind": "lsp-fix-ranges", "props": ["C23"], "input": common.LSP_FIX_PROGRAMS, "expect": {}, "timeout": 300,
     "note": "quick-fix ranges (built from the lints' position literals) against check --fix"},
]


def _split_top(s):
    parts, depth, cur = [], 0, ""
    for ch in s:
        if ch in "([{":
            depth += 1
        elif ch in ")]}":
            depth -= 1
        if ch == "," and depth == 0:
            parts.append(cur)
            cur = ""
        else:
            cur += ch
    if cur.strip():
        parts.append(cur)
    return parts


def find_literals(text):
    """(start, end, body) of each `Position { .. }` struct literal (not a type definition, impl or pattern with `..` only)"""
    out = []
    for m in re.finditer(r"(?<![\w:])Position\s*\{", text):
        pre = text[max(0, m.start() - 40):m.start()]
        if re.search(r"(struct|impl|for|->|enum)\s*$", pre) or re.search(r"impl\b[^{;]*$", pre):
            continue
        depth, i = 0, m.end() - 1
        while i < len(text):
            if text[i] == "{":
                depth += 1
            elif text[i] == "}":
                depth -= 1
                if depth == 0:
                    break
            i += 1
        body = text[m.end():i]
        if not re.search(r"\b(start_offset|end_offset)\s*:|\.\.", body):
            continue
        # a pattern (`let Position { start_offset, .. } = p`) has no `field: expr` for these fields
        if not re.search(r"\b(%s)\s*:" % "|".join(FIELDS), body):
            continue
        out.append((m.start(), i + 1, body))
    return out


def build(tier):
    u = UnitFile("poslits")
    u.raw(common.HEADER)
    u.raw(GLUE, kind="prelude")
    props = {"C23"}
    n = n_allowed = 0
    for fp in sorted(glob.glob(os.path.join(REPO, "src", "**", "*.rs"), recursive=True)):
        rel = os.path.relpath(fp, REPO)
        if rel in SKIP_FILES or "/test_files/" in rel:
            continue
        text = open(fp, encoding="utf-8").read()
        # test modules are not part of the program
        tm = re.search(r"\n#\[cfg\(test\)\]\s*\nmod tests\b", text)
        limit = tm.start() if tm else len(text)
        for k, (a, b, body) in enumerate(find_literals(text)):
            if a >= limit:
                continue
            line = text.count("\n", 0, a) + 1
            flat = re.sub(r"\s+", "", re.sub(r"//[^\n]*", "", body))
            if any(re.fullmatch(g, rel) and re.search(rx, flat) for (g, rx, _w) in ALLOWED):
                n_allowed += 1
                continue
            params, assigns, base = [], {}, None

            def param(expr):
                e = re.sub(r"\s+", "", expr)
                e = re.sub(r"\.clone\(\)$", "", e)
                e = e.lstrip("&*")
                if e not in params:
                    params.append(e)
                return "p%d" % params.index(e)
            for part in _split_top(re.sub(r"//[^\n]*", "", body)):
                part = part.strip()
                if not part:
                    continue
                if part.startswith(".."):
                    base = param(part[2:])
                    continue
                mm = re.match(r"(\w+)\s*:\s*(.*)$", part, re.S)
                if not mm:
                    # shorthand `start_offset,`
                    if part in FIELDS:
                        assigns[part] = "nondet_usize()"
                    continue
                fld, expr = mm.group(1), mm.group(2).strip()
                if fld not in FIELDS:
                    continue
                e = re.sub(r"\s+", "", expr)
                m2 = re.fullmatch(r"(?P<base>[\w\.\(\)\*&]+?)\.(?P<f>%s)" % "|".join(FIELDS), e)
                if m2:
                    assigns[fld] = "%s.%s" % (param(m2.group("base")), m2.group("f"))
                elif re.fullmatch(r"\d+", e):
                    assigns[fld] = e
                else:
                    assigns[fld] = "nondet_usize()"
            for fld in FIELDS:
                if fld not in assigns:
                    assigns[fld] = "%s.%s" % (base, fld) if base else "nondet_usize()"
            stem = re.sub(r"\W+", "_", rel[len("src/"):-len(".rs")])
            gname = "poslit_%s_%d" % (stem, k)
            u.fn_props[gname] = props
            u.safety_props[gname] = props
            u.skeletons[gname] = hashlib.sha256(",".join(sorted(re.findall(r"(\w+)\s*:", flat))).encode()).hexdigest()[:12]
            u.items.append({"name": "Position literal #%d" % k, "generated_as": gname, "kind": "slice", "where": "%s:%d" % (rel, line),
                            "sha256_16": hashlib.sha256(flat.encode()).hexdigest()[:16], "skeleton": u.skeletons[gname]})
            tag = Tag("repo", fn=gname, repo_file=rel, repo_line=line, props=props)
            sig = ", ".join("p%d: GPos" % i for i in range(len(params)))
            u.emit("/// %s:%d  parameters: %s" % (rel, line, ", ".join("p%d = %s" % (i, e) for i, e in enumerate(params))), tag)
            u.emit("pub fn %s(%s) -> (r: GPos)" % (gname, sig), tag)
            if params:
                u.raw("    requires", fn=gname, props=props)
                u.emit("        " + ", ".join("pt_ok(p%d)" % i for i in range(len(params))) + ",", tag)
            u.raw("    ensures", fn=gname, props=props)
            oid = "poslits.%s.post[each_point_is_taken_whole_from_a_consistent_point]" % gname
            u.clauses.append((oid, props, "pt_ok(r)"))
            u.emit("        pt_ok(r),", Tag("contract", fn=gname, clause=oid, props=props))
            u.emit("{", tag)
            u.emit("    GPos { %s }" % ", ".join("%s: %s" % (f, assigns[f]) for f in FIELDS), tag)
            u.emit("}", tag)
            n += 1
    if n < 8:
        raise ExtractError("only %d Position literals found outside the lexer" % n)
    u.clauses.append(("poslits.literals", props, "%d literals under contract, %d listed literals assumed" % (n, n_allowed)))
    u.add_canary_proof()
    u.raw(common.FOOTER)
    return u
