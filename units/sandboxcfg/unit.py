"""Unit `sandboxcfg` (C24, C25): the two entry points that run code in sandboxed mode —
run_sandboxed_playground (sandboxed_playground.rs) and sandboxed_tests_summary (test_runner.rs) —
as configuration slices (vc/cfgslice.py): every evaluation they start runs with enforce_sandbox set
and with a tick limit and a stack limit, on every path."""
import os
import re
import subprocess
import sys

HERE = os.path.dirname(os.path.abspath(__file__))
ROOT = os.path.dirname(os.path.dirname(HERE))
sys.path.insert(0, os.path.join(ROOT, "vc"))
sys.path.insert(0, os.path.join(ROOT, "units"))
from gen import UnitFile, Tag, REPO  # noqa: E402
from extract import ExtractError  # noqa: E402
import cfgslice  # noqa: E402
import common  # noqa: E402

RLIMIT = 30
MIN_FUNCTIONS = 2
TARGETS = [("src/sandboxed_playground.rs", "run_sandboxed_playground"), ("src/test_runner.rs", "sandboxed_tests_summary")]

ASSUMPTIONS = {
    "cfg_new": "Env::new (env.rs) builds an environment with enforce_sandbox false and no limits (the weakest assumption: nothing is set)",
    "cfg_unknown": "an Env from an untracked source: nothing known",
    "nondet": "a dropped condition may go either way", "nondet_u8": "a dropped match may take any arm",
}
LEMMAS = {}
UNVERIFIED = {
    "C24": ["the callees that receive `&mut env` without evaluating code (get_or_create_namespace, load_toplevel_items, current_frame_mut) are assumed not to change enforce_sandbox / tick_limit / stack_limit; the unit checks on every run that no other place in the crate assigns those fields",
            "that main.rs routes `playground-run` and `sandboxed-test` to these two functions"],
    "C25": ["as C24; that the limits, once set, bound the run is unit evalloop's obligation"],
}

GLUE = """
#[derive(Clone, Copy)]
pub struct Cfg { pub ticks: bool, pub stack: bool, pub sandbox: bool }
#[verifier::external_body]
pub fn cfg_new() -> (r: Cfg) ensures !r.ticks && !r.stack && !r.sandbox { unimplemented!() }
#[verifier::external_body]
pub fn cfg_unknown() -> (r: Cfg) { unimplemented!() }
#[verifier::external_body]
pub fn nondet() -> (r: bool) { unimplemented!() }
#[verifier::external_body]
pub fn nondet_u8() -> (r: u8) { unimplemented!() }
/// an evaluation of Garden code with this environment: the sandbox flag and both limits must be set
pub fn run_sandboxed(c: Cfg, what: &str)
    requires c.sandbox, c.ticks, c.stack,
{ }
"""

WITNESSES = [
    {"match": r"sandboxcfg\.", "kind": "sandboxed-test", "props": ["C24", "C25"], "args": [0], "timeout": 60,
     "input": "// cursor outside every test\nimport \"__fs.gdn\" as fs\n\ntest spin { while True { } }\n\ntest write_is_unsafe {\n  fs::write_file(\"escaped\", Path{ p: \"/var/tmp/garden_sandboxcfg_escaped.txt\" })\n}\n",
     "expect": {"py": "(__import__('os').path.exists('/var/tmp/garden_sandboxcfg_escaped.txt') and (__import__('os').remove('/var/tmp/garden_sandboxcfg_escaped.txt') or 'a test wrote a file in sandboxed mode')) or ('passed' in out and 'sandboxed' not in out and 'a file-writing test passed in sandboxed mode: ' + out[-200:]) or ''"},
     "note": "after a test that exhausts the tick budget, later tests must still run sandboxed"},
]

_ORACLE = "('the playground run crashed (status %s): %s' % (rc, err[-160:])) if (isinstance(rc, int) and rc != 0) or 'overflowed' in err else ('' if ('\"value\"' in out and '\"error\"' in out) else 'no JSON result: ' + out[-160:])"
_NEST = {"list": ("[]", "[x]"), "tuple": ("(1, 2)", "(x, 1)"), "option": ("None", "Some(x)"), "dict": ("Dict[]", "Dict[\"k\" => x]")}


def _nest_prog(kind, n, last):
    a, b = _NEST[kind]
    return "let x = %s\nlet i = 0\nwhile i < %d { x = %s  i += 1 }\n%s\n" % (a, n, b, last)


BOUNDED = [{"name": "moderately_nested_values:%s" % k, "kind": "playground", "props": ["C25"], "n_inputs": 1, "timeout": 120,
            "input": _nest_prog(k, 300, "println(string_repr(x == x))\nstring_repr(x).len()"), "expect": {"py": _ORACLE},
            "bound": "one playground program: a %s nested 300 deep, compared with itself, shown with string_repr: the run ends with a JSON result" % k} for k in sorted(_NEST)]
BOUNDED += [{"name": "tick_budget:%s" % k, "kind": "playground", "props": ["C25"], "n_inputs": 1, "timeout": 120, "input": t, "expect": {"py": _ORACLE + " or ('' if 'limit' in out else 'no limit error: ' + out[-160:])"},
             "bound": "one playground program (%s): the run ends with a resource-limit error" % k}
            for k, t in (("infinite_while", "while True { }\n"), ("unbounded_recursion", "fun f(n: Int): Int { f(n + 1) + 1 }\nf(0)\n"),
                         ("mutual_recursion_in_closures", "fun a(n: Int): Int { let g = fun(m: Int): Int { b(m) }  g(n + 1) }\nfun b(n: Int): Int { a(n) + 1 }\na(0)\n"),
                         ("loop_inside_a_test_then_toplevel_loop", "test spin { while True { } }\nlet n = 0\nwhile True { n += 1 }\n"))]
_BLOCK_ORACLE = "('the run did not finish (standard input is an open pipe that never delivers anything)' if rc == 'timeout' else ('' if 'unsafe' in out or 'sandbox' in out.lower() else 'no sandbox refusal: ' + out[-200:]))"
BOUNDED += [{"name": "blocking_builtin:%s" % k, "kind": kind_, "props": ["C25"], "n_inputs": 1, "timeout": 20, "stdin_open": True, "input": t, "args": [0], "expect": {"py": _BLOCK_ORACLE, "timeout_ok": True},
             "bound": "one sandboxed program (%s) run with standard input attached to a pipe that stays open and silent: the run ends with the sandbox refusal" % k}
            for k, kind_, t in (("read_line_in_playground", "playground", "println(\"name?\")\nlet n = read_line()\nprintln(n)\n"),
                                ("read_line_in_a_function_value", "playground", "let f = read_line\nlet xs = [1].map(fun(_) { f() })\nprintln(string_repr(xs))\n"),
                                ("read_line_in_sandboxed_test", "sandboxed-test", "// cursor outside every test\ntest waits { let n = read_line()  assert(n == \"\") }\n"),
                                ("shell_sleep_in_playground", "playground", "import \"__shell.gdn\" as shell\nshell::run(\"sleep\", [\"600\"])\n"))]
for _dn, _dk, _dd, _dl in (("nested_list_6000", "list", 6000, "1"), ("nested_option_6000", "option", 6000, "1"), ("nested_list_3000_displayed", "list", 3000, "x")):
    BOUNDED.append({"name": "deep_value:" + _dn, "kind": "playground", "props": ["C25"], "n_inputs": 1, "timeout": 120, "input": _nest_prog(_dk, _dd, _dl), "expect": {"py": _ORACLE},
                    "bound": "one playground program: a %s nested %d deep%s" % (_dk, _dd, ", displayed as the result" if _dl == "x" else "")})


def build(tier):
    u = UnitFile("sandboxcfg")
    u.raw(common.HEADER)
    u.raw(GLUE, kind="prelude")
    props = {"C24", "C25"}
    for rel, fname in TARGETS:
        src = u.source(rel)
        host = src.find_fn(fname)
        toks = src.toks
        idx = [k for k, t in enumerate(toks) if host.start <= t.start < host.end]
        # body braces
        k0 = next(k for k in idx if toks[k].text == "{" and toks[k].kind == "punct")
        sl = cfgslice.CfgSlicer(src)
        c = sl.close(k0)
        sl.block(k0 + 1, c, "    ")
        if sl.n_runs == 0:
            raise ExtractError("%s: no evaluation call found (expected one of %s with `&mut env`)" % (fname, ", ".join(cfgslice.EVAL_FNS)))
        gname = "slice_" + fname
        u.fn_props[gname] = props
        u.items.append({"name": "%s (configuration slice)" % fname, "generated_as": gname, "kind": "slice", "where": host.where,
                        "sha256_16": host.sha(), "skeleton": "-"})
        u.raw("#[verifier::exec_allows_no_decreases_clause]", fn=gname, props=props)
        u.emit("pub fn %s() {" % gname, Tag("repo", fn=gname, repo_file=rel, repo_line=host.line0, props=props))
        for (ln_text, ln_no) in sl.out:
            u.emit(ln_text, Tag("repo", fn=gname, repo_file=rel, repo_line=ln_no, props=props))
        u.emit("}", Tag("repo", fn=gname, repo_file=rel, repo_line=host.line0, props=props))
        u.clauses.append(("sandboxcfg.%s.every_evaluation_is_sandboxed_and_limited" % gname, props,
                          "%d evaluation call(s), %d flag/limit assignment(s) kept" % (sl.n_runs, sl.n_sets)))
    # the three fields are assigned nowhere else
    out = subprocess.run(["grep", "-rnE", r"\.(enforce_sandbox|tick_limit|stack_limit)\s*=[^=]", os.path.join(REPO, "src"), "--include=*.rs"],
                         capture_output=True, text=True).stdout
    others = [ln for ln in out.split("\n") if ln and not any(ln.startswith(os.path.join(REPO, rel)) for rel, _ in TARGETS)]
    if others:
        raise ExtractError("the sandbox flag / limits are assigned outside the sliced functions: %s" % "; ".join(o.replace(REPO + "/", "") for o in others)[:300])
    u.add_canary_proof()
    u.raw(common.FOOTER)
    return u
