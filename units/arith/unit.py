"""Unit `arith`: the operator match blocks of eval_int_binop / eval_assign_update (eval.rs)
and the dispatch pattern that guards eval_int_binop.  Properties C04, C02."""
import os
import re
import sys

HERE = os.path.dirname(os.path.abspath(__file__))
ROOT = os.path.dirname(os.path.dirname(HERE))
sys.path.insert(0, os.path.join(ROOT, "vc"))
sys.path.insert(0, os.path.join(ROOT, "units"))
import rewrite as rw  # noqa: E402
from gen import Contract, UnitFile  # noqa: E402
from extract import ExtractError  # noqa: E402
import common  # noqa: E402

EV = "src/eval.rs"
AST = "src/parser/ast.rs"
VAL = "src/values.rs"

RLIMIT = 60
MIN_FUNCTIONS = 4

ASSUMPTIONS = dict(common.OPAQUE_ASSUMPTIONS)
ASSUMPTIONS.update(common.VALUE_GLUE_ASSUMPTIONS)
ASSUMPTIONS.update(common.FMT_ASSUMPTIONS)
ASSUMPTIONS.update({
    "vc_clone": "Clone returns a value equal to the original",
    "vs_string_eq_lit": "std String == &str", "vs_string_eq": "std String == String",
    "vs_string_from_lit": "std to_owned",
    "bool": "Value::bool(b) returns the Garden Bool value for b (built from a thread_local; ghost `bool_value(b)`)",
    "checked_pow": "i64::checked_pow(a, n) is Some(a^n) iff a^n fits in i64 (std documentation); its loop is not verified",
    "wrapping_rem_euclid": "i64::wrapping_rem_euclid(a, b) panics iff b == 0 and otherwise returns the Euclidean remainder (std documentation; MIN % -1 is 0)",
    "Type": "opaque stand-in for garden_type::Type (not inspected here)",
    "TypeName": "opaque stand-in for parser::ast::TypeName (not inspected here)",
    "Env": "opaque stand-in for env::Env (only passed to message formatting, which R9 removes)",
    "bool_value": "uninterpreted ghost: the Garden Bool value for a Rust bool",
    "vfl_is_zero": "`x == 0.0` on f64 is the IEEE comparison (ghost fzero)", "vfl_add": "f64 `+` is IEEE addition (ghost fadd)", "vfl_sub": "f64 `-` (ghost fsub)",
    "vfl_mul": "f64 `*` (ghost fmul)", "vfl_div": "f64 `/` is the IEEE quotient (ghost fdiv)",
})

LEMMAS = {"lemma_trunc_is_rust_div": {"C04"}, "lemma_trunc_div_i64": {"C04"}, "lemma_pow_small_base": {"C04"}, "lemma_pow_abs_ge_pow2": {"C04"}, "lemma_pow2_mono": {"C04"}, "lemma_pow2_64": {"C04"}, "lemma_pow_huge": {"C04"}}

UNVERIFIED = {
    "C04": ["float VALUES: f64 `+ - * /` and `== 0.0` are uninterpreted IEEE operations (fadd/fsub/fmul/fdiv/fzero); what is proved for eval_float_binop's block is which operation each operator performs and that `/.` raises exactly when the divisor compares equal to zero",
            "the operand extraction above the block (pop order, type checks) — see C07's unit",
            "`Value::display` of the result (how the number is printed)"],
    "C02": ["the rest of eval.rs; only the arithmetic blocks' panic-freedom is covered here"],
}

MIN = "(-9223372036854775807 - 1)"
WITNESSES = [
    {"match": r"int_arm\.post\[(lt|gt|le|ge)\]", "kind": "run", "props": ["C04"],
     "input": "let max = 9223372036854775807\nlet min = %s\nfun show(a: Bool, b: Bool, c: Bool, d: Bool) { println(string_repr([a, b, c, d])) }\n"
              "show(max < -2, max > -2, max <= -2, max >= -2)\nshow(min < 1, min > 1, min <= 1, min >= 1)\nshow(min < max, min > max, min <= max, min >= max)\n"
              "show(max < min, max > min, max <= min, max >= min)\nshow(4611686018427387904 > -4611686018427387904, -4611686018427387905 < 4611686018427387904, 0 < max, min < 0)\nshow(3 < 5, 5 < 3, 5 <= 5, 5 >= 6)" % MIN,
     "expect": {"stdout": "[False, True, False, True]\n[True, False, True, False]\n[True, False, True, False]\n[False, True, False, True]\n[True, True, True, True]\n[True, False, True, False]"},
     "note": "comparisons of integers that are more than 2^63 apart"},
    {"match": r"int_arm\.(post\[div_total\]|safety@pre)", "kind": "run", "props": ["C04", "C02"],
     "input": "println(string_repr(%s / -1))" % MIN,
     "expect": {"stdout_contains": "Exception"}, "note": "i64::MIN / -1 must raise a Garden exception"},
    {"match": r"int_arm\.post\[div_total\]", "kind": "run", "props": ["C04"],
     "input": "println(string_repr(-7 / 2))\nprintln(string_repr(7 / -2))\nprintln(string_repr(-7 / -2))",
     "expect": {"stdout": "-3\n-3\n3"}, "note": "truncation toward zero"},
    {"match": r"int_arm\.post\[mod_euclid\]", "kind": "run", "props": ["C04"],
     "input": "println(string_repr(%s %% -1))" % MIN,
     "expect": {"stdout": "0"}, "note": "Euclidean remainder of MIN by -1 is 0"},
    {"match": r"int_arm\.post\[mod_euclid\]", "kind": "run", "props": ["C04"],
     "input": "println(string_repr(-7 % 3))\nprintln(string_repr(7 % -3))\nprintln(string_repr(-7 % -3))",
     "expect": {"stdout": "2\n1\n2"}},
    {"match": r"int_arm\.post\[exp_exact\]", "kind": "run", "props": ["C04"],
     "input": "println(string_repr(1 ** 4294967296))",
     "expect": {"stdout": "1"}, "note": "1 to any power is representable"},
    {"match": r"int_arm\.post\[exp_exact\]", "kind": "run", "props": ["C04"],
     "input": "println(string_repr(2 ** 62))\nprintln(string_repr(-2 ** 63))\nprintln(string_repr(3 ** 0))",
     "expect": {"stdout": "4611686018427387904\n-9223372036854775808\n1"}},
    {"match": r"int_arm\.post\[exp_exact\]", "kind": "run", "props": ["C04"],
     "input": "println(string_repr(0 ** 4294967296))\nprintln(string_repr(0 ** 4294967297))\nprintln(string_repr(-1 ** 4294967296))\nprintln(string_repr(-1 ** 4294967297))\nprintln(string_repr(0 ** 0))\nprintln(string_repr(-2 ** 3))",
     "expect": {"stdout": "0\n0\n1\n-1\n1\n-8"}, "note": "huge exponents of 0 and -1; 0 ** 0 is 1"},
    {"match": r"int_arm\.post\[(add|sub|mul)_wraps\]", "kind": "run", "props": ["C04"],
     "input": "println(string_repr(9223372036854775807 + 1))\nprintln(string_repr(%s - 1))\nprintln(string_repr(4611686018427387904 * 2))" % MIN,
     "expect": {"stdout": "-9223372036854775808\n9223372036854775807\n-9223372036854775808"}},
    {"match": r"assign_arm\.(safety@overflow|post\[assign_eq_add\])", "kind": "run", "props": ["C04", "C02"],
     "input": "let x = 9223372036854775807\nx += 1\nprintln(string_repr(x))",
     "expect": {"stdout": "-9223372036854775808"}, "note": "x += e must equal x = x + e (wrapping)"},
    {"match": r"assign_arm\.(safety@overflow|post\[assign_eq_sub\])", "kind": "run", "props": ["C04", "C02"],
     "input": "let x = %s\nx -= 1\nprintln(string_repr(x))" % MIN,
     "expect": {"stdout": "9223372036854775807"}},
    {"match": r"float_arm\.", "kind": "run", "props": ["C04"],
     "input": "println(string_repr(1.0 /. 0.00000000000000000001))\nprintln(string_repr(0.5 +. 0.25))\nprintln(string_repr(0.5 -. 0.25))\nprintln(string_repr(0.5 *. 0.25))\nprintln(string_repr(1.0 /. 4.0))\nprintln(string_repr(-3.0 /. 0.0000000000000001))",
     "expect": {"stdout": "100000000000000000000.0\n0.75\n0.25\n0.125\n0.25\n-30000000000000000.0"}, "note": "float operators are the IEEE operations; a tiny non-zero divisor is not zero"},
    {"match": r"float_arm\.", "kind": "run", "props": ["C04"], "input": "println(string_repr(1.0 /. 0.0))", "expect": {"stderr_contains": "by zero"}},
    {"match": r"float_arm\.", "kind": "run", "props": ["C04"], "input": "println(string_repr(1.0 /. -0.0))", "expect": {"stderr_contains": "by zero"}},
    {"match": r"int_arm\.post\[(lt|gt|le|ge)\]", "kind": "run", "props": ["C04"],
     "input": "println(string_repr(1 < 1))\nprintln(string_repr(1 <= 1))\nprintln(string_repr(2 > 2))\nprintln(string_repr(2 >= 2))\nprintln(string_repr(-1 < 0))",
     "expect": {"stdout": "False\nTrue\nFalse\nTrue\nTrue"}},
]
sys.path.insert(0, os.path.dirname(os.path.abspath(__file__)))
import discarded  # noqa: E402
WITNESSES += discarded.witnesses(r"arith\.", ["C04"])

GLUE = """
#[verifier::external_body] pub struct Type { _o: u8 }
#[verifier::external_body] pub struct TypeName { _o: u8 }
#[verifier::external_body] pub struct Env { _o: u8 }
"""

BOOL_GLUE = """
impl Value {
    #[verifier::external_body]
    pub fn bool(b: bool) -> (r: Self)
        ensures *r.0 == bool_value(b),
    { unimplemented!() }
}
pub assume_specification [i64::checked_pow] (a: i64, n: u32) -> (r: std::option::Option<i64>)
    ensures r == (if in64(pow_int(a as int, n as nat)) { Some(pow_int(a as int, n as nat) as i64) } else { None::<i64> });
pub assume_specification [i64::wrapping_rem_euclid] (a: i64, b: i64) -> (r: i64)
    requires b != 0,
    ensures r == (a as int) % (b as int);
"""

FLOAT_GLUE = """
// IEEE-754 double arithmetic, uninterpreted: `fzero(x)` is `x == 0.0` (true for +0.0 and -0.0 only)
pub uninterp spec fn fzero(x: f64) -> bool;
pub uninterp spec fn fadd(a: f64, b: f64) -> f64;
pub uninterp spec fn fsub(a: f64, b: f64) -> f64;
pub uninterp spec fn fmul(a: f64, b: f64) -> f64;
pub uninterp spec fn fdiv(a: f64, b: f64) -> f64;
#[verifier::external_body] pub fn vfl_is_zero(x: f64) -> (r: bool) ensures r == fzero(x) { x == 0.0 }
#[verifier::external_body] pub fn vfl_add(a: f64, b: f64) -> (r: f64) ensures r == fadd(a, b) { a + b }
#[verifier::external_body] pub fn vfl_sub(a: f64, b: f64) -> (r: f64) ensures r == fsub(a, b) { a - b }
#[verifier::external_body] pub fn vfl_mul(a: f64, b: f64) -> (r: f64) ensures r == fmul(a, b) { a * b }
#[verifier::external_body] pub fn vfl_div(a: f64, b: f64) -> (r: f64) ensures r == fdiv(a, b) { a / b }
pub open spec fn ok_float(r: Result<Value, (RestoreValues, EvalError)>, x: f64) -> bool {
    r is Ok && *r->Ok_0.0 == Value_::Float(x)
}
"""

UNREACH = rw.simple("R12", r"\bunreachable!\(\)", "vstd::pervasive::unreached()")

A = "lhs_num as int"
B = "rhs_num as int"


def build(tier):
    u = UnitFile("arith")
    u.raw(common.HEADER)
    u.raw(common.prelude("strings.rs"), kind="prelude")
    u.raw(common.OPAQUE, kind="prelude")
    u.raw(GLUE, kind="prelude")
    u.add_type(VAL, "Value")
    u.add_type(VAL, "Value_", rules=common.VALUE_TYPE_RULES)
    u.raw(common.VALUE_GLUE, kind="prelude")
    common.add_error_types(u)
    u.raw(common.FMT, kind="prelude")
    u.add_type(AST, "BinaryOperatorKind")
    u.add_type(AST, "BinaryOperatorSymbol")
    u.add_type(AST, "AssignUpdateKind")
    u.raw(open(os.path.join(HERE, "specs.rs")).read(), kind="spec")
    u.raw(BOOL_GLUE, kind="prelude")

    both = {"C04", "C02"}
    k = "op.kind"
    u.add_block_fn(
        EV, "eval_int_binop", "let value = match op.kind {", upto=";",
        sig=("pub fn int_arm(op: &BinaryOperatorSymbol, lhs_num: i64, rhs_num: i64, lhs_value: Value, "
             "rhs_value: Value, position: &Position, env: &Env) -> Result<Value, (RestoreValues, EvalError)>"),
        suffix="\n    Ok(value)",
        rules=[common.r9, common.CLONE, UNREACH],
        contract=Contract(
            requires=[("int_op", "is_int_op(op.kind)")],
            ensures=[
                ("add_wraps", "%s is Add ==> ok_int(r, wrap64(%s + %s))" % (k, A, B), {"C04"}),
                ("sub_wraps", "%s is Subtract ==> ok_int(r, wrap64(%s - %s))" % (k, A, B), {"C04"}),
                ("mul_wraps", "%s is Multiply ==> ok_int(r, wrap64(%s * %s))" % (k, A, B), {"C04"}),
                ("div_zero", "%s is Divide && rhs_num == 0 ==> r is Err" % k, {"C04"}),
                ("div_total", "%s is Divide && rhs_num != 0 ==> (if in64(trunc_div(%s, %s)) { ok_int(r, trunc_div(%s, %s)) } else { r is Err })" % (k, A, B, A, B), {"C04"}),
                ("mod_zero", "%s is Modulo && rhs_num == 0 ==> r is Err" % k, {"C04"}),
                ("mod_euclid", "%s is Modulo && rhs_num != 0 ==> ok_int(r, (%s) %% (%s))" % (k, A, B), {"C04"}),
                ("exp_negative", "%s is Exponent && rhs_num < 0 ==> r is Err" % k, {"C04"}),
                ("exp_exact", "%s is Exponent && rhs_num >= 0 ==> (if in64(pow_int(%s, rhs_num as nat)) { ok_int(r, pow_int(%s, rhs_num as nat)) } else { r is Err })" % (k, A, A), {"C04"}),
                ("bitand", "%s is BitwiseAnd ==> ok_int(r, (lhs_num & rhs_num) as int)" % k, {"C04"}),
                ("bitor", "%s is BitwiseOr ==> ok_int(r, (lhs_num | rhs_num) as int)" % k, {"C04"}),
                ("lt", "%s is LessThan ==> ok_bool(r, lhs_num < rhs_num)" % k, {"C04"}),
                ("gt", "%s is GreaterThan ==> ok_bool(r, lhs_num > rhs_num)" % k, {"C04"}),
                ("le", "%s is LessThanOrEqual ==> ok_bool(r, lhs_num <= rhs_num)" % k, {"C04"}),
                ("ge", "%s is GreaterThanOrEqual ==> ok_bool(r, lhs_num >= rhs_num)" % k, {"C04"}),
            ],
            hints=[("BinaryOperatorKind::Divide => {", "after",
                    "proof { lemma_trunc_div_i64(lhs_num as int, rhs_num as int); }"),
                   ("BinaryOperatorKind::Exponent => {", "after",
                    "proof { lemma_pow_huge(lhs_num as int, rhs_num as int); }")],
            props=both))

    u.add_block_fn(
        EV, "eval_assign_update", "let new_value_num = match op {", upto=";",
        sig="pub fn assign_arm(op: AssignUpdateKind, var_value_num: &i64, rhs_num: &i64) -> i64",
        suffix="\n    new_value_num",
        contract=Contract(
            ensures=[
                ("assign_eq_add", "op is Add ==> r == wrap64(*var_value_num + *rhs_num)", {"C04"}),
                ("assign_eq_sub", "op is Subtract ==> r == wrap64(*var_value_num - *rhs_num)", {"C04"}),
            ],
            props=both))

    # float operators: f64 arithmetic is the machine's IEEE-754 operation (uninterpreted ghost functions
    # fadd/fsub/fmul/fdiv); what is proved is which operation each operator performs and that `/.` raises
    # exactly when the divisor compares equal to zero
    FLOAT_RULES = [common.r9, common.CLONE, UNREACH,
                   rw.simple("F1", r"\brhs_float == 0\.0\b", "vfl_is_zero(rhs_float)"),
                   rw.simple("F1", r"\blhs_float \+ rhs_float\b", "vfl_add(lhs_float, rhs_float)"),
                   rw.simple("F1", r"\blhs_float - rhs_float\b", "vfl_sub(lhs_float, rhs_float)"),
                   rw.simple("F1", r"\blhs_float \* rhs_float\b", "vfl_mul(lhs_float, rhs_float)"),
                   rw.simple("F1", r"\blhs_float / rhs_float\b", "vfl_div(lhs_float, rhs_float)")]
    u.raw(FLOAT_GLUE, kind="prelude")
    u.add_block_fn(
        EV, "eval_float_binop", "let value = match op.kind {", upto=";",
        sig=("pub fn float_arm(op: &BinaryOperatorSymbol, lhs_float: f64, rhs_float: f64, lhs_value: Value, "
             "rhs_value: Value, position: &Position, env: &Env) -> Result<Value, (RestoreValues, EvalError)>"),
        suffix="\n    Ok(value)",
        rules=FLOAT_RULES,
        contract=Contract(
            requires=[("float_op", "op.kind is AddFloat || op.kind is SubtractFloat || op.kind is MultiplyFloat || op.kind is DivideFloat")],
            ensures=[
                ("fadd", "%s is AddFloat ==> ok_float(r, fadd(lhs_float, rhs_float))" % k, {"C04"}),
                ("fsub", "%s is SubtractFloat ==> ok_float(r, fsub(lhs_float, rhs_float))" % k, {"C04"}),
                ("fmul", "%s is MultiplyFloat ==> ok_float(r, fmul(lhs_float, rhs_float))" % k, {"C04"}),
                ("fdiv_by_zero_raises", "%s is DivideFloat && fzero(rhs_float) ==> r is Err" % k, {"C04"}),
                ("fdiv_is_ieee_quotient", "%s is DivideFloat && !fzero(rhs_float) ==> ok_float(r, fdiv(lhs_float, rhs_float))" % k, {"C04"}),
            ],
            props=both))

    # dispatch: the pattern that guards the call to eval_int_binop establishes int_arm's precondition
    src = u.source(EV)
    host = src.find_fn("eval_expr")
    blk = None
    for nth in range(0, 12):
        try:
            b = src.find_block(host, "op @ BinaryOperatorSymbol {", nth=nth)
        except ExtractError:
            break
        after = src.text[b.end:b.end + 500]
        if "eval_int_binop(" in after:
            blk = nth
            break
    if blk is None:
        raise ExtractError("dispatch pattern guarding eval_int_binop not found in eval_expr")
    u.add_block_fn(
        EV, "eval_expr", "op @ BinaryOperatorSymbol {", nth=blk,
        sig="pub fn int_dispatch(opx: &BinaryOperatorSymbol)",
        name="int_dispatch",
        prefix="match opx {\n", suffix=" => { assert(is_int_op(op.kind)); }\n _ => {} }",
        contract=Contract(props=both))
    # ---- the operator is evaluated (and can raise) whether or not its value is used ------------------------------------
    import hashlib
    from gen import Tag
    src_ev = u.source(EV)
    bad, seen_fns = [], []
    for fn_name in ("eval_int_binop", "eval_float_binop"):
        try:
            it = src_ev.find_fn(fn_name)
        except Exception:
            continue
        seen_fns.append(fn_name)
        body = re.sub(r"//[^\n]*", "", it.text)
        sig_end = body.index("{")
        m_ = re.search(r"\bmatch\s+op\s*\.\s*kind\b", body)
        if not m_:
            bad.append("%s: no `match op.kind`" % fn_name)
            continue
        head = body[sig_end:m_.start()]
        if re.search(r"\breturn\b(?!\s+Err\b)", head):
            bad.append("%s: a return that is not an error before the operator is evaluated" % fn_name)
        if re.search(r"\bexpr_value_is_used\b", head):
            bad.append("%s: expr_value_is_used is consulted before the operator is evaluated" % fn_name)
    if not seen_fns:
        bad.append("eval_int_binop not found")
    fname = "operator_evaluated_before_the_value_is_dropped"
    u.fn_props[fname] = {"C04"}
    u.skeletons[fname] = hashlib.sha256(("|".join(seen_fns) + "#" + ";".join(bad)).encode()).hexdigest()[:12]
    u.items.append({"name": "eval_int_binop / eval_float_binop: between popping the operands and `match op.kind` there is no way out except an error, and whether the value is used is not looked at",
                    "generated_as": fname, "kind": "slice", "where": EV, "sha256_16": "-", "skeleton": u.skeletons[fname]})
    oid = "arith.%s.post[an_unused_result_still_raises]" % fname
    u.clauses.append((oid, {"C04"}, "n == 0"))
    tg_ = Tag("repo", fn=fname, repo_file=EV, repo_line=src_ev.find_fn("eval_int_binop").line0 if "eval_int_binop" in seen_fns else 1, props={"C04"})
    u.emit("pub fn %s() -> (n: u64)" % fname, tg_)
    u.raw("    ensures", fn=fname, props={"C04"})
    u.emit("        n == 0,", Tag("contract", fn=fname, clause=oid, props={"C04"}))
    u.emit("{ %d }  // %s" % (len(bad), "; ".join(bad) or "checked: " + ", ".join(seen_fns)), tg_)
    u.add_canary_proof()
    u.raw(common.FOOTER)
    return u
