"""Witness programs for unit `arith` (C04): an integer operation raises in the same cases whether or not its value is
used (a statement in the middle of a block discards it)."""

MIN = "(-9223372036854775807 - 1)"
CASES = [
    ("7 / 0", True), ("%s / -1" % MIN, True), ("7 % 0", True), ("2 ** -1", True), ("2 ** 64", True), ("3 ** 40", True),
    ("7 / 2", False), ("7 % 2", False), ("2 ** 10", False), ("9223372036854775807 + 1", False),
]


def witnesses(match, props):
    out = []
    for (expr, raises) in CASES:
        for (what, body) in (("discarded in a function body", "fun f() {\n  %s\n  println(\"survived\")\n}\nf()\n"),
                             ("discarded in a loop body", "fun f() {\n  for _ in [1] {\n    %s\n    println(\"survived\")\n  }\n}\nf()\n"),
                             ("used", "fun f() {\n  let r = %s\n  println(\"survived\")\n  r\n}\nf()\n")):
            exp = ({"stdout_not_contains": "survived", "stderr_contains": "Exception"} if raises else {"stdout_contains": "survived"})
            out.append({"match": match, "kind": "run-file", "props": list(props), "timeout": 30, "input": body % expr, "expect": exp,
                        "note": "`%s` %s %s" % (expr, what, "raises" if raises else "does not raise")})
    return out
