// ---- units/arith/specs.rs: the documented integer arithmetic (C04), written from the
// property statement over mathematical integers. -------------------------------------------

/// two's-complement wrap of a mathematical integer into i64
pub open spec fn wrap64(x: int) -> int {
    let m = x % 0x1_0000_0000_0000_0000int;
    if m >= 0x8000_0000_0000_0000int { m - 0x1_0000_0000_0000_0000int } else { m }
}

pub open spec fn in64(x: int) -> bool { i64::MIN <= x <= i64::MAX }

pub open spec fn iabs(x: int) -> int { if x < 0 { -x } else { x } }

/// truncation toward zero: magnitude floor(|a| / |b|), sign = product of the signs
pub open spec fn trunc_div(a: int, b: int) -> int {
    let q = iabs(a) / iabs(b);
    if (a < 0) != (b < 0) { -q } else { q }
}

/// exact power
pub open spec fn pow_int(a: int, n: nat) -> int
    decreases n
{
    if n == 0 { 1 } else { a * pow_int(a, (n - 1) as nat) }
}

pub open spec fn is_int_op(k: BinaryOperatorKind) -> bool {
    k is Add || k is Subtract || k is Multiply || k is Divide || k is Modulo || k is Exponent
    || k is BitwiseAnd || k is BitwiseOr || k is LessThan || k is LessThanOrEqual
    || k is GreaterThan || k is GreaterThanOrEqual
}

/// the Garden value `True` / `False` (opaque: Value::bool builds it from a thread-local)
pub uninterp spec fn bool_value(b: bool) -> Value_;

pub open spec fn ok_int(r: Result<Value, (RestoreValues, EvalError)>, x: int) -> bool {
    r is Ok && in64(x) && *r->Ok_0.0 == Value_::Int(x as i64)
}

pub open spec fn ok_bool(r: Result<Value, (RestoreValues, EvalError)>, b: bool) -> bool {
    r is Ok && *r->Ok_0.0 == bool_value(b)
}

pub proof fn lemma_trunc_is_rust_div(a: int, b: int)
    requires b != 0,
    ensures trunc_div(a, b) == vstd::arithmetic::div_mod::rust_div(a, b),
{
    if b < 0 {
        let n = -b;
        if a > 0 {
            assert(a / b == -(a / n)) by (nonlinear_arith) requires n == -b, b < 0, a > 0;
        } else if a < 0 {
            let m = -a;
            assert(m / b == -(m / n)) by (nonlinear_arith) requires n == -b, b < 0, m > 0;
        } else {
            assert(0int / n == 0) by (nonlinear_arith) requires n > 0;
        }
    } else {
        if a == 0 { assert(0int / b == 0) by (nonlinear_arith) requires b > 0; }
    }
}

/// links the property's `trunc_div` to vstd's model of Rust's signed `/`, and bounds it
pub proof fn lemma_trunc_div_i64(a: int, b: int)
    requires in64(a), in64(b),
    ensures
        b != 0 ==> trunc_div(a, b) == vstd::arithmetic::div_mod::rust_div(a, b),
        b != 0 && !(a == i64::MIN && b == -1) ==> in64(trunc_div(a, b)),
        b != 0 && (a == i64::MIN && b == -1) ==> !in64(trunc_div(a, b)),
{
    if b != 0 {
        lemma_trunc_is_rust_div(a, b);
        let x = iabs(a);
        let y = iabs(b);
        assert(0 <= x / y <= x) by (nonlinear_arith) requires x >= 0, y >= 1;
        if y >= 2 {
            assert(2 * (x / y) <= x) by (nonlinear_arith) requires x >= 0, y >= 2;
        } else {
            assert(x / y == x) by (nonlinear_arith) requires x >= 0, y == 1;
        }
    }
}

// ---- powers with huge exponents -------------------------------------------------------------
pub proof fn lemma_pow_small_base(b: int, n: nat)
    requires -1 <= b <= 1, n >= 1,
    ensures pow_int(b, n) == (if b == 0 { 0int } else if b == 1 { 1int } else if n % 2 == 0 { 1int } else { -1int }),
    decreases n,
{
    let m = (n - 1) as nat;
    assert(pow_int(b, n) == b * pow_int(b, m));
    if n > 1 {
        lemma_pow_small_base(b, m);
        let p = pow_int(b, m);
        if b == 0 { assert(b * p == 0) by (nonlinear_arith) requires b == 0; }
        else if b == 1 { assert(b * p == p) by (nonlinear_arith) requires b == 1; }
        else { assert(b * p == -p) by (nonlinear_arith) requires b == -1; }
    } else {
        assert(pow_int(b, 0) == 1);
        assert(b * 1 == b) by (nonlinear_arith);
    }
}

pub proof fn lemma_pow_abs_ge_pow2(b: int, n: nat)
    requires iabs(b) >= 2,
    ensures iabs(pow_int(b, n)) >= pow_int(2, n), pow_int(2, n) >= 1,
    decreases n,
{
    if n > 0 {
        lemma_pow_abs_ge_pow2(b, (n - 1) as nat);
        let p = pow_int(b, (n - 1) as nat);
        let q = pow_int(2, (n - 1) as nat);
        assert(iabs(b * p) >= 2 * q) by (nonlinear_arith) requires iabs(b) >= 2, iabs(p) >= q, q >= 1;
    }
}

pub proof fn lemma_pow2_mono(m: nat, n: nat)
    requires m <= n,
    ensures pow_int(2, m) <= pow_int(2, n), pow_int(2, m) >= 1,
    decreases n,
{
    if m < n {
        lemma_pow2_mono(m, (n - 1) as nat);
    } else {
        lemma_pow_abs_ge_pow2(2, m);
    }
}

pub proof fn lemma_pow2_64()
    ensures pow_int(2, 64) == 0x1_0000_0000_0000_0000int,
{
    assert(pow_int(2, 64) == 0x1_0000_0000_0000_0000int) by (compute_only);
}

/// everything the Exponent arm needs about exponents above u32::MAX
pub proof fn lemma_pow_huge(b: int, n: int)
    requires in64(b), in64(n),
    ensures
        n > u32::MAX && -1 <= b <= 1 ==> pow_int(b, n as nat) == pow_int(b, (2 - n % 2) as nat) && in64(pow_int(b, n as nat)),
        n > u32::MAX && !(-1 <= b <= 1) ==> !in64(pow_int(b, n as nat)),
{
    if n > u32::MAX {
        if -1 <= b <= 1 {
            lemma_pow_small_base(b, n as nat);
            lemma_pow_small_base(b, (2 - n % 2) as nat);
        } else {
            lemma_pow_abs_ge_pow2(b, n as nat);
            lemma_pow2_mono(64, n as nat);
            lemma_pow2_64();
        }
    }
}
