"""Unit `subtype`: is_subtype / is_subtype_not_error / Type::is_no_value / Type::is_error
(garden_type.rs) and unify / unify_all (checks/type_checker.rs).  Properties C14, C15."""
import os
import sys

HERE = os.path.dirname(os.path.abspath(__file__))
ROOT = os.path.dirname(os.path.dirname(HERE))
sys.path.insert(0, os.path.join(ROOT, "vc"))
import gen  # noqa: E402
import rewrite as rw  # noqa: E402
from gen import Contract, UnitFile  # noqa: E402

sys.path.insert(0, HERE)
from witness_gen import witnesses_for  # noqa: E402,F401  (replay inputs, see witness_gen.py)

GT = "src/garden_type.rs"
TC = "src/checks/type_checker.rs"
AST = "src/parser/ast.rs"

RLIMIT = 60
MIN_FUNCTIONS = 8

ASSUMPTIONS = {
    "vs_string_eq_lit": "std: `String == &str` is equality of the character sequences",
    "vs_string_eq": "std: `String == String` / `!=` is (in)equality of the character sequences",
    "vs_string_from_lit": "std: `\"lit\".to_owned()` has the literal's characters",
    "vc_clone": "std/derived Clone returns a value equal to the original (Type, TypeName, TypeDefKind, Position derive Clone)",
    "vq_typename_eq": "derived PartialEq on `struct TypeName { text: String }` is equality of `text`",
    "vq_kind_eq": "derived PartialEq on the field-less enum TypeDefKind is variant equality",
    "vq_type_eq": "derived PartialEq on `enum Type`: identical values compare equal, and values that compare equal are structurally equal up to function-name symbols (Symbol's own PartialEq ignores positions)",
    "Symbol": "opaque stand-in for parser::ast::Symbol (never inspected by these functions)",
    "Position": "opaque stand-in for parser::position::Position (only cloned)",
}

LEMMAS = {
    "lemma_sub_refl": {"C14"}, "lemma_sub_trans": {"C14", "C15"}, "lemma_sub_top": {"C14"},
    "lemma_sub_bottom": {"C14"}, "lemma_sub_tuple_covariant": {"C14"},
    "lemma_sub_user_covariant": {"C14"}, "lemma_sub_fun_variance": {"C14"},
    "lemma_sub_fun_inversion": {"C14"}, "lemma_wf_consistent": {"C14"},
    "lemma_teq_sub": {"C15"}, "lemma_depth_elem": {"C14", "C15"}, "lemma_depth_index": {"C14", "C15"},
    "sub_dec": {"C14", "C15"}, "noerr_dec": {"C14", "C15"}, "wf_dec": {"C14"},
    "consistent_dec": {"C14"}, "teq_dec": {"C15"},
}

UNVERIFIED = {
    "C14": ["callers of is_subtype in checks/type_checker.rs and eval.rs (check_type) — that they pass the types they should is not covered",
            "Type::from_hint / from_value producing well-formed types"],
    "C15": ["the call sites that combine types (list/dict literals, if/else, match, try) in checks/type_checker.rs: the contract says unify/unify_all return an upper bound, not that every call site uses them"],
}

PRELUDE = open(os.path.join(ROOT, "prelude", "strings.rs")).read()

GLUE_TYPES = """
// opaque stand-ins (ASSUMPTION: never inspected by the functions under contract)
#[verifier::external_body]
pub struct Symbol { _o: u8 }
#[verifier::external_body]
pub struct Position { _o: u8 }
"""

GLUE_EQ = """
#[verifier::external_body]
pub fn vq_typename_eq(a: &TypeName, b: &TypeName) -> (r: bool)
    ensures r == (a.text@ == b.text@),
{ a.text == b.text }

#[verifier::external_body]
pub fn vq_kind_eq(a: &TypeDefKind, b: &TypeDefKind) -> (r: bool)
    ensures r == (*a == *b),
{ core::mem::discriminant(a) == core::mem::discriminant(b) }

#[verifier::external_body]
pub fn vq_type_eq(a: &Type, b: &Type) -> (r: bool)
    ensures (*a == *b) ==> r, r ==> teq(*a, *b),
{ unimplemented!() }
"""

STR_RULES = [
    rw.simple("R2", r"(\w+(?:\.\w+)*)\.text\s*==\s*(\"[^\"]*\")", r"vs_string_eq_lit(&\1.text, \2)"),
    rw.simple("R10", r"(\w+)\.text\s*!=\s*(\w+)\.text", r"!vs_string_eq(&\1.text, &\2.text)"),
    rw.simple("R10", r"\blhs_name == rhs_name\b", r"vq_typename_eq(lhs_name, rhs_name)"),
    rw.simple("R11", r"(\"[^\"]*\")\.to_owned\(\)", r"vs_string_from_lit(\1)"),
]
UNIFY_RULES = [
    rw.simple("R10", r"\bty_1 == ty_2\b", r"vq_type_eq(ty_1, ty_2)"),
    rw.simple("R10", r"\bkind_1 != kind_2\b", r"!vq_kind_eq(kind_1, kind_2)"),
    rw.simple("R11", r"\b(\w+)\.clone\(\)", r"vc_clone(\1)"),
]


def build(tier):
    u = UnitFile("subtype")
    u.raw("#![allow(unused_imports, dead_code, unused_variables, unused_mut, unused_parens, non_snake_case, unused_assignments)]")
    u.raw("use vstd::prelude::*;\nverus! {")
    u.raw(PRELUDE, kind="prelude")
    u.raw(GLUE_TYPES, kind="prelude")
    u.add_type(AST, "TypeName")
    u.add_type(GT, "TypeDefKind")
    u.add_type(GT, "Type")
    u.raw(open(os.path.join(HERE, "specs.rs")).read(), kind="spec")
    u.raw(GLUE_EQ, kind="prelude")

    both = {"C14", "C15"}
    u.add_fn(GT, "is_no_value", impl="Type", rules=STR_RULES, contract=Contract(
        ensures=[("is_nv", "r == is_nv(*self)")], props=both))
    u.add_fn(GT, "is_error", impl="Type", contract=Contract(
        ensures=[("is_error", "r == (*self is Error)")], props=both))
    u.add_fn(GT, "no_value", impl="Type", rules=STR_RULES, contract=Contract(
        ensures=[("is_nv", "is_nv(r)"), ("noerr", "noerr(r)"),
                 ("shape", "r is UserDefined && r->args@.len() == 0")], props={"C15"}))

    u.add_fn(GT, "is_subtype", rules=["R8", "R5"] + STR_RULES, contract=Contract(
        ensures=[("eq_sub", "consistent(*lhs, *rhs) ==> r == sub(*lhs, *rhs)")],
        decreases="depth(*lhs) + depth(*rhs)",
        attrs=[],
        loops={
            1: dict(invariant=[
                ("bounds", "0 <= __i1 <= lhs_elems@.len(), lhs_elems@.len() == rhs_elems@.len()"),
                ("ctx", "*lhs == Type::Tuple(*lhs_elems), *rhs == Type::Tuple(*rhs_elems), !is_nv(*lhs)"),
                ("prefix", "consistent(*lhs, *rhs) ==> (__all <==> forall|j: int| #![trigger lhs_elems@[j]] 0 <= j < __i1 ==> sub(lhs_elems@[j], rhs_elems@[j]))"),
            ], decreases="lhs_elems@.len() - __i1 + (if __all { 1int } else { 0int })"),
            2: dict(invariant=[
                ("bounds", "0 <= __i2 <= lhs_params@.len(), lhs_params@.len() == rhs_params@.len()"),
                ("ctx", "lhs is Fun, rhs is Fun, lhs->params == *lhs_params, rhs->params == *rhs_params, !is_nv(*lhs)"),
                ("prefix", "consistent(*lhs, *rhs) ==> forall|j: int| #![trigger rhs_params@[j]] 0 <= j < __i2 ==> sub(rhs_params@[j], lhs_params@[j])"),
            ], decreases="lhs_params@.len() - __i2"),
            3: dict(invariant=[
                ("bounds", "0 <= __i3 <= lhs_args@.len(), __i3 <= rhs_args@.len()"),
                ("ctx", "lhs is UserDefined, rhs is UserDefined, lhs->args == *lhs_args, rhs->args == *rhs_args, lhs->name.text@ == rhs->name.text@, !is_nv(*lhs)"),
                ("prefix", "consistent(*lhs, *rhs) ==> forall|j: int| #![trigger lhs_args@[j]] 0 <= j < __i3 ==> sub(lhs_args@[j], rhs_args@[j])"),
            ], decreases="lhs_args@.len() - __i3"),
        },
        props={"C14"}))
    u.add_fn(GT, "is_subtype_not_error", contract=Contract(
        ensures=[("eq_sub", "consistent(*lhs, *rhs) ==> r == sub(*lhs, *rhs)"),
                 ("error_lhs", "(*lhs is Error) ==> !r")], props={"C14"}))

    rw.ITER_BY_VALUE_OK.add("tys")
    u.add_fn(TC, "unify", rules=["R5"] + STR_RULES + UNIFY_RULES, contract=Contract(
        ensures=[
            ("upper_bound", "r is Some && noerr(*ty_1) && noerr(*ty_2) ==> sub(*ty_1, r->Some_0) && sub(*ty_2, r->Some_0)"),
            ("noerr", "r is Some && noerr(*ty_1) && noerr(*ty_2) ==> noerr(r->Some_0)"),
            ("same", "*ty_1 == *ty_2 ==> r == Some(*ty_1)"),
            ("bottom_left", "is_nv(*ty_1) ==> r == Some(*ty_2)"),
        ],
        decreases="depth(*ty_1) + depth(*ty_2)",
        hints=[("if matches!(ty_1, Type::Any)", "before",
                "proof { if noerr(*ty_1) { lemma_sub_refl(*ty_1); } if noerr(*ty_2) { lemma_sub_refl(*ty_2); }\n if teq(*ty_1, *ty_2) && noerr(*ty_1) { lemma_teq_sub(*ty_1, *ty_2); } }")],
        loops={1: dict(invariant=[
            ("bounds", "0 <= __i1 <= args_1@.len(), args_1@.len() == args_2@.len(), unified_args@.len() == __i1"),
            ("ctx", "ty_1 is UserDefined, ty_2 is UserDefined, ty_1->args == *args_1, ty_2->args == *args_2, !is_nv(*ty_1)"),
            ("prefix_ub", "noerr(*ty_1) && noerr(*ty_2) ==> forall|j: int| #![trigger args_1@[j]] 0 <= j < __i1 ==> sub(args_1@[j], unified_args@[j]) && sub(args_2@[j], unified_args@[j])"),
            ("prefix_noerr", "noerr(*ty_1) && noerr(*ty_2) ==> forall|j: int| #![trigger unified_args@[j]] 0 <= j < __i1 ==> noerr(unified_args@[j])"),
            ("prefix_same", "*ty_1 == *ty_2 ==> forall|j: int| 0 <= j < __i1 ==> unified_args@[j] == args_1@[j]"),
        ], decreases="args_1@.len() - __i1")},
        props={"C15"}))
    u.add_fn(TC, "unify_all", rules=["R4"] + UNIFY_RULES, contract=Contract(
        ensures=[
            ("upper_bound", "r is Ok && (forall|i: int| 0 <= i < tys@.len() ==> noerr(#[trigger] tys@[i].0)) ==> forall|i: int| 0 <= i < tys@.len() ==> sub(#[trigger] tys@[i].0, r->Ok_0)"),
            ("same", "tys@.len() > 0 && (forall|i: int| 0 <= i < tys@.len() ==> #[trigger] tys@[i].0 == tys@[0].0) ==> r is Ok && r->Ok_0 == tys@[0].0"),
        ],
        loops={1: dict(invariant=[
            ("bounds", "0 <= __i1 <= tys@.len()"),
            ("ub", "(forall|i: int| 0 <= i < tys@.len() ==> noerr(#[trigger] tys@[i].0)) ==> noerr(unified_ty) && forall|j: int| 0 <= j < __i1 ==> sub(#[trigger] tys@[j].0, unified_ty)"),
            ("same", "(forall|i: int| 0 <= i < tys@.len() ==> #[trigger] tys@[i].0 == tys@[0].0) ==> (if __i1 == 0 { is_nv(unified_ty) } else { unified_ty == tys@[0].0 })"),
        ], decreases="tys@.len() - __i1")},
        hints=[("unified_ty = new_unified_ty;", "before",
                "proof { assert forall|j: int| 0 <= j < __i1 - 1 && sub(tys@[j].0, unified_ty) && sub(unified_ty, new_unified_ty) implies sub(#[trigger] tys@[j].0, new_unified_ty) by { lemma_sub_trans(tys@[j].0, unified_ty, new_unified_ty); } }")],
        props={"C15"}))
    u.add_canary_proof()
    u.raw("} // verus!\nfn main() {}")
    return u
