"""Unit `subtype`: is_subtype / is_subtype_not_error / Type::is_no_value / Type::is_error
(garden_type.rs) and unify / unify_all (checks/type_checker.rs).  Properties C14, C15."""
import os
import re
import sys

HERE = os.path.dirname(os.path.abspath(__file__))
ROOT = os.path.dirname(os.path.dirname(HERE))
sys.path.insert(0, os.path.join(ROOT, "vc"))
import gen  # noqa: E402
import rewrite as rw  # noqa: E402
from gen import Contract, UnitFile  # noqa: E402

sys.path.insert(0, HERE)
from witness_gen import witnesses_for  # noqa: E402,F401  (replay inputs, see witness_gen.py)

GT = "src/garden_type.rs"
EV = "src/eval.rs"
TC = "src/checks/type_checker.rs"
AST = "src/parser/ast.rs"

RLIMIT = 60
MIN_FUNCTIONS = 8

GLUE_CHECK_TYPE = """
#[verifier::external_body] pub struct Value { _o: u8 }
#[verifier::external_body] pub struct Env { _o: u8 }
#[verifier::external_body] pub struct ErrorMessage { _o: u8 }
/// the runtime type of a value (Type::from_value)
pub uninterp spec fn type_of_value(v: Value) -> Type;
impl Type {
    #[verifier::external_body]
    pub fn from_value(v: &Value) -> (r: Type) ensures r == type_of_value(*v) { unimplemented!() }
}
#[verifier::external_body]
pub fn format_type_error(expected: &Type, value: &Value, env: &Env) -> (r: ErrorMessage) { unimplemented!() }
"""

ASSUMPTIONS = {
    "Value": "opaque stand-in for values::Value", "Env": "opaque", "ErrorMessage": "opaque", "from_value": "Type::from_value computes the runtime type of a value",
    "format_type_error": "builds the message only",
    "vs_string_eq_lit": "std: `String == &str` is equality of the character sequences",
    "vs_string_eq": "std: `String == String` / `!=` is (in)equality of the character sequences",
    "vs_string_from_lit": "std: `\"lit\".to_owned()` has the literal's characters",
    "vc_clone": "std/derived Clone returns a value equal to the original (Type, TypeName, TypeDefKind, Position derive Clone)",
    "vq_typename_eq": "derived PartialEq on `struct TypeName { text: String }` is equality of `text`",
    "vq_kind_eq": "derived PartialEq on the field-less enum TypeDefKind is variant equality",
    "vq_type_eq": "derived PartialEq on `enum Type`: identical values compare equal, and values that compare equal are structurally equal up to function-name symbols (Symbol's own PartialEq ignores positions)",
    "Symbol": "opaque stand-in for parser::ast::Symbol (never inspected by these functions)",
    "Position": "opaque stand-in for parser::position::Position (only cloned)",
}

LEMMAS = {
    "lemma_sub_refl": {"C14"}, "lemma_sub_trans": {"C14", "C15"}, "lemma_sub_top": {"C14"},
    "lemma_sub_bottom": {"C14"}, "lemma_sub_tuple_covariant": {"C14"},
    "lemma_sub_user_covariant": {"C14"}, "lemma_sub_fun_variance": {"C14"},
    "lemma_sub_fun_inversion": {"C14"}, "lemma_wf_consistent": {"C14"},
    "lemma_teq_sub": {"C15"}, "lemma_depth_elem": {"C14", "C15"}, "lemma_depth_index": {"C14", "C15"},
    "sub_dec": {"C14", "C15"}, "noerr_dec": {"C14", "C15"}, "wf_dec": {"C14"},
    "consistent_dec": {"C14"}, "teq_dec": {"C15"},
}

UNVERIFIED = {
    "C14": ["callers of is_subtype in checks/type_checker.rs and eval.rs (check_type) — that they pass the types they should is not covered",
            "Type::from_hint / from_value producing well-formed types"],
    "C15": ["the call sites that combine types (list/dict literals, if/else, match, try) in checks/type_checker.rs: the contract says unify/unify_all return an upper bound, not that every call site uses them"],
}

PRELUDE = open(os.path.join(ROOT, "prelude", "strings.rs")).read()

GLUE_TYPES = """
// opaque stand-ins (ASSUMPTION: never inspected by the functions under contract)
#[verifier::external_body]
pub struct Symbol { _o: u8 }
#[verifier::external_body]
pub struct Position { _o: u8 }
"""

GLUE_EQ = """
#[verifier::external_body]
pub fn vq_typename_eq(a: &TypeName, b: &TypeName) -> (r: bool)
    ensures r == (a.text@ == b.text@),
{ a.text == b.text }

#[verifier::external_body]
pub fn vq_kind_eq(a: &TypeDefKind, b: &TypeDefKind) -> (r: bool)
    ensures r == (*a == *b),
{ core::mem::discriminant(a) == core::mem::discriminant(b) }

#[verifier::external_body]
pub fn vq_type_eq(a: &Type, b: &Type) -> (r: bool)
    ensures (*a == *b) ==> r, r ==> teq(*a, *b),
{ unimplemented!() }
"""

STR_RULES = [
    rw.simple("R2", r"(\w+(?:\.\w+)*)\.text\s*==\s*(\"[^\"]*\")", r"vs_string_eq_lit(&\1.text, \2)"),
    rw.simple("R10", r"(\w+)\.text\s*!=\s*(\w+)\.text", r"!vs_string_eq(&\1.text, &\2.text)"),
    rw.simple("R10", r"\blhs_name == rhs_name\b", r"vq_typename_eq(lhs_name, rhs_name)"),
    rw.simple("R11", r"(\"[^\"]*\")\.to_owned\(\)", r"vs_string_from_lit(\1)"),
]
UNIFY_RULES = [
    rw.simple("R10", r"\bty_1 == ty_2\b", r"vq_type_eq(ty_1, ty_2)"),
    rw.simple("R10", r"\bkind_1 != kind_2\b", r"!vq_kind_eq(kind_1, kind_2)"),
    rw.simple("R11", r"\b(\w+)\.clone\(\)", r"vc_clone(\1)"),
]


def build(tier):
    u = UnitFile("subtype")
    u.raw("#![allow(unused_imports, dead_code, unused_variables, unused_mut, unused_parens, non_snake_case, unused_assignments)]")
    u.raw("use vstd::prelude::*;\nverus! {")
    u.raw(PRELUDE, kind="prelude")
    u.raw(GLUE_TYPES, kind="prelude")
    u.add_type(AST, "TypeName")
    u.add_type(GT, "TypeDefKind")
    u.add_type(GT, "Type")
    u.raw(open(os.path.join(HERE, "specs.rs")).read(), kind="spec")
    u.raw(GLUE_EQ, kind="prelude")

    both = {"C14", "C15"}
    u.add_fn(GT, "is_no_value", impl="Type", rules=STR_RULES, contract=Contract(
        ensures=[("is_nv", "r == is_nv(*self)")], props=both))
    u.add_fn(GT, "is_error", impl="Type", contract=Contract(
        ensures=[("is_error", "r == (*self is Error)")], props=both))
    u.add_fn(GT, "no_value", impl="Type", rules=STR_RULES, contract=Contract(
        ensures=[("is_nv", "is_nv(r)"), ("noerr", "noerr(r)"),
                 ("shape", "r is UserDefined && r->args@.len() == 0")], props={"C15"}))

    u.add_fn(GT, "is_subtype", rules=["R8", "R5"] + STR_RULES, contract=Contract(
        ensures=[("eq_sub", "consistent(*lhs, *rhs) ==> r == sub(*lhs, *rhs)")],
        decreases="depth(*lhs) + depth(*rhs)",
        attrs=[],
        loops={
            1: dict(invariant=[
                ("bounds", "0 <= __i1 <= lhs_elems@.len(), lhs_elems@.len() == rhs_elems@.len()"),
                ("ctx", "*lhs == Type::Tuple(*lhs_elems), *rhs == Type::Tuple(*rhs_elems), !is_nv(*lhs)"),
                ("prefix", "consistent(*lhs, *rhs) ==> (__all <==> forall|j: int| #![trigger lhs_elems@[j]] 0 <= j < __i1 ==> sub(lhs_elems@[j], rhs_elems@[j]))"),
            ], decreases="lhs_elems@.len() - __i1 + (if __all { 1int } else { 0int })"),
            2: dict(invariant=[
                ("bounds", "0 <= __i2 <= lhs_params@.len(), lhs_params@.len() == rhs_params@.len()"),
                ("ctx", "lhs is Fun, rhs is Fun, lhs->params == *lhs_params, rhs->params == *rhs_params, !is_nv(*lhs)"),
                ("prefix", "consistent(*lhs, *rhs) ==> forall|j: int| #![trigger rhs_params@[j]] 0 <= j < __i2 ==> sub(rhs_params@[j], lhs_params@[j])"),
            ], decreases="lhs_params@.len() - __i2"),
            3: dict(invariant=[
                ("bounds", "0 <= __i3 <= lhs_args@.len(), __i3 <= rhs_args@.len()"),
                ("ctx", "lhs is UserDefined, rhs is UserDefined, lhs->args == *lhs_args, rhs->args == *rhs_args, lhs->name.text@ == rhs->name.text@, !is_nv(*lhs)"),
                ("prefix", "consistent(*lhs, *rhs) ==> forall|j: int| #![trigger lhs_args@[j]] 0 <= j < __i3 ==> sub(lhs_args@[j], rhs_args@[j])"),
            ], decreases="lhs_args@.len() - __i3"),
        },
        props={"C14"}))
    u.add_fn(GT, "is_subtype_not_error", contract=Contract(
        ensures=[("eq_sub", "consistent(*lhs, *rhs) ==> r == sub(*lhs, *rhs)"),
                 ("error_lhs", "(*lhs is Error) ==> !r")], props={"C14"}))

    rw.ITER_BY_VALUE_OK.add("tys")
    u.add_fn(TC, "unify", rules=["R5"] + STR_RULES + UNIFY_RULES, contract=Contract(
        ensures=[
            ("upper_bound", "r is Some && noerr(*ty_1) && noerr(*ty_2) ==> sub(*ty_1, r->Some_0) && sub(*ty_2, r->Some_0)"),
            ("noerr", "r is Some && noerr(*ty_1) && noerr(*ty_2) ==> noerr(r->Some_0)"),
            ("same", "*ty_1 == *ty_2 ==> r == Some(*ty_1)"),
            ("bottom_left", "is_nv(*ty_1) ==> r == Some(*ty_2)"),
        ],
        decreases="depth(*ty_1) + depth(*ty_2)",
        hints=[("if matches!(ty_1, Type::Any)", "before",
                "proof { if noerr(*ty_1) { lemma_sub_refl(*ty_1); } if noerr(*ty_2) { lemma_sub_refl(*ty_2); }\n if teq(*ty_1, *ty_2) && noerr(*ty_1) { lemma_teq_sub(*ty_1, *ty_2); } }")],
        loops={1: dict(invariant=[
            ("bounds", "0 <= __i1 <= args_1@.len(), args_1@.len() == args_2@.len(), unified_args@.len() == __i1"),
            ("ctx", "ty_1 is UserDefined, ty_2 is UserDefined, ty_1->args == *args_1, ty_2->args == *args_2, !is_nv(*ty_1)"),
            ("prefix_ub", "noerr(*ty_1) && noerr(*ty_2) ==> forall|j: int| #![trigger args_1@[j]] 0 <= j < __i1 ==> sub(args_1@[j], unified_args@[j]) && sub(args_2@[j], unified_args@[j])"),
            ("prefix_noerr", "noerr(*ty_1) && noerr(*ty_2) ==> forall|j: int| #![trigger unified_args@[j]] 0 <= j < __i1 ==> noerr(unified_args@[j])"),
            ("prefix_same", "*ty_1 == *ty_2 ==> forall|j: int| 0 <= j < __i1 ==> unified_args@[j] == args_1@[j]"),
        ], decreases="args_1@.len() - __i1")},
        props={"C15"}))
    u.add_fn(TC, "unify_all", rules=["R4"] + UNIFY_RULES, contract=Contract(
        ensures=[
            ("upper_bound", "r is Ok && (forall|i: int| 0 <= i < tys@.len() ==> noerr(#[trigger] tys@[i].0)) ==> forall|i: int| 0 <= i < tys@.len() ==> sub(#[trigger] tys@[i].0, r->Ok_0)"),
            ("same", "tys@.len() > 0 && (forall|i: int| 0 <= i < tys@.len() ==> #[trigger] tys@[i].0 == tys@[0].0) ==> r is Ok && r->Ok_0 == tys@[0].0"),
        ],
        loops={1: dict(invariant=[
            ("bounds", "0 <= __i1 <= tys@.len()"),
            ("ub", "(forall|i: int| 0 <= i < tys@.len() ==> noerr(#[trigger] tys@[i].0)) ==> noerr(unified_ty) && forall|j: int| 0 <= j < __i1 ==> sub(#[trigger] tys@[j].0, unified_ty)"),
            ("same", "(forall|i: int| 0 <= i < tys@.len() ==> #[trigger] tys@[i].0 == tys@[0].0) ==> (if __i1 == 0 { is_nv(unified_ty) } else { unified_ty == tys@[0].0 })"),
        ], decreases="tys@.len() - __i1")},
        hints=[("unified_ty = new_unified_ty;", "before",
                "proof { assert forall|j: int| 0 <= j < __i1 - 1 && sub(tys@[j].0, unified_ty) && sub(unified_ty, new_unified_ty) implies sub(#[trigger] tys@[j].0, new_unified_ty) by { lemma_sub_trans(tys@[j].0, unified_ty, new_unified_ty); } }")],
        props={"C15"}))
    # C14 at run time: eval.rs check_type (parameter hints, return hints, annotated lets, struct fields) accepts a value
    # exactly when the type of the value is a subtype of the expected type - the same relation as the checker's
    u.raw(GLUE_CHECK_TYPE, kind="prelude")
    u.add_fn(EV, "check_type", contract=Contract(
        ensures=[("accepts_exactly_the_subtypes", "consistent(type_of_value(*value), *expected) ==> (r is Ok <==> sub(type_of_value(*value), *expected))")],
        props={"C14"}))
    # C15 / C14: `==` on Type is the derived structural equality (the assumption behind vq_type_eq)
    gt_text = u.source(GT).text
    m_enum = re.search(r"((?:#\[[^\]]*\]\s*|///[^\n]*\n\s*)*)pub\(crate\)\s+enum\s+Type\s*\{", gt_text)
    derived = bool(m_enum and re.search(r"derive\([^)]*\bPartialEq\b", m_enum.group(1)))
    manual = len(re.findall(r"impl\s+(?:std::cmp::)?PartialEq\s+for\s+Type\b", gt_text))
    n_bad = (0 if derived else 1) + manual
    fname = "type_equality_is_derived"
    u.fn_props[fname] = both
    import hashlib
    u.skeletons[fname] = hashlib.sha256(("%s %d" % (derived, manual)).encode()).hexdigest()[:12]
    u.items.append({"name": "`enum Type` derives PartialEq and has no hand-written impl", "generated_as": fname, "kind": "slice", "where": GT, "sha256_16": "-", "skeleton": u.skeletons[fname]})
    oid = "subtype.%s.post[type_eq_is_the_derived_structural_equality]" % fname
    u.clauses.append((oid, both, "n == 0"))
    line_ = gt_text.count("\n", 0, m_enum.start()) + 1 if m_enum else 1
    from gen import Tag
    tg = Tag("repo", fn=fname, repo_file=GT, repo_line=line_, props=both)
    u.emit("pub fn %s() -> (n: u64)" % fname, tg)
    u.raw("    ensures", fn=fname, props=both)
    u.emit("        n == 0,", Tag("contract", fn=fname, clause=oid, props=both))
    u.emit("{ %d }  // derive(PartialEq) on enum Type: %s; hand-written impls: %d" % (n_bad, derived, manual), tg)
    u.add_canary_proof()
    u.raw("} // verus!\nfn main() {}")
    return u
