"""Replay inputs for unit `subtype` (C14, C15): small Garden programs whose `garden check`
verdict is fixed by the property, generated from a finite universe of types.  Used ONLY to
replay a failed or undecided obligation on the real binary (DESIGN §2.6, §9 A4) — the proof is
the Verus run, not this table.

Types are nested tuples: ("Int",), ("String",), ("List", t), ("Option", t), ("Tuple", t1, t2),
("Fun", (params...), ret).  `sub` below is the relation of the property statement: `Any` top,
`NoValue` bottom, same-named generics covariant, tuples covariant, functions contravariant in
parameters and covariant in the result (no Any/NoValue occurs in a written hint)."""

INT, STR = ("Int",), ("String",)


def show(t):
    k = t[0]
    if k in ("Int", "String", "Unit"):
        return k
    if k in ("List", "Option"):
        return "%s<%s>" % (k, show(t[1]))
    if k == "Tuple":
        return "(%s)" % ", ".join(show(x) for x in t[1:])
    if k == "Fun":
        return "Fun<(%s), %s>" % (", ".join(show(x) for x in t[1]), show(t[2]))
    raise ValueError(t)


def sub(a, b):
    if a == b:
        return True
    if a[0] != b[0]:
        return False
    k = a[0]
    if k in ("List", "Option"):
        return sub(a[1], b[1])
    if k == "Tuple":
        return len(a) == len(b) and all(sub(x, y) for x, y in zip(a[1:], b[1:]))
    if k == "Fun":
        return len(a[1]) == len(b[1]) and all(sub(y, x) for x, y in zip(a[1], b[1])) and sub(a[2], b[2])
    return False


def has_common_super(a, b):
    """some type other than Any is a supertype of both (meets of parameters always exist: NoValue)"""
    if a == b:
        return True
    if a[0] != b[0]:
        return False
    k = a[0]
    if k in ("List", "Option"):
        return has_common_super(a[1], b[1])
    if k == "Tuple":
        return len(a) == len(b) and all(has_common_super(x, y) for x, y in zip(a[1:], b[1:]))
    if k == "Fun":
        return len(a[1]) == len(b[1]) and has_common_super(a[2], b[2])
    return False


UNIVERSE = [
    INT, STR, ("List", INT), ("List", STR), ("Option", INT), ("Option", ("List", INT)),
    ("Tuple", INT, STR), ("Tuple", INT, INT), ("Tuple", INT, STR, INT), ("Tuple", INT, STR, STR),
    ("Fun", (INT,), INT), ("Fun", (STR,), INT), ("Fun", (INT,), STR), ("Fun", (INT, INT), INT),
    ("List", ("Fun", (INT,), INT)), ("Fun", (("Fun", (INT,), INT),), INT),
]
VALUE = {"Int": "1", "String": "\"s\""}


def value_of(t):
    if t[0] in VALUE:
        return VALUE[t[0]]
    if t[0] == "List":
        return "[%s]" % value_of(t[1])
    if t[0] == "Option":
        return "Some(%s)" % value_of(t[1])
    if t[0] == "Tuple":
        return "(%s)" % ", ".join(value_of(x) for x in t[1:])
    raise ValueError(t)


def c14_matrix():
    items = []
    for a in UNIVERSE:
        for b in UNIVERSE:
            items.append({"what": "%s <: %s" % (show(a), show(b)),
                          "src": "public fun f(x: %s): %s {\n  x\n}\n" % (show(a), show(b)),
                          "expect_error": not sub(a, b)})
    # a function type with an `Any` parameter can only come from an unannotated closure parameter:
    # Fun<(T), Unit> is NOT a subtype of Fun<(Any), Unit> (contravariance), whatever T is
    for t in (INT, STR, ("List", INT)):
        items.append({"what": "Fun<(%s), Unit> <: Fun<(Any), Unit>" % show(t),
                      "src": "fun takes(x: %s): Unit {\n  println(string_repr(x))\n}\n\npublic fun chain(): Unit {\n"
                             "  let f = fun(x): Unit { println(string_repr(x)) }\n  f = takes\n  f(%s)\n}\n" % (show(t), value_of(t)),
                      "expect_error": True})
        # ... while Fun<(Any), Unit> IS a subtype of Fun<(T), Unit>
        items.append({"what": "Fun<(Any), Unit> <: Fun<(%s), Unit>" % show(t),
                      "src": "public fun chain(): Unit {\n  let f = fun(x): Unit { println(string_repr(x)) }\n"
                             "  let h: Fun<(%s), Unit> = f\n  h(%s)\n}\n" % (show(t), value_of(t)),
                      "expect_error": False})
    return items


def c15_matrix():
    items = []
    for a in UNIVERSE:
        for b in UNIVERSE:
            if not has_common_super(a, b):
                # no type but Any covers both: combining them must be reported
                items.append({"what": "[%s, %s]" % (show(a), show(b)),
                              "src": "public fun f(a: %s, b: %s) {\n  let xs = [a, b]\n  xs\n}\n" % (show(a), show(b)),
                              "expect_error": True})
                items.append({"what": "if/else %s, %s" % (show(a), show(b)),
                              "src": "public fun f(a: %s, b: %s, c: Bool) {\n  let x = if c { a } else { b }\n  x\n}\n" % (show(a), show(b)),
                              "expect_error": True})
            if a == b:
                # equal types combine to that same type
                items.append({"what": "[%s, %s] : List<%s>" % (show(a), show(a), show(a)),
                              "src": "public fun f(a: %s, b: %s): List<%s> {\n  [a, b]\n}\n" % (show(a), show(a), show(a)),
                              "expect_error": False})
    # an element whose type the checker could not determine (a field of an untyped parameter: `Error` inside) must
    # not let two incompatible neighbours through: the combined type still has to cover the first and the last
    for (a, b, mk) in (("[1]", "[\"a\"]", "[%s]"), ("Some(1)", "Some(\"a\")", "Some(%s)"), ("(1, 2)", "(\"a\", 2)", "(%s, 2)")):
        items.append({"what": "[%s, %s, %s] with an unknown middle element" % (a, mk % "p.x", b),
                      "src": "public fun f(p) {\n  let items = [%s, %s, %s]\n  items\n}\n" % (a, mk % "p.x", b),
                      "expect_error": True})
        items.append({"what": "if/else chain %s, %s, %s with an unknown middle branch" % (a, mk % "p.x", b),
                      "src": "public fun f(p, c: Bool) {\n  let x = if c { %s } else { %s }\n  let y = if c { x } else { %s }\n  y\n}\n" % (a, mk % "p.x", b),
                      "expect_error": True})
    # three or more elements whose widest one is in the middle: the combined type must cover it, and elements that
    # only pairwise-with-the-first agree must still be reported
    for (lit, good, bad) in (("[None, Some(1), None]", "List<Option<Int>>", "List<Option<NoValue>>"), ("[[], [1], []]", "List<List<Int>>", "List<List<NoValue>>"),
                             ("Dict[\"a\" => [], \"b\" => [1], \"c\" => []]", "Dict<List<Int>>", "Dict<List<NoValue>>"), ("[None, None, Some(\"s\"), None]", "List<Option<String>>", "List<Option<NoValue>>")):
        items.append({"what": "%s : %s" % (lit, good), "src": "public fun f(): %s {\n  %s\n}\n" % (good, lit), "expect_error": False})
        items.append({"what": "%s : %s" % (lit, bad), "src": "public fun f(): %s {\n  %s\n}\n" % (bad, lit), "expect_error": True})
    for lit in ("[[], [1], [\"a\"]]", "[None, Some(1), Some(\"a\")]", "[[], [1], [], [\"a\"]]"):
        items.append({"what": "%s has no common element type" % lit, "src": "public fun f() {\n  let xs = %s\n  xs\n}\n" % lit, "expect_error": True})
    # the combined type must be a supertype of EVERY element: if [a, closure] is accepted, then what can
    # be passed to an element of the list is at most what `a` accepts
    for (pa, ra) in ((INT, INT), (STR, INT), (("List", INT), STR)):
        for t in (INT, STR, ("List", INT)):
            if sub(t, pa):
                continue
            items.append({"what": "call through [Fun<(%s), %s>, closure] with %s" % (show(pa), show(ra), show(t)),
                          "src": "public fun f(a: Fun<(%s), %s>) {\n  let xs = [a, fun(x): %s { %s }]\n  match xs.first() {\n"
                                 "    Some(g) => {\n      g(%s)\n      Unit\n    }\n    None => Unit\n  }\n}\n"
                                 % (show(pa), show(ra), show(ra), value_of(ra), value_of(t)),
                          "expect_error": True})
    return items


NV, UNIT = ("NoValue",), ("Unit",)


def sub_nv(a, b):
    """the property's relation with NoValue as bottom (written hints may name NoValue)"""
    if a == NV:
        return True
    if a == b:
        return True
    if a[0] != b[0]:
        return False
    k = a[0]
    if k in ("List", "Option"):
        return sub_nv(a[1], b[1])
    if k == "Tuple":
        return len(a) == len(b) and all(sub_nv(x, y) for x, y in zip(a[1:], b[1:]))
    if k == "Fun":
        return len(a[1]) == len(b[1]) and all(sub_nv(y, x) for x, y in zip(a[1], b[1])) and sub_nv(a[2], b[2])
    return False


def show_nv(t):
    return "NoValue" if t == NV else ("Unit" if t == UNIT else (
        "%s<%s>" % (t[0], show_nv(t[1])) if t[0] in ("List", "Option") else (
            "(%s)" % ", ".join(show_nv(x) for x in t[1:]) if t[0] == "Tuple" else (
                "Fun<(%s), %s>" % (", ".join(show_nv(x) for x in t[1]), show_nv(t[2])) if t[0] == "Fun" else t[0]))))


def c14_runtime_matrix():
    """A closure of type Fun<(P), Unit> passed to a parameter annotated Fun<(Q), Unit>: the runtime argument
    check must accept exactly when Q <: P (contravariance), for parameter types nested up to depth 3 around a
    strictly related pair (NoValue <: Int)."""
    def nest(x):
        return [x, ("List", x), ("Tuple", x, STR), ("Fun", (), x), ("Fun", (x,), UNIT), ("List", ("List", x)), ("Fun", (("List", x),), UNIT)]
    items = []
    for (p, q) in zip(nest(INT), nest(NV)):
        for (given, hint) in ((p, q), (q, p), (p, p)):
            # closure value: fun(_: given): Unit {}   parameter hint: Fun<(hint), Unit>
            expect = sub_nv(("Fun", (given,), UNIT), ("Fun", (hint,), UNIT))
            items.append({"what": "fun(_: %s) passed as Fun<(%s), Unit>" % (show_nv(given), show_nv(hint)),
                          "src": "fun accept(_: Fun<(%s), Unit>): Unit {\n  println(\"accepted\")\n}\n\n{\n  accept(fun(_: %s): Unit {})\n}\n" % (show_nv(hint), show_nv(given)),
                          "expect_accept": expect})
    return items


def witnesses_for(prop, f):
    if prop == "C14":
        return [{"match": ".", "kind": "check-matrix", "input": c14_matrix(), "timeout": 120},
                {"match": ".", "kind": "run-matrix", "input": c14_runtime_matrix(), "timeout": 120}]
    if prop == "C15":
        return [{"match": ".", "kind": "check-matrix", "input": c15_matrix(), "timeout": 120}]
    return []
