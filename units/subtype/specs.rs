// ---- units/subtype/specs.rs: ghost specification of subtyping, written from the property
// statement of C14 (not from the code), plus the lemmas that make it a preorder. ----------

pub mod depth_lemmas {
use super::*;
pub open spec fn vmax(a: nat, b: nat) -> nat { if a > b { a } else { b } }

pub open spec fn depth(t: Type) -> nat
    decreases t, 0nat
{
    match t {
        Type::Tuple(v) => 1 + depth_seq(v@, v@.len()),
        Type::Fun { params, return_, .. } => 1 + vmax(depth_seq(params@, params@.len()), depth(*return_)),
        Type::UserDefined { args, .. } => 1 + depth_seq(args@, args@.len()),
        Type::Error { inferred_type, .. } => match inferred_type {
            Some(b) => 1 + depth(*b),
            None => 0,
        },
        _ => 0,
    }
}

pub open spec fn depth_seq(s: Seq<Type>, n: nat) -> nat
    decreases s, n
{
    if n == 0 || n > s.len() { 0 } else { vmax(depth(s[n - 1]), depth_seq(s, (n - 1) as nat)) }
}

pub proof fn lemma_depth_elem(s: Seq<Type>, n: nat, i: int)
    requires 0 <= i < n <= s.len(),
    ensures depth(s[i]) <= depth_seq(s, n),
    decreases n,
{
    if i < n - 1 { lemma_depth_elem(s, (n - 1) as nat, i); }
}

pub broadcast proof fn lemma_depth_index(s: Seq<Type>, i: int)
    requires 0 <= i < s.len(),
    ensures #[trigger] depth(s[i]) <= depth_seq(s, s.len()),
{
    lemma_depth_elem(s, s.len(), i);
}

}
pub use depth_lemmas::*;
broadcast use depth_lemmas::lemma_depth_index;


/// The bottom type, as the property names it.
pub open spec fn is_nv(t: Type) -> bool {
    t is UserDefined && t->name.text@ == "NoValue"@
}

/// C14, from the statement: Any is top; NoValue is bottom; tuples and user-defined types are
/// covariant in their arguments (same length / same name); function types have the same
/// arity, contravariant parameters, covariant result; a type parameter is only a subtype of
/// itself.  Nothing else is a subtype of anything.
pub open spec fn sub(l: Type, r: Type) -> bool
    decreases depth(l) + depth(r) via sub_dec
{
    if r is Any { true }
    else if is_nv(l) { true }
    else {
        match (l, r) {
            (Type::TypeParameter(a), Type::TypeParameter(b)) => a.text@ == b.text@,
            (Type::Tuple(a), Type::Tuple(b)) =>
                a@.len() == b@.len()
                && forall|i: int| #![trigger a@[i]] 0 <= i < a@.len() ==> sub(a@[i], b@[i]),
            (Type::Fun { params: pa, return_: ra, .. }, Type::Fun { params: pb, return_: rb, .. }) =>
                pa@.len() == pb@.len()
                && (forall|i: int| #![trigger pb@[i]] 0 <= i < pa@.len() ==> sub(pb@[i], pa@[i]))
                && sub(*ra, *rb),
            (Type::UserDefined { name: na, args: aa, .. }, Type::UserDefined { name: nb, args: ab, .. }) =>
                na.text@ == nb.text@ && aa@.len() == ab@.len()
                && forall|i: int| #![trigger aa@[i]] 0 <= i < aa@.len() ==> sub(aa@[i], ab@[i]),
            _ => false,
        }
    }
}

#[via_fn]
proof fn sub_dec(l: Type, r: Type) {
}

/// No checker-error type anywhere inside.
pub open spec fn noerr(t: Type) -> bool
    decreases depth(t) via noerr_dec
{
    match t {
        Type::Error { .. } => false,
        Type::Tuple(v) => forall|i: int| #![trigger v@[i]] 0 <= i < v@.len() ==> noerr(v@[i]),
        Type::Fun { params, return_, .. } =>
            (forall|i: int| #![trigger params@[i]] 0 <= i < params@.len() ==> noerr(params@[i])) && noerr(*return_),
        Type::UserDefined { args, .. } => forall|i: int| #![trigger args@[i]] 0 <= i < args@.len() ==> noerr(args@[i]),
        _ => true,
    }
}

#[via_fn]
proof fn noerr_dec(t: Type) {
}

/// Well-formed w.r.t. an arity environment: no Error, and every user-defined type name is
/// applied to the number of arguments its definition has.
pub open spec fn wf(t: Type, ar: Map<Seq<char>, nat>) -> bool
    decreases depth(t) via wf_dec
{
    match t {
        Type::Error { .. } => false,
        Type::Tuple(v) => forall|i: int| #![trigger v@[i]] 0 <= i < v@.len() ==> wf(v@[i], ar),
        Type::Fun { params, return_, .. } =>
            (forall|i: int| #![trigger params@[i]] 0 <= i < params@.len() ==> wf(params@[i], ar)) && wf(*return_, ar),
        Type::UserDefined { name, args, .. } =>
            ar.contains_key(name.text@) && ar[name.text@] == args@.len()
            && forall|i: int| #![trigger args@[i]] 0 <= i < args@.len() ==> wf(args@[i], ar),
        _ => true,
    }
}

#[via_fn]
proof fn wf_dec(t: Type, ar: Map<Seq<char>, nat>) {
}

/// Positional consistency of a pair: what `wf` w.r.t. a common arity environment implies
/// for exactly the sub-terms a subtype comparison visits.
pub open spec fn consistent(l: Type, r: Type) -> bool
    decreases depth(l) + depth(r) via consistent_dec
{
    !(l is Error) && !(r is Error) && match (l, r) {
        (Type::Tuple(a), Type::Tuple(b)) =>
            a@.len() == b@.len() ==> forall|i: int| #![trigger a@[i]] 0 <= i < a@.len() ==> consistent(a@[i], b@[i]),
        (Type::Fun { params: pa, return_: ra, .. }, Type::Fun { params: pb, return_: rb, .. }) =>
            pa@.len() == pb@.len() ==>
                (forall|i: int| #![trigger pb@[i]] 0 <= i < pa@.len() ==> consistent(pb@[i], pa@[i]))
                && consistent(*ra, *rb),
        (Type::UserDefined { name: na, args: aa, .. }, Type::UserDefined { name: nb, args: ab, .. }) =>
            na.text@ == nb.text@ ==>
                aa@.len() == ab@.len()
                && forall|i: int| #![trigger aa@[i]] 0 <= i < aa@.len() ==> consistent(aa@[i], ab@[i]),
        _ => true,
    }
}

#[via_fn]
proof fn consistent_dec(l: Type, r: Type) {
}

pub proof fn lemma_wf_consistent(l: Type, r: Type, ar: Map<Seq<char>, nat>)
    requires wf(l, ar), wf(r, ar),
    ensures consistent(l, r),
    decreases depth(l) + depth(r),
{
    match (l, r) {
        (Type::Tuple(a), Type::Tuple(b)) => {
            if a@.len() == b@.len() {
                assert forall|i: int| #![trigger a@[i]] 0 <= i < a@.len() implies consistent(a@[i], b@[i]) by {
                    lemma_wf_consistent(a@[i], b@[i], ar);
                }
            }
        }
        (Type::Fun { params: pa, return_: ra, .. }, Type::Fun { params: pb, return_: rb, .. }) => {
            if pa@.len() == pb@.len() {
                assert forall|i: int| #![trigger pb@[i]] 0 <= i < pa@.len() implies consistent(pb@[i], pa@[i]) by {
                    lemma_wf_consistent(pb@[i], pa@[i], ar);
                }
                lemma_wf_consistent(*ra, *rb, ar);
            }
        }
        (Type::UserDefined { name: na, args: aa, .. }, Type::UserDefined { name: nb, args: ab, .. }) => {
            if na.text@ == nb.text@ {
                assert forall|i: int| #![trigger aa@[i]] 0 <= i < aa@.len() implies consistent(aa@[i], ab@[i]) by {
                    lemma_wf_consistent(aa@[i], ab@[i], ar);
                }
            }
        }
        _ => {}
    }
}

// ---- C14: the relation is a preorder with top, bottom and the stated variance ----------

pub proof fn lemma_sub_refl(t: Type)
    requires noerr(t),
    ensures sub(t, t),
    decreases depth(t),
{
    match t {
        Type::Tuple(a) => {
            assert forall|i: int| #![trigger a@[i]] 0 <= i < a@.len() implies sub(a@[i], a@[i]) by { lemma_sub_refl(a@[i]); }
        }
        Type::Fun { params, return_, .. } => {
            assert forall|i: int| #![trigger params@[i]] 0 <= i < params@.len() implies sub(params@[i], params@[i]) by { lemma_sub_refl(params@[i]); }
            lemma_sub_refl(*return_);
        }
        Type::UserDefined { args, .. } => {
            assert forall|i: int| #![trigger args@[i]] 0 <= i < args@.len() implies sub(args@[i], args@[i]) by { lemma_sub_refl(args@[i]); }
        }
        _ => {}
    }
}

pub proof fn lemma_sub_trans(a: Type, b: Type, c: Type)
    requires sub(a, b), sub(b, c),
    ensures sub(a, c),
    decreases depth(a) + depth(b) + depth(c),
{
    if c is Any || is_nv(a) {
    } else {
        match (a, b, c) {
            (Type::Tuple(x), Type::Tuple(y), Type::Tuple(z)) => {
                assert forall|i: int| #![trigger x@[i]] 0 <= i < x@.len() implies sub(x@[i], z@[i]) by {
                    assert(sub(x@[i], y@[i]));
                    assert(sub(y@[i], z@[i]));
                    lemma_sub_trans(x@[i], y@[i], z@[i]);
                }
            }
            (Type::Fun { params: px, return_: rx, .. }, Type::Fun { params: py, return_: ry, .. }, Type::Fun { params: pz, return_: rz, .. }) => {
                assert forall|i: int| #![trigger pz@[i]] 0 <= i < px@.len() implies sub(pz@[i], px@[i]) by {
                    assert(sub(pz@[i], py@[i]));
                    assert(sub(py@[i], px@[i]));
                    lemma_sub_trans(pz@[i], py@[i], px@[i]);
                }
                lemma_sub_trans(*rx, *ry, *rz);
            }
            (Type::UserDefined { args: x, .. }, Type::UserDefined { args: y, .. }, Type::UserDefined { args: z, .. }) => {
                assert forall|i: int| #![trigger x@[i]] 0 <= i < x@.len() implies sub(x@[i], z@[i]) by {
                    assert(sub(x@[i], y@[i]));
                    assert(sub(y@[i], z@[i]));
                    lemma_sub_trans(x@[i], y@[i], z@[i]);
                }
            }
            _ => {}
        }
    }
}

pub proof fn lemma_sub_top(t: Type)
    ensures sub(t, Type::Any),
{}

pub proof fn lemma_sub_bottom(b: Type, t: Type)
    requires is_nv(b),
    ensures sub(b, t),
{}

pub proof fn lemma_sub_tuple_covariant(a: Vec<Type>, b: Vec<Type>)
    requires a@.len() == b@.len(), forall|i: int| 0 <= i < a@.len() ==> sub(a@[i], b@[i]),
    ensures sub(Type::Tuple(a), Type::Tuple(b)),
{}

pub proof fn lemma_sub_user_covariant(k1: TypeDefKind, k2: TypeDefKind, n: TypeName, a: Vec<Type>, b: Vec<Type>)
    requires a@.len() == b@.len(), forall|i: int| 0 <= i < a@.len() ==> sub(a@[i], b@[i]),
    ensures sub(Type::UserDefined { kind: k1, name: n, args: a }, Type::UserDefined { kind: k2, name: n, args: b }),
{}

pub proof fn lemma_sub_fun_variance(f: Type, g: Type)
    requires f is Fun, g is Fun, f->params@.len() == g->params@.len(),
        forall|i: int| 0 <= i < f->params@.len() ==> sub(g->params@[i], f->params@[i]),
        sub(*f->return_, *g->return_),
    ensures sub(f, g),
{}

/// and the converse directions: variance is *exactly* as stated.
pub proof fn lemma_sub_fun_inversion(f: Type, g: Type)
    requires f is Fun, g is Fun, sub(f, g),
    ensures f->params@.len() == g->params@.len(),
        forall|i: int| 0 <= i < f->params@.len() ==> sub(g->params@[i], f->params@[i]),
        sub(*f->return_, *g->return_),
{}

// ---- C15 support: structural equality modulo function-name symbols --------------------

pub open spec fn teq(a: Type, b: Type) -> bool
    decreases depth(a) + depth(b) via teq_dec
{
    match (a, b) {
        (Type::Any, Type::Any) => true,
        (Type::TypeParameter(x), Type::TypeParameter(y)) => x.text@ == y.text@,
        (Type::Tuple(x), Type::Tuple(y)) =>
            x@.len() == y@.len() && forall|i: int| #![trigger x@[i]] 0 <= i < x@.len() ==> teq(x@[i], y@[i]),
        (Type::Fun { params: pa, return_: ra, .. }, Type::Fun { params: pb, return_: rb, .. }) =>
            pa@.len() == pb@.len()
            && (forall|i: int| #![trigger pa@[i]] 0 <= i < pa@.len() ==> teq(pa@[i], pb@[i]))
            && teq(*ra, *rb),
        (Type::UserDefined { name: na, args: aa, .. }, Type::UserDefined { name: nb, args: ab, .. }) =>
            na.text@ == nb.text@ && aa@.len() == ab@.len()
            && forall|i: int| #![trigger aa@[i]] 0 <= i < aa@.len() ==> teq(aa@[i], ab@[i]),
        (Type::Error { .. }, Type::Error { .. }) => true,
        _ => false,
    }
}

#[via_fn]
proof fn teq_dec(a: Type, b: Type) {
}

pub proof fn lemma_teq_sub(a: Type, b: Type)
    requires teq(a, b), noerr(a),
    ensures sub(a, b), sub(b, a),
    decreases depth(a) + depth(b),
{
    match (a, b) {
        (Type::Tuple(x), Type::Tuple(y)) => {
            assert forall|i: int| #![trigger x@[i]] 0 <= i < x@.len() implies sub(x@[i], y@[i]) && sub(y@[i], x@[i]) by {
                lemma_teq_sub(x@[i], y@[i]);
            }
        }
        (Type::Fun { params: pa, return_: ra, .. }, Type::Fun { params: pb, return_: rb, .. }) => {
            assert forall|i: int| #![trigger pa@[i]] 0 <= i < pa@.len() implies sub(pa@[i], pb@[i]) && sub(pb@[i], pa@[i]) by {
                lemma_teq_sub(pa@[i], pb@[i]);
            }
            lemma_teq_sub(*ra, *rb);
        }
        (Type::UserDefined { args: aa, .. }, Type::UserDefined { args: ab, .. }) => {
            assert forall|i: int| #![trigger aa@[i]] 0 <= i < aa@.len() implies sub(aa@[i], ab@[i]) && sub(ab@[i], aa@[i]) by {
                lemma_teq_sub(aa@[i], ab@[i]);
            }
        }
        _ => {}
    }
}
