"""Unit `fmtspans` (C01): the formatter's source-slicing helpers in IndentationVisitor
(fix_single_line_block_spacing, fix_space_before_block, fix_binary_operator_spacing,
fix_equals_spacing, fix_let_spacing; src/format.rs) — the formatter walks the recovered AST even
when the file has parse errors, so these slices must be safe for ANY pair of AST positions that lie
inside the source on char boundaries, in whatever order recovery produced them."""
import os
import re
import sys

HERE = os.path.dirname(os.path.abspath(__file__))
ROOT = os.path.dirname(os.path.dirname(HERE))
sys.path.insert(0, os.path.join(ROOT, "vc"))
sys.path.insert(0, os.path.join(ROOT, "units"))
import rewrite as rw  # noqa: E402
from gen import Contract, UnitFile  # noqa: E402
import common  # noqa: E402

FM = "src/format.rs"
POS = "src/parser/position.rs"
VFS = "src/parser/vfs.rs"
AST = "src/parser/ast.rs"
RLIMIT = 200
MIN_FUNCTIONS = 5

ASSUMPTIONS = {
    "axiom_clen": "char::len_utf8 is between 1 and 4, and 1 for ASCII", "axiom_clen16": "-", "axiom_len_bound": "a str is at most isize::MAX bytes long",
    "vt_len": "str::len", "vt_slice": "&s[a..b]: panics unless a <= b <= len and both are char boundaries", "vt_slice_from": "&s[a..]",
    "vt_find_char": "str::find(char): byte index of the first occurrence", "vt_rfind_char": "-", "vt_utf16_count": "-",
    "vtc_len_utf8": "-", "vtc_len_utf16": "-", "vu_min": "-", "CharIndices": "-", "vt_char_indices": "-", "next": "-",
    "PathBuf": "opaque", "vc_clone": "-", "vs_string_eq_lit": "-", "vs_string_eq": "-", "vs_string_from_lit": "std to_owned",
    "vS_as_str": "&String as &str: the same text", "vt_trim_start_len": "s.trim_start().len() <= s.len()", "vt_trim_end_len": "s.trim_end().len() <= s.len()", "vt_trim_is_empty": "s.trim().is_empty()",
    "vt_starts_with_char": "str::starts_with(char)", "vt_ends_with_char": "str::ends_with(char)", "vt_contains_char": "str::contains(char)",
    "vt_eq_lit": "&str == \"literal\"", "vt_byte_at": "s.as_bytes()[i]: panics unless i < s.len()",
    "OpaqueSet": "opaque stand-in for FxHashSet<usize>", "LineEdit": "-",
    "SymbolName": "opaque", "SyntaxId": "opaque", "TypeSymbol": "opaque", "Expression_": "opaque stand-in for parser::ast::Expression_ (not inspected by these helpers)",
    "BinaryOperatorKind": "opaque", "InternedSymbolId": "opaque",
}
LEMMAS = {n: {"C01"} for n in ("lemma_off_step", "lemma_off_zero", "lemma_off_mono", "lemma_off_inj", "lemma_cix", "lemma_cix_props",
                              "lemma_blen_concat", "lemma_off_sub", "lemma_u16_bounds", "lemma_u16_split", "lemma_find_in_suffix", "lemma_eq_in_gap")}
UNVERIFIED = {"C01": [
    "that every AST position the formatter sees lies inside the source on char boundaries (C23 proves it for lexer positions and Position::merge; parser recovery nodes are not under contract) — it is the precondition of these helpers",
    "the rest of format.rs (indentation collection, comment handling, wrap_long_signatures, normalize_token_spacing, apply_* functions)",
]}

GLUE = """
#[verifier::external_body] pub struct PathBuf { _o: u8 }
#[verifier::external_body] pub struct SymbolName { _o: u8 }
#[verifier::external_body] pub struct SyntaxId { _o: u8 }
#[verifier::external_body] pub struct TypeSymbol { _o: u8 }
#[verifier::external_body] pub struct Expression_ { _o: u8 }
#[verifier::external_body] pub struct BinaryOperatorKind { _o: u8 }
#[verifier::external_body] pub struct OpaqueSet { _o: u8 }
#[verifier::external_body] pub struct InternedSymbolId { _o: u8 }

#[verifier::external_body]
pub fn vS_as_str(s: &String) -> (r: &str) ensures r@ == s@ { s.as_str() }
#[verifier::external_body]
pub fn vt_trim_start_len(s: &str) -> (r: usize) ensures r <= blen_cs(s@) { s.trim_start().len() }
#[verifier::external_body]
pub fn vt_trim_end_len(s: &str) -> (r: usize) ensures r <= blen_cs(s@) { s.trim_end().len() }
#[verifier::external_body]
pub fn vt_trim_is_empty(s: &str) -> (r: bool) { s.trim().is_empty() }
#[verifier::external_body]
pub fn vt_starts_with_char(s: &str, c: char) -> (r: bool) { s.starts_with(c) }
#[verifier::external_body]
pub fn vt_ends_with_char(s: &str, c: char) -> (r: bool) { s.ends_with(c) }
#[verifier::external_body]
pub fn vt_contains_char(s: &str, c: char) -> (r: bool) { s.contains(c) }
#[verifier::external_body]
pub fn vt_eq_lit(s: &str, lit: &str) -> (r: bool) { s == lit }
#[verifier::external_body]
pub fn vt_byte_at(s: &str, i: usize) -> (r: u8) requires i < blen_cs(s@) { s.as_bytes()[i] }
"""

SPECS = """
/// a source position that lies inside the text, on char boundaries
pub open spec fn pos_in(cs: Seq<char>, p: Position) -> bool {
    p.start_offset <= p.end_offset <= blen_cs(cs) && is_cbt(cs, p.start_offset as int) && is_cbt(cs, p.end_offset as int)
}
/// an ASCII char found inside the gap between two boundaries: it and the byte after it are boundaries
pub proof fn lemma_eq_in_gap(cs: Seq<char>, a: int, b: int, i: int)
    requires 0 <= a <= b <= cs.len(),
        exists|k: int| 0 <= k < cs.subrange(a, b).len() && cs.subrange(a, b)[k] == '=' && #[trigger] off(cs.subrange(a, b), k) == i,
    ensures is_cbt(cs, off(cs, a) + i), is_cbt(cs, off(cs, a) + i + 1), off(cs, a) + i + 1 <= off(cs, b), off(cs, b) <= blen_cs(cs),
{
    let sub = cs.subrange(a, b);
    let k = choose|k: int| 0 <= k < sub.len() && sub[k] == '=' && #[trigger] off(sub, k) == i;
    lemma_off_sub(cs, a, b, k);
    lemma_cix(cs, a + k);
    lemma_cix(cs, a + k + 1);
    lemma_off_step(cs, a + k);
    assert(cs[a + k] == '=') by { assert(sub[k] == cs[a + k]); }
    lemma_off_mono(cs, a + k + 1, b);
    lemma_off_mono(cs, b, cs.len() as int);
    lemma_off_zero(cs);
}
/// a match found in the suffix of a text that starts at char index m
pub proof fn lemma_find_in_suffix(cs: Seq<char>, m: int, i: int, c: char)
    requires 0 <= m <= cs.len(), (c as u32) < 128,
        exists|k: int| 0 <= k < cs.subrange(m, cs.len() as int).len() && cs.subrange(m, cs.len() as int)[k] == c && #[trigger] off(cs.subrange(m, cs.len() as int), k) == i,
    ensures is_cbt(cs, off(cs, m) + i + 1), off(cs, m) + i + 1 <= blen_cs(cs),
{
    let sub = cs.subrange(m, cs.len() as int);
    let k = choose|k: int| 0 <= k < sub.len() && sub[k] == c && #[trigger] off(sub, k) == i;
    lemma_off_sub(cs, m, cs.len() as int, k);
    lemma_cix(cs, m + k + 1);
    lemma_off_step(cs, m + k);
    assert(cs[m + k] == c) by { assert(sub[k] == cs[m + k]); }
    lemma_off_mono(cs, m + k + 1, cs.len() as int);
    lemma_off_zero(cs);
}
"""

SRC = "vS_as_str(&self.src)"
RULES = [
    rw.simple("R1", r"&self\.src\[\.\.(\w+)\]", r"vt_slice(%s, 0, \1)" % SRC),
    rw.simple("R1", r"&self\.src\[([\w\s\+]+?)\.\.(\w+)\]", r"vt_slice(%s, \1, \2)" % SRC),
    rw.simple("R1", r"self\.src\[(\w+)\.\.\]\.find\(('(?:\\.|[^'])')\)", r"vt_find_char(vt_slice_from(%s, \1), \2)" % SRC),
    rw.simple("R2", r"(\w+)\.len\(\) - \1\.trim_start\(\)\.len\(\)", r"vt_len(\1) - vt_trim_start_len(\1)"),
    rw.simple("R2", r"(\w+)\.len\(\) - \1\.trim_end\(\)\.len\(\)", r"vt_len(\1) - vt_trim_end_len(\1)"),
    rw.simple("R2", r"(\w+)\.trim\(\)\.is_empty\(\)", r"vt_trim_is_empty(\1)"),
    rw.simple("R2", r"(\w+)\.starts_with\(('(?:\\.|[^'])')\)", r"vt_starts_with_char(\1, \2)"),
    rw.simple("R2", r"(\w+)\.ends_with\(('(?:\\.|[^'])')\)", r"vt_ends_with_char(\1, \2)"),
    rw.simple("R2", r"(\w+)\.contains\(('(?:\\.|[^'])')\)", r"vt_contains_char(\1, \2)"),
    rw.simple("R2", r"(\w+)\.find\(('(?:\\.|[^'])')\)", r"vt_find_char(\1, \2)"),
    rw.simple("R10", r"(\w+) != (\"[^\"]*\")", r"!vt_eq_lit(\1, \2)"),
    rw.simple("R2", r"(\w+)\.as_bytes\(\)\[\1\.len\(\) - 1\]", r"vt_byte_at(\1, vt_len(\1) - 1)"),
    rw.simple("R11", r"(\"[^\"]*\")\.to_owned\(\)", r"vs_string_from_lit(\1)"),
    rw.simple("local", r"crate::parser::ast::", ""),
    rw.simple("R14", r"(Some\(offset\)) => (after_last \+ offset \+ 1),", r"\1 => { \2 },"),
]
RULE_NOTES = {"R14": "match arm `PAT => EXPR,` -> `PAT => { EXPR },` (so that a proof hint can precede EXPR)", "R1": "str/String slicing and searching -> prelude function with the std-documented specification",
              "R2": "std method -> prelude function with the std-documented specification"}

WITNESSES = [
    {"match": r"fmtspans\.", "kind": "format", "props": ["C01"], "input": "let count = 1\ncount + match", "expect": {},
     "note": "an unfinished `match` as the right operand of an operator at the end of the file"},
    {"match": r"fmtspans\.", "kind": "format", "props": ["C01"], "input": "fun f() { let (a, b = 1 }\nlet x =\nx +\n{ }\nif x { 1 } else\n", "expect": {},
     "note": "unfinished let/assign/operator/blocks"},
]


def build(tier):
    u = UnitFile("fmtspans")
    u.raw(common.HEADER)
    u.raw(common.prelude("strings.rs"), kind="prelude")
    u.raw(common.prelude("text.rs"), kind="prelude")
    u.raw(GLUE, kind="prelude")
    u.add_type(VFS, "VfsId")
    u.add_type(VFS, "VfsPathBuf")
    u.add_type(POS, "Position")
    u.add_type(AST, "Symbol")
    u.add_type(AST, "LetDestination")
    u.add_type(AST, "TypeHint")
    u.add_type(AST, "BinaryOperatorSymbol")
    u.add_type(AST, "Expression")
    u.add_type(AST, "Block")
    u.add_type(FM, "LineEdit")
    u.add_type(FM, "SpanEdit")
    u.add_type(FM, "IndentationVisitor", subst=[(r"FxHashSet<usize>", "OpaqueSet")])
    u.raw(SPECS, kind="spec")
    c01 = {"C01"}
    S = "self.src@"
    IV = "IndentationVisitor"
    u.add_fn(FM, "fix_single_line_block_spacing", impl=IV, rules=RULES, contract=Contract(
        requires=[("brace_positions_in_source", "pos_in(%s, block.open_brace) && pos_in(%s, block.close_brace)" % (S.replace("self", "old(self)"), S.replace("self", "old(self)")))],
        ensures=[("source_kept", "final(self).src == old(self).src")],
        hints=[dict(anchor="let leading_ws_len", where="before", name="gap_length",
                    text="proof { lemma_cix_props(self.src@, open_end as int); lemma_cix_props(self.src@, close_start as int);\n"
                         "    if cix(self.src@, open_end as int) > cix(self.src@, close_start as int) { lemma_off_mono(self.src@, cix(self.src@, close_start as int), cix(self.src@, open_end as int)); }\n"
                         "    lemma_off_sub(self.src@, cix(self.src@, open_end as int), cix(self.src@, close_start as int), 0); }")],
        props=c01))
    u.add_fn(FM, "fix_space_before_block", impl=IV, rules=RULES, contract=Contract(
        requires=[("brace_position_in_source", "pos_in(old(self).src@, block.open_brace)")],
        ensures=[("source_kept", "final(self).src == old(self).src")],
        hints=[dict(anchor="let before", where="before", name="prefix_length",
                    text="proof { lemma_cix(self.src@, 0); lemma_off_zero(self.src@); lemma_cix_props(self.src@, open_start as int); lemma_off_sub(self.src@, 0, cix(self.src@, open_start as int), 0); }")],
        props=c01))
    u.add_fn(FM, "fix_binary_operator_spacing", impl=IV, rules=RULES, contract=Contract(
        requires=[("operand_positions_in_source", "pos_in(old(self).src@, lhs.position) && pos_in(old(self).src@, op.position) && pos_in(old(self).src@, rhs.position)")],
        ensures=[("source_kept", "final(self).src == old(self).src")],
        props=c01))
    u.add_fn(FM, "fix_equals_spacing", impl=IV, rules=RULES, contract=Contract(
        requires=[("offsets_in_source", "left_end <= blen_cs(old(self).src@) && expr_start <= blen_cs(old(self).src@) && is_cbt(old(self).src@, left_end as int) && is_cbt(old(self).src@, expr_start as int)")],
        ensures=[("source_kept", "final(self).src == old(self).src")],
        hints=[dict(anchor="let eq_abs", where="after_stmt", name="equals_sign_on_boundary",
                    text="proof {\n    let cs = self.src@; let a = cix(cs, left_end as int); let b = cix(cs, expr_start as int);\n"
                         "    lemma_cix_props(cs, left_end as int); lemma_cix_props(cs, expr_start as int);\n"
                         "    if a > b { lemma_off_mono(cs, b, a); }\n"
                         "    lemma_eq_in_gap(cs, a, b, eq_offset as int);\n}")],
        props=c01))
    u.add_fn(FM, "fix_let_spacing", impl=IV, rules=RULES, contract=Contract(
        requires=[("positions_in_source", "pos_in(old(self).src@, expr.position) && (hint is Some ==> pos_in(old(self).src@, hint->Some_0.position))"
                   " && (dest matches LetDestination::Symbol(s) ==> pos_in(old(self).src@, s.position))"
                   " && (dest matches LetDestination::Destructure(ss) ==> forall|i: int| 0 <= i < ss@.len() ==> pos_in(old(self).src@, #[trigger] ss@[i].position))")],
        ensures=[("source_kept", "final(self).src == old(self).src")],
        hints=[dict(anchor="Some(offset) => {", where="after", name="closing_paren_on_boundary",
                    text="proof { lemma_cix_props(self.src@, after_last as int); lemma_find_in_suffix(self.src@, cix(self.src@, after_last as int), offset as int, ')'); }")],
        props=c01))
    u.add_canary_proof()
    u.raw(common.FOOTER)
    return u
