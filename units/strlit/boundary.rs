/// C12 for strings, part 2: the lexer's string token ends exactly at the printed closing quote,
/// whatever follows it
pub proof fn lemma_token_boundary_from(pre: Seq<char>, s: Seq<char>, rest: Seq<char>)
    ensures scan_end(pre + esc(s) + seq!['"'] + rest, pre.len() as int) == pre.len() + esc(s).len() + 1,
    decreases s.len(),
{
    let t = pre + esc(s) + seq!['"'] + rest;
    let i = pre.len() as int;
    if s.len() == 0 {
        assert(t[i] == '"');
    } else {
        let c = s[0];
        let pre2 = pre + esc_char(c);
        assert(esc(s) =~= esc_char(c) + esc(s.skip(1)));
        assert(t =~= pre2 + esc(s.skip(1)) + seq!['"'] + rest);
        lemma_token_boundary_from(pre2, s.skip(1), rest);
        if c == '"' || c == '\n' || c == '\\' {
            assert(t[i] == '\\');
            assert(t[i + 1] == esc_char(c)[1]);
        } else {
            assert(t[i] == c);
        }
    }
}

pub proof fn lemma_token_boundary(s: Seq<char>, rest: Seq<char>)
    ensures scan_end(seq!['"'] + esc(s) + seq!['"'] + rest, 1) == esc(s).len() + 2,
{
    lemma_token_boundary_from(seq!['"'], s, rest);
}
