"""Unit `strlit` (C12, string values): escape_string_literal (values.rs), unescape_string
(parser.rs) and the reading of STRING_RE (lex.rs)."""
import os
import re
import sys

HERE = os.path.dirname(os.path.abspath(__file__))
ROOT = os.path.dirname(os.path.dirname(HERE))
sys.path.insert(0, os.path.join(ROOT, "vc"))
sys.path.insert(0, os.path.join(ROOT, "units"))
import rewrite as rw  # noqa: E402
from gen import Contract, UnitFile  # noqa: E402
from extract import ExtractError  # noqa: E402
import common  # noqa: E402

VAL = "src/values.rs"
PAR = "src/parser.rs"
LEX = "src/parser/lex.rs"
DIAG = "src/parser/diagnostics.rs"
RLIMIT = 100
MIN_FUNCTIONS = 5

PATTERNS = {
    r'^"(\\"|[^"])*("|\z)': "scan_old.rs",
    r'^"(\\.|[^"])*("|\z)': "scan_new.rs",
}

ASSUMPTIONS = dict(common.FMT_ASSUMPTIONS)
ASSUMPTIONS.update({
    "vc_clone": "Clone", "vs_string_eq_lit": "-", "vs_string_eq": "-", "vs_string_from_lit": "-",
    "Position": "opaque stand-in", "clone": "Position::clone",
    "MessagePart": "opaque (message text irrelevant)",
    "vs_strip_first_ascii": "`&s[1..]` when the first char is ASCII (one byte): the text without its first char",
    "vs_strip_both_ascii": "`&s[1..s.len() - 1]` panics unless the text has at least two bytes; with ASCII first and last chars it is the text without them",
    "vs_strip_last_ascii": "`&s[..s.len() - 1]` when the last char is ASCII: the text without its last char",
    "vs_ends_with_char_seq": "str::ends_with(char): the last char equals it",
    "vs_byte_len": "str::len (only used as a capacity hint)",
    "vs_string_with_capacity": "String::with_capacity returns an empty String",
    "vs_chars_vec": "s.chars().collect::<Vec<_>>() is the sequence of chars of s",
    "scan_end": "-",
})
LEMMAS = {"lemma_esc_push": {"C12"}, "lemma_round_trip": {"C12"}, "lemma_token_boundary_from": {"C12"}, "lemma_token_boundary": {"C12"}}
UNVERIFIED = {"C12": [
    "only string values: Value::display for ints, floats (format!(\"{f}\")), lists, tuples, dicts, enum variants and structs (punctuation, nesting) is not under contract",
    "the reading of STRING_RE (spec fn scan_end) is a hand-written interpretation of one regular expression, tied to the literal pattern text in lex.rs (a different pattern makes this unit undecided)",
    "that the parser hands unescape_string exactly the lexer's string token, and that `string_repr` calls escape_string_literal (values.rs:621)",
]}

# Bounded stand-in for the part of C12 no contract reaches (Value::display of non-string values):
# each listed value is printed with string_repr and the printed text is evaluated and compared.
BOUNDED_VALUES = [
    "0", "-1", "9223372036854775807", "-9223372036854775807 - 1", "1.5", "-0.25", "0.1 +. 0.2", "100.0", "1.0 /. 3.0",
    "10000000000000000000.0", "-123456789012345678901234567890.0", "0.000001", "123456789.125",
    "\"\"", "\"a\\\\\"", "\"q\\\"n\\nt\\tb\\\\e\"", "\"\u00e9 \u2192\"",
    "[]", "[1, 2, 3]", "[1.5, 100000000000000000000.0]", "[\"a\\\"b\", \"\"]", "[[1], []]",
    "(1, \"x\")", "(1.5, [2], (3, 4))", "Dict[\"a\" => 1]", "Dict[\"k\\\"\" => [1.5]]",
    "True", "False", "Unit", "Some(1)", "None", "Some(\"x\\\\\")", "Ok(1.5)", "Err(\"e\")", "Some((1, [2.5]))",
    # characters that Rust's Debug formatter escapes and Garden's literal syntax does not (combining marks, zero-width and
    # control characters, private-use code points): as dict keys, dict values, list items, struct fields, enum payloads
    "Dict[\"cafe\u0301\" => [1, 2], \"plain\" => [3]]", "Dict[\"zero\u200bwidth\" => \"v\u200b\"]", "Dict[\"bell\u0007\" => 1, \"del\u007f\" => 2, \"pua\ue000\" => 3]",
    "[\"cafe\u0301\", \"\u200b\", \"\u0007\"]", "(\"e\u0301\", Some(\"\u200d\"))", "Named{ label: \"x\u0301\u200b\", inner: Point{ x: 1, y: 2 }, tags: [\"\u0007\"] }",
    # user-defined types (definitions in ROUNDTRIP_DEFS): struct literals with the fields in and out of definition order, nested, enums
    "Point{ x: 1, y: 2 }", "Point{ y: 2, x: 1 }", "[Point{ y: 2, x: 1 }, Point{ x: 3, y: 4 }]", "Some(Point{ y: 5, x: 6 })", "(Point{ y: 7, x: 8 }, 1.5)",
    "Named{ label: \"a\\\"b\", inner: Point{ y: 1, x: 2 }, tags: [\"t\"] }", "Named{ tags: [], inner: Point{ x: 0, y: 0 }, label: \"\" }",
    "Circle(3)", "Square", "[Circle(1), Square]", "Labelled((\"q\\n\", Point{ y: 1, x: 1 }))", "Dict[\"p\" => Point{ y: 2, x: 1 }]",
]
ROUNDTRIP_DEFS = ("struct Point { x: Int, y: Int }\nstruct Named { label: String, inner: Point, tags: List<String> }\n"
                  "enum Shape { Circle(Int), Square, Labelled((String, Point)) }\n")
BOUNDED = [
    {"name": "display_round_trip", "kind": "roundtrip", "props": ["C12"], "input": BOUNDED_VALUES, "n_inputs": len(BOUNDED_VALUES), "defs": ROUNDTRIP_DEFS,
     "bound": "%d listed values (ints at the limits, finite floats incl. beyond 2^63, strings with escapes, nested lists/tuples/dicts/options/results, struct literals with fields in and out of definition order, enum variants with payloads)" % len(BOUNDED_VALUES),
     "expect": {}},
]

GLUE = """
#[verifier::external_body] pub struct Position { _o: u8 }
impl Clone for Position {
    #[verifier::external_body]
    fn clone(&self) -> (r: Self) ensures r == *self { unimplemented!() }
}
#[verifier::external_body] pub struct MessagePart { _o: u8 }
pub open spec fn is_ascii_char(c: char) -> bool { (c as u32) < 128 }
#[verifier::external_body]
pub fn vs_strip_first_ascii<'a>(s: &'a str) -> (r: &'a str)
    requires s@.len() >= 1, is_ascii_char(s@[0]),
    ensures r@ == s@.drop_first(),
{ &s[1..] }
#[verifier::external_body]
pub fn vs_strip_last_ascii<'a>(s: &'a str) -> (r: &'a str)
    requires s@.len() >= 1, is_ascii_char(s@.last()),
    ensures r@ == s@.drop_last(),
{ &s[..s.len() - 1] }
#[verifier::external_body]
pub fn vs_strip_both_ascii<'a>(s: &'a str) -> (r: &'a str)
    requires s@.len() >= 2, is_ascii_char(s@[0]), is_ascii_char(s@.last()),
    ensures r@ == s@.subrange(1, s@.len() - 1),
{ &s[1..s.len() - 1] }
#[verifier::external_body]
pub fn vs_ends_with_char_seq(s: &str, c: char) -> (r: bool)
    ensures r == (s@.len() >= 1 && s@.last() == c),
{ s.ends_with(c) }
#[verifier::external_body]
pub fn vs_byte_len(s: &str) -> (r: usize) { s.len() }
#[verifier::external_body]
pub fn vs_string_with_capacity(n: usize) -> (r: String)
    ensures r@.len() == 0,
{ String::with_capacity(n) }
#[verifier::external_body]
pub fn vs_chars_vec(s: &str) -> (r: Vec<char>)
    ensures r@ == s@,
{ s.chars().collect() }
"""

WITNESSES = [
    {"match": r"unescape_string_any_token|strlit\.undecided", "kind": "check", "props": ["C01"],
     "input": "let title = \"\n", "expect": {"stdout_contains": "Unclosed string literal"},
     "note": "a lone opening doublequote is an unclosed string literal, reported as a diagnostic"},
    {"match": r"unescape_string_any_token|strlit\.undecided", "kind": "check", "props": ["C01"],
     "input": "let title = \"", "expect": {}},
    {"match": r"lemma_token_boundary|escape_string_literal|unescape_string|lemma_round_trip", "kind": "run", "props": ["C12"],
     "input": "let s = \"a\\\\\"\nprintln(string_repr(s))\nprintln(s)",
     "expect": {"stdout": "\"a\\\\\"\na\\"}, "note": "a string ending in a backslash prints as \"a\\\\\" and that text must lex as one string token"},
    {"match": r"escape_string_literal|unescape_string|lemma_round_trip", "kind": "run", "props": ["C12"],
     "input": "println(string_repr(\"q\\\"n\\nt\\tb\\\\e\"))",
     "expect": {"stdout": "\"q\\\"n\\nt\tb\\\\e\""}},
]


def build(tier):
    u = UnitFile("strlit")
    u.raw(common.HEADER)
    u.raw(common.prelude("strings.rs"), kind="prelude")
    u.raw(GLUE, kind="prelude")
    u.add_type(DIAG, "ErrorMessage")
    u.add_type(PAR, "ParseError")
    u.add_type(LEX, "Token")
    u.raw(common.FMT, kind="prelude")
    # the reading of STRING_RE is chosen by the literal pattern text
    lex = u.source(LEX)
    m = re.search(r"static\s+ref\s+STRING_RE\s*:\s*Regex\s*=\s*Regex::new\(r#\"(.*?)\"#\)\.unwrap\(\)", lex.text)
    if not m:
        raise ExtractError("STRING_RE not found in lex.rs")
    if m.group(1) not in PATTERNS:
        raise ExtractError("STRING_RE is now %r: no reading of this pattern has been written" % m.group(1))
    u.items.append({"name": "STRING_RE", "generated_as": "scan_end", "kind": "regex-reading", "where": "src/parser/lex.rs",
                    "sha256_16": m.group(1), "skeleton": ""})
    u.raw(open(os.path.join(HERE, "specs.rs")).read(), kind="spec")
    u.raw(open(os.path.join(HERE, PATTERNS[m.group(1)])).read(), kind="spec")
    u.raw(open(os.path.join(HERE, "boundary.rs")).read(), kind="spec")

    c12 = {"C12"}
    u.add_fn(VAL, "escape_string_literal", rules=["R4c"], contract=Contract(
        ensures=[("printed_form", "r@ =~= seq!['\"'] + esc(s@) + seq!['\"']")],
        loops={1: dict(invariant=[("idx", "__i1 <= s@.len()"),
                                  ("prefix", "res@ =~= seq!['\"'] + esc(s@.take(__i1 as int))")],
                       decreases="s@.len() - __i1")},
        hints=[dict(anchor="match c {", where="before",
                    text="proof { reveal_strlit(\"\\\\\\\"\"); reveal_strlit(\"\\\\n\"); reveal_strlit(\"\\\\\\\\\"); lemma_esc_push(s@.take(__i1 - 1), c); assert(s@.take(__i1 as int) =~= s@.take(__i1 - 1).push(c)); }"),
               dict(anchor="res.push('\"');", where="before", nth=1,
                    text="proof { assert(s@.take(s@.len() as int) =~= s@); }")],
        props=c12))
    UNESC_RULES = [
        rw.simple("R1", r"&(\w+)\[1\.\.(\w+)\.len\(\) - 1\]", r"vs_strip_both_ascii(\1)"),
        rw.simple("R1", r"&(\w+)\[1\.\.\]", r"vs_strip_first_ascii(\1)"),
        rw.simple("R1", r"&(\w+)\[\.\.(\w+)\.len\(\) - 1\]", r"vs_strip_last_ascii(\1)"),
        rw.simple("R2", r"\b(\w+)\.ends_with\(('(?:\\.|[^'])')\)", r"vs_ends_with_char_seq(\1, \2)"),
        rw.simple("R2", r"String::with_capacity\((\w+)\.len\(\)\)", r"vs_string_with_capacity(vs_byte_len(\1))"),
        rw.simple("R2", r"\b(\w+)\.chars\(\)\.collect\(\)", r"vs_chars_vec(\1)"),
        common.r9,
    ]
    u.add_fn(PAR, "unescape_string", rules=UNESC_RULES, contract=Contract(
        requires=[("token_is_quoted", "token.text@.len() >= 2, token.text@[0] == '\"', token.text@.last() == '\"'")],
        ensures=[("reads_back", "r.1@ =~= unesc(token.text@.subrange(1, token.text@.len() - 1))"),
                 ("no_complaint_on_valid", "valid_escapes(token.text@.subrange(1, token.text@.len() - 1)) ==> r.0@.len() == 0")],
        loops={1: dict(invariant=[
            ("idx", "i <= chars@.len()"),
            ("reads", "res@ + unesc(chars@.skip(i as int)) =~= unesc(chars@)"),
            ("complaints", "valid_escapes(chars@.skip(i as int)) || diagnostics@.len() > 0 || !valid_escapes(chars@), valid_escapes(chars@) ==> (diagnostics@.len() == 0 && valid_escapes(chars@.skip(i as int)))")],
            decreases="chars@.len() - i")},
        hints=[dict(anchor="let c = chars[i];", where="after",
                    text="proof { assert(chars@.skip(i as int).skip(1) =~= chars@.skip(i + 1)); assert(chars@.skip(i as int)[0] == chars@[i as int]); if i + 1 < chars@.len() { assert(chars@.skip(i as int).skip(2) =~= chars@.skip(i + 2)); assert(chars@.skip(i as int)[1] == chars@[i + 1]); } }"),
               dict(anchor="while i < chars.len()", where="before",
                    text="proof { assert(token.text@.drop_first().drop_last() =~= token.text@.subrange(1, token.text@.len() - 1)); assert(chars@.skip(0) =~= chars@); }")],
        props=c12))
    # C01: the same function must not panic on ANY string token the lexer can produce: STRING_RE
    # only guarantees that the token starts with a double quote (it may be unclosed, even 1 byte long)
    u.add_fn(PAR, "unescape_string", rename="unescape_string_any_token", rules=UNESC_RULES, contract=Contract(
        requires=[("token_starts_with_quote", "token.text@.len() >= 1, token.text@[0] == '\"'")],
        loops={1: dict(invariant=[("idx", "i <= chars@.len()")], decreases="chars@.len() - i")},
        props={"C01"}))
    u.add_canary_proof()
    u.raw(common.FOOTER)
    return u
