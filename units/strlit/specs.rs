// ---- units/strlit/specs.rs (C12, strings): the printed form of a string value reads back as
// the same string.  `esc`/`unesc` are the functional behaviour required of the printer and the
// reader; the property is the round-trip lemma and the token-boundary lemma below. ---------

pub open spec fn esc_char(c: char) -> Seq<char> {
    if c == '"' { seq!['\\', '"'] }
    else if c == '\n' { seq!['\\', 'n'] }
    else if c == '\\' { seq!['\\', '\\'] }
    else { seq![c] }
}

pub open spec fn esc(s: Seq<char>) -> Seq<char>
    decreases s.len(),
{
    if s.len() == 0 { Seq::<char>::empty() } else { esc_char(s[0]) + esc(s.skip(1)) }
}

pub open spec fn is_escape_letter(c: char) -> bool { c == 'n' || c == 't' || c == '\\' || c == '"' }

pub open spec fn decode(c: char) -> char {
    if c == 'n' { '\n' } else if c == 't' { '\t' } else { c }
}

/// what reading the inside of a string literal must produce
pub open spec fn unesc(t: Seq<char>) -> Seq<char>
    decreases t.len(),
{
    if t.len() == 0 { Seq::<char>::empty() }
    else if t[0] == '\\' && t.len() >= 2 && is_escape_letter(t[1]) { seq![decode(t[1])] + unesc(t.skip(2)) }
    else { seq![t[0]] + unesc(t.skip(1)) }
}

/// no invalid escape sequence (the reader reports none)
pub open spec fn valid_escapes(t: Seq<char>) -> bool
    decreases t.len(),
{
    if t.len() == 0 { true }
    else if t[0] == '\\' { t.len() >= 2 && is_escape_letter(t[1]) && valid_escapes(t.skip(2)) }
    else { valid_escapes(t.skip(1)) }
}

pub proof fn lemma_esc_push(s: Seq<char>, c: char)
    ensures esc(s.push(c)) =~= esc(s) + esc_char(c),
    decreases s.len(),
{
    if s.len() == 0 {
        assert(s.push(c).skip(1) =~= Seq::<char>::empty());
        assert(esc(s.push(c).skip(1)) =~= Seq::<char>::empty());
    } else {
        assert(s.push(c).skip(1) =~= s.skip(1).push(c));
        lemma_esc_push(s.skip(1), c);
    }
}

/// C12 for strings, part 1: reading the printed body gives back the string, with no complaint
pub proof fn lemma_round_trip(s: Seq<char>)
    ensures unesc(esc(s)) =~= s, valid_escapes(esc(s)),
    decreases s.len(),
{
    if s.len() > 0 {
        let c = s[0];
        let rest = esc(s.skip(1));
        lemma_round_trip(s.skip(1));
        let e = esc(s);
        if c == '"' || c == '\n' || c == '\\' {
            assert(e.skip(2) =~= rest);
            assert(e[0] == '\\');
        } else {
            assert(e.skip(1) =~= rest);
            assert(e[0] == c);
        }
        assert(s =~= seq![c] + s.skip(1));
    }
}
