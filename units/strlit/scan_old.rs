/// Reading of STRING_RE = ^"(\\"|[^"])*("|\z)  (ASSUMED; tied to the pattern text): after the
/// opening quote at index 0, repeat: at a backslash immediately followed by a quote take both;
/// otherwise take one char that is not a quote; stop after the first unconsumed quote, or at
/// the end of the text.
pub open spec fn scan_end(t: Seq<char>, i: int) -> int
    decreases t.len() - i,
{
    if i < 0 || i >= t.len() { t.len() as int }
    else if t[i] == '\\' && i + 1 < t.len() && t[i + 1] == '"' { scan_end(t, i + 2) }
    else if t[i] != '"' { scan_end(t, i + 1) }
    else { i + 1 }
}
