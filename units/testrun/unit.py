"""Unit `testrun` (C26): eval_tests (eval.rs) and the exit status of run_tests_in_files (test_runner.rs)."""
import os
import re
import sys

HERE = os.path.dirname(os.path.abspath(__file__))
ROOT = os.path.dirname(os.path.dirname(HERE))
sys.path.insert(0, os.path.join(ROOT, "vc"))
sys.path.insert(0, os.path.join(ROOT, "units"))
import rewrite as rw  # noqa: E402
from gen import Contract, UnitFile  # noqa: E402
import common  # noqa: E402

EV = "src/eval.rs"
ENV = "src/env.rs"
TR = "src/test_runner.rs"
AST = "src/parser/ast.rs"
RLIMIT = 200
MIN_FUNCTIONS = 2

ASSUMPTIONS = dict(common.OPAQUE_ASSUMPTIONS)
ASSUMPTIONS.update(common.FMT_ASSUMPTIONS)
ASSUMPTIONS.update(common.ENV_OPAQUE_ASSUMPTIONS)
ASSUMPTIONS.update(common.ENV_STRUCT_ASSUMPTIONS)
ASSUMPTIONS.update(common.AST_OPAQUE_ASSUMPTIONS)
ASSUMPTIONS.update({
    "vc_clone": "Clone returns an equal value", "vs_string_eq_lit": "-", "vs_string_eq": "-", "vs_string_from_lit": "-",
    "Value": "opaque", "Type": "opaque", "Session": "opaque", "MethodInfo": "opaque", "Visibility": "opaque", "EnumInfo": "opaque", "StructInfo": "opaque", "ImportInfo": "opaque",
    "Diagnostic": "opaque", "ToplevelExpression": "opaque", "clone": "derived Clone returns an equal value", "default": "BlockBindings::default()",
    "eval": "eval (eval.rs; its step loop is under contract in unit evalloop) is NOT verified here: assumed to return and to keep at least the top-level frame",
    "push_test_stackframe": "push_test_stackframe (eval.rs:1390) pushes exactly one frame on top of the stack and changes nothing below it",
    "vtests_insert": "env.tests.insert(name, test): changes the table of tests only",
    "vframe2_caller_pos": "env.stack.0.get(2).caller_pos: reads the stack only",
    "vis_interrupted": "matches!(e, EvalError::Interrupted)",
    "pop_to_toplevel": "Stack::pop_to_toplevel (PROVED in unit abort): leaves exactly the top-level frame, with no pending expressions, no pending block bindings, at most the base value and the base bindings block",
    "vcount_failed": "`tests.iter().filter(|(_, err, _)| err.is_some()).count()` is the number of entries whose verdict is an error",
    "vcount_passed": "the same filter with `err.is_none()` counts the other entries",
    "vs_contains": "String::contains is a function of the two texts", "vopt_string_or_default": "`name_contains.cloned().unwrap_or_default()` is the filter text, or the empty text",
    "vexit": "std::process::exit(code): the process ends with that status",
    "describe_tests": "describe_tests renders the summary (not verified: its numbers are computed from the same list)", "vf_print_string": "print!",
    "TestDefs": "-",
})
LEMMAS = {"lemma_failed_empty": {"C26"}}
UNVERIFIED = {"C26": [
    "eval itself (whether a test's verdict depends on definitions, top-level variables or the namespace that an earlier test changed: pop_to_toplevel resets the evaluator stack, not the environment's globals)",
    "describe_tests' text (the counts it prints are computed from the same verdict list by the same filter), sandboxed_tests_summary's counters, `-n` name filtering",
    "run_tests_in_files up to the selection of the tests (parsing and loading the files); the selection loop and the part from eval_tests to the exit status are under contract",
]}

GLUE = """
#[verifier::external_body] pub struct Value { _o: u8 }
#[verifier::external_body] pub struct Type { _o: u8 }
#[verifier::external_body] pub struct Session { _o: u8 }
#[verifier::external_body] pub struct MethodInfo { _o: u8 }
#[verifier::external_body] pub struct Visibility { _o: u8 }
#[verifier::external_body] pub struct EnumInfo { _o: u8 }
#[verifier::external_body] pub struct StructInfo { _o: u8 }
#[verifier::external_body] pub struct ImportInfo { _o: u8 }
#[verifier::external_body] pub struct Diagnostic { _o: u8 }
#[verifier::external_body] pub struct ToplevelExpression { _o: u8 }
"""

GLUE2 = """
impl Clone for Symbol {
    #[verifier::external_body]
    fn clone(&self) -> (r: Self) ensures r == *self { unimplemented!() }
}
impl Clone for EvalError {
    #[verifier::external_body]
    fn clone(&self) -> (r: Self) ensures r == *self { unimplemented!() }
}
impl Clone for Position {
    #[verifier::external_body]
    fn clone(&self) -> (r: Self) ensures r == *self { unimplemented!() }
}
impl BlockBindings {
    #[verifier::external_body]
    pub fn default() -> (r: Self) { unimplemented!() }
}
/// the evaluator stack holds exactly the top-level frame with nothing pending: what every test starts from
pub open spec fn at_clean_toplevel(s: Seq<StackFrame>) -> bool {
    s.len() == 1 && s[0].exprs_to_eval@.len() == 0 && s[0].bindings_next_block@.len() == 0
    && s[0].evalled_values@.len() <= 1 && s[0].bindings.block_bindings@.len() <= 1
}
#[verifier::external_body]
pub fn push_test_stackframe(test: &TestInfo, env: &mut Env)
    ensures final(env).stack.0@ == old(env).stack.0@.push(final(env).stack.0@.last()),
{ unimplemented!() }
#[verifier::external_body]
pub fn eval(env: &mut Env, session: &Session) -> (r: Result<Value, EvalError>)
    requires old(env).stack.0@.len() >= 1,
    ensures final(env).stack.0@.len() >= 1,
{ unimplemented!() }
impl Stack {
    // PROVED in unit abort (same clauses, for a non-empty stack)
    #[verifier::external_body]
    pub fn pop_to_toplevel(&mut self)
        ensures old(self).0@.len() > 0 ==> final(self).0@.len() == 1
            && final(self).0@[0].exprs_to_eval@.len() == 0 && final(self).0@[0].bindings_next_block@.len() == 0
            && final(self).0@[0].evalled_values@.len() <= 1 && final(self).0@[0].bindings.block_bindings@.len() <= 1,
    { unimplemented!() }
}
#[verifier::external_body]
pub fn vtests_insert(env: &mut Env, test: &TestInfo)
    ensures final(env).stack == old(env).stack,
{ unimplemented!() }
#[verifier::external_body]
pub fn vframe2_caller_pos(env: &Env) -> (r: Option<Position>) { unimplemented!() }
#[verifier::external_body]
pub fn vis_interrupted(e: &EvalError) -> (r: bool) ensures r == (*e is Interrupted) { unimplemented!() }

/// number of verdicts that are failures
pub open spec fn failed(ts: Seq<(Symbol, Option<EvalError>, Option<Position>)>) -> nat
    decreases ts.len(),
{
    if ts.len() == 0 { 0 } else { failed(ts.drop_last()) + (if ts.last().1 is Some { 1nat } else { 0nat }) }
}
pub proof fn lemma_failed_empty()
    ensures failed(Seq::<(Symbol, Option<EvalError>, Option<Position>)>::empty()) == 0,
{}
#[verifier::external_body]
pub fn vcount_failed(ts: &Vec<(Symbol, Option<EvalError>, Option<Position>)>) -> (r: usize)
    ensures r == failed(ts@),
{ unimplemented!() }
#[verifier::external_body]
pub fn vcount_passed(ts: &Vec<(Symbol, Option<EvalError>, Option<Position>)>) -> (r: usize)
    ensures r == ts@.len() - failed(ts@),
{ unimplemented!() }
/// the process ends here with status `code`; `failed_tests` is the ghost number of failed verdicts
#[verifier::external_body]
pub fn vexit(code: i32, Ghost(failed_tests): Ghost<nat>) -> !
    requires code != 0, failed_tests > 0,
{ unimplemented!() }
#[verifier::external_body]
pub fn describe_tests(env: &Env, summary: &ToplevelEvalSummary) -> (r: String) { unimplemented!() }
#[verifier::external_body]
pub fn vf_print_string(s: String) { unimplemented!() }
"""

SELECT_GLUE = """
impl Clone for ToplevelItem {
    #[verifier::external_body]
    fn clone(&self) -> (r: Self) ensures r == *self { unimplemented!() }
}
pub uninterp spec fn str_contains(a: Seq<char>, b: Seq<char>) -> bool;
#[verifier::external_body]
pub fn vs_contains(a: &String, b: &String) -> (r: bool) ensures r == str_contains(a@, b@) { unimplemented!() }
pub open spec fn filter_text(f: Option<&String>) -> Seq<char> {
    match f { Some(s) => s@, None => Seq::<char>::empty() }
}
#[verifier::external_body]
pub fn vopt_string_or_default(f: Option<&String>) -> (r: String) ensures r@ == filter_text(f) { unimplemented!() }
/// the test items of `items` whose name contains `f`, in order, one per occurrence
pub open spec fn selected(items: Seq<ToplevelItem>, f: Seq<char>) -> Seq<ToplevelItem>
    decreases items.len(),
{
    if items.len() == 0 { Seq::<ToplevelItem>::empty() } else {
        let rest = selected(items.drop_last(), f);
        if items.last() is Test && str_contains(items.last()->Test_0.name_sym.name.text@, f) { rest.push(items.last()) } else { rest }
    }
}
"""

_MONEY = ("method pence_part(this: Int): String {\n  let p = this % 100\n  if p < 10 { \"0\" ^ string_repr(p) } else { string_repr(p) }\n}\n"
          "method as_pounds(this: Int): String {\n  string_repr(this / 100) ^ \".\" ^ this.pence_part()\n}\n")
ISOLATION_PROJECTS = [
    {"what": "a test file that uses methods defined in another file of the same run, which has tests of its own",
     "files": {"cart_test.gdn": "fun basket_total(prices: List<Int>): Int {\n  let total = 0\n  for price in prices { total += price }\n  total\n}\ntest basket_sums_prices { assert(basket_total([250, 199, 1]) == 450) }\ntest basket_shown_in_pounds { assert(basket_total([250, 200]).as_pounds() == \"4.50\") }\n",
               "money.gdn": _MONEY + "test formats_whole_pounds { assert(300.as_pounds() == \"3.00\") }\ntest formats_small_pence { assert(205.as_pounds() == \"2.05\") }\n"},
     "args": ["cart_test.gdn", "money.gdn"]},
    {"what": "a test file that uses a method and a type defined in a file without tests",
     "files": {"shapes_test.gdn": "test area_of_square { assert(Sq{ side: 3 }.area() == 9) }\ntest wrong_area { assert(Sq{ side: 2 }.area() == 5) }\ntest perimeter { assert(Sq{ side: 2 }.perimeter() == 8) }\n",
               "shapes.gdn": "struct Sq { side: Int }\nmethod area(this: Sq): Int { this.side * this.side }\nmethod perimeter(this: Sq): Int { this.side * 4 }\n"},
     "args": ["shapes_test.gdn", "shapes.gdn"]},
    {"what": "passing, failing and erroring tests that share helper functions, a failure deep in a call, a global-looking helper redefined per file",
     "files": {"one_test.gdn": "fun helper(n: Int): Int { n + 1 }\nfun deep(n: Int): Int { if n == 0 { assert(False)  0 } else { deep(n - 1) } }\ntest first_passes { assert(helper(1) == 2) }\ntest second_fails_deep { assert(deep(3) == 0) }\ntest third_passes { assert(helper(2) == 3) }\ntest fourth_errors { let xs: List<Int> = []\n  assert(xs.get(0) == Some(no_such_fun())) }\ntest fifth_passes { assert(True) }\n",
               "two_test.gdn": "fun helper2(n: Int): Int { n + 2 }\ntest other_passes { assert(helper2(1) == 3) }\ntest other_fails { assert(helper2(1) == 4) }\n"},
     "args": ["one_test.gdn", "two_test.gdn"]},
]
ISOLATION_PROJECTS.append(
    {"what": "a test file that imports the other file of the same run, which has a failing test of its own",
     "files": {"app.gdn": "import \"./lib.gdn\" as lib\ntest app_uses_lib { assert(lib::triple(2) == 6) }\n",
               "lib.gdn": "public fun triple(n: Int): Int { n * 3 }\ntest lib_triple_right { assert(triple(1) == 3) }\ntest lib_triple_wrong { assert(triple(1) == 4) }\n"},
     "args": ["app.gdn", "lib.gdn"]})
BOUNDED = [
    {"name": "test_isolation", "kind": "test-isolation", "props": ["C26"], "input": ISOLATION_PROJECTS, "n_inputs": len(ISOLATION_PROJECTS),
     "bound": "%d listed projects of two test files (methods and types used across files, files without tests, a file that imports the other, failing / erroring / deeply failing tests): every test has the same verdict in the full run, with the files in reverse order and alone via -n; every run's exit status is non-zero exactly when a test failed; the summary counts every test" % len(ISOLATION_PROJECTS),
     "expect": {}},
]

WITNESSES = [
    {"match": r"testrun\.", "kind": "test-isolation", "props": ["C26"], "input": ISOLATION_PROJECTS, "expect": {}, "note": "verdicts alone and together"},
    {"match": r"testrun\.", "kind": "test", "props": ["C26"], "filename": "t.gdn",
     "input": "test passes { assert(1 == 1) }\n\ntest fails { assert(1 == 2) }\n\ntest passes_too { let x = 1 assert(x == 1) }\n",
     "expect": {"py": "(rc == 0 and 'exit status 0 although a test failed') or ('2 passed and 1 failed' not in out and 'summary does not say 2 passed and 1 failed: ' + out[-200:]) or ''"},
     "note": "one failing test among three: non-zero exit status and a matching summary"},
    {"match": r"testrun\.", "kind": "test", "props": ["C26"], "filename": "t.gdn",
     "input": "test a { assert(1 == 1) }\n\ntest b { assert(2 == 2) }\n",
     "expect": {"py": "(rc != 0 and 'non-zero exit status although every test passed: ' + (out+err)[-200:]) or ''"}},
    {"match": r"testrun\.", "kind": "test", "props": ["C26"], "filename": "t.gdn",
     "input": "fun boom() { throw(\"x\") }\n\ntest first_errors_in_a_callee { let leftover = 1  if True { boom() } }\n\ntest second_sees_nothing_of_the_first { let leftover = 2  assert(leftover == 2) }\n\ntest third { assert(1 == 1) }\n",
     "expect": {"py": "('2 passed and 1 failed' not in out and 'a failing test changed the verdict of a later test: ' + out[-300:]) or ''"},
     "note": "a test that fails deep in a call leaves nothing on the evaluator stack for the next test"},
    {"match": r"testrun\.", "kind": "test", "props": ["C26"], "filename": "t.gdn",
     "input": "fun scale(n: Int): Int { check_positive(n) * 2 }\nfun check_positive(n: Int): Int { assert(n > 0)  n }\n\ntest scaling_rejects_zero {\n  let v = scale(0)\n  assert(v == 0)\n}\n\ntest addition_works {\n  let s = 4 + 6\n  assert(s == 10)\n}\n\ntest third { assert(True) }\n",
     "expect": {"py": "('2 passed and 1 failed' not in out and 'a test that fails two calls below its body changed the verdict of a later test: ' + out[-300:]) or ''"},
     "note": "a failure two calls deep (test -> scale -> check_positive) must not leave the failing test's frame behind"},
    {"match": r"testrun\.select_tests\.", "kind": "test-dir", "props": ["C26"], "input": "",
     "files": {"a_test.gdn": "test smoke { assert(1 == 1) }\n\ntest only_in_a { assert(2 == 2) }\n",
               "b_test.gdn": "test smoke { assert(1 == 2) }\n\ntest only_in_b { assert(3 == 3) }\n"},
     "args": ["a_test.gdn", "b_test.gdn"],
     "expect": {"py": "(rc == 0 and 'exit status 0 although the test `smoke` of b_test.gdn fails') or ('3 passed and 1 failed' not in out and 'summary does not account for the 4 selected tests: ' + out[-200:]) or ''"},
     "note": "two files that both define a test named `smoke`: both are selected"},
    {"match": r"testrun\.select_tests\.", "kind": "test-dir", "props": ["C26"], "input": "",
     "files": {"a_test.gdn": "test alpha_one { assert(1 == 1) }\n\ntest beta { assert(1 == 2) }\n\ntest alpha_two { assert(1 == 3) }\n"},
     "args": ["a_test.gdn", "-n", "alpha"],
     "expect": {"py": "(rc == 0 and 'exit status 0 although the selected test alpha_two fails') or ('1 passed and 1 failed' not in out and 'the filter `alpha` does not select exactly alpha_one and alpha_two: ' + out[-200:]) or ''"},
     "note": "a name filter selects exactly the tests whose name contains it"},
]


def build(tier):
    u = UnitFile("testrun")
    u.raw(common.HEADER)
    u.raw(common.prelude("strings.rs"), kind="prelude")
    u.raw(common._without(common.OPAQUE, ["Symbol", "SymbolName"]), kind="prelude")
    u.raw(GLUE, kind="prelude")
    u.add_type(AST, "SymbolName")
    u.raw("#[derive(Clone, Copy)]")
    u.add_type(AST, "InternedSymbolId")
    u.raw("#[verifier::external_body] pub struct SyntaxId { _o: u8 }", kind="prelude")
    u.add_type(AST, "Symbol")
    common.add_error_types(u)
    u.raw(common.FMT, kind="prelude")
    # Env with the real TestInfo (ENV_STRUCT_OPAQUE has an opaque TestInfo: drop it)
    saved = common.ENV_STRUCT_OPAQUE
    common.ENV_STRUCT_OPAQUE = common._without(saved, ["TestInfo"])
    try:
        common.add_env_full(u, no_syntaxid=True)
    finally:
        common.ENV_STRUCT_OPAQUE = saved
    u.add_type(AST, "TestInfo")
    u.add_type(AST, "ToplevelItem")
    u.add_type(EV, "ToplevelEvalSummary")
    u.raw(GLUE2, kind="prelude")
    c26 = {"C26"}
    ET_RULES = [
        rw.simple("R4", r"for item in items \{", "let mut __i1: usize = 0; while __i1 < items.len() { let item = &items[__i1]; __i1 += 1;"),
        rw.simple("R4", r"for test in &test_defs \{", "let mut __i2: usize = 0; while __i2 < test_defs.len() { let test = &test_defs[__i2]; __i2 += 1;"),
        rw.simple("R4", r"for test in test_defs \{", "let mut __i3: usize = 0; while __i3 < test_defs.len() { let test = test_defs[__i3]; __i3 += 1;"),
        rw.simple("R2", r"env\.tests\s*\.insert\(test\.name_sym\.name\.clone\(\), \(\*test\)\.clone\(\)\);", "vtests_insert(env, *test);"),
        rw.simple("R2", r"if let Some\(stack_frame\) = env\.stack\.0\.get\(2\) \{", "if let Some(__cp) = vframe2_caller_pos(env) {"),
        rw.simple("R2", r"test_body_err_pos = stack_frame\.caller_pos\.clone\(\);", "test_body_err_pos = Some(__cp);"),
        rw.simple("R2", r"matches!\(e, EvalError::Interrupted\)", "vis_interrupted(&e)"),
        rw.simple("local", r"let mut test_defs = vec!\[\];", "let mut test_defs: Vec<&TestInfo> = Vec::new();"),
    ]
    u.add_fn(EV, "eval_tests", rules=ET_RULES, contract=Contract(
        requires=[("starts_at_clean_toplevel", "at_clean_toplevel(old(env).stack.0@)")],
        ensures=[("at_most_one_verdict_per_test", "r.tests@.len() <= items@.len()"),
                 ("ends_at_clean_toplevel_unless_interrupted", "at_clean_toplevel(final(env).stack.0@) || (r.tests@.len() > 0 && r.tests@.last().1 is Some && r.tests@.last().1->Some_0 is Interrupted)")],
        loops={1: dict(invariant=[("defs", "__i1 <= items@.len(), test_defs@.len() <= __i1, env.stack == old(env).stack")], decreases="items@.len() - __i1"),
               2: dict(invariant=[("stack_untouched", "__i2 <= test_defs@.len(), env.stack == old(env).stack")], decreases="test_defs@.len() - __i2"),
               3: dict(invariant_except_break=[("every_test_starts_from_a_clean_toplevel", "at_clean_toplevel(env.stack.0@)")],
                       invariant=[("one_verdict_per_test_run", "__i3 <= test_defs@.len(), tests@.len() == __i3, test_defs@.len() <= items@.len()")],
                       ensures=[("clean_unless_interrupted", "at_clean_toplevel(env.stack.0@) || (tests@.len() > 0 && tests@.last().1 is Some && tests@.last().1->Some_0 is Interrupted)")],
                       decreases="test_defs@.len() - __i3")},
        props=c26))
    RT_RULES = [
        rw.simple("R2", r"summary\s*\.tests\s*\.iter\(\)\s*\.filter\(\|\(_, err, _\)\| err\.is_some\(\)\)\s*\.count\(\)", "vcount_failed(&summary.tests)"),
        rw.simple("R2", r"summary\s*\.tests\s*\.iter\(\)\s*\.filter\(\|\(_, err, _\)\| err\.is_none\(\)\)\s*\.count\(\)", "vcount_passed(&summary.tests)"),
        rw.simple("R9", r"print!\(\"\{\}\", describe_tests\(&env, &summary\)\);", "vf_print_string(describe_tests(&env, &summary));"),
        rw.simple("R2", r"std::process::exit\(1\);", "vexit(1, Ghost(failed(summary.tests@)));"),
    ]
    u.add_range_fn(TR, "run_tests_in_files", "let summary = eval_tests(", "std::process::exit(1);",
                   sig="pub fn exit_status_of_test_run(test_items: Vec<ToplevelItem>, env: Env, session: Session) -> (verdicts: Ghost<Seq<(Symbol, Option<EvalError>, Option<Position>)>>)",
                   name="exit_status_of_test_run", prefix="    let mut env = env;\n",
                   suffix="\n    }\n    Ghost(summary.tests@)", rules=RT_RULES,
                   contract=Contract(
                       requires=[("starts_at_clean_toplevel", "at_clean_toplevel(env.stack.0@)")],
                       ensures=[("returns_normally_only_if_no_test_failed", "failed(verdicts@) == 0")],
                       ret="verdicts", props=c26))
    # which tests are run: exactly the test items whose name contains the `-n` filter, each once per occurrence, in file order
    u.raw(SELECT_GLUE, kind="prelude")
    SEL_RULES = [
        rw.simple("R4", r"for item in &all_items \{", "let mut __i1: usize = 0; while __i1 < all_items.len() { let item = &all_items[__i1]; __i1 += 1;"),
        rw.simple("R2", r"name_contains\.cloned\(\)\.unwrap_or_default\(\)", "vopt_string_or_default(name_contains)"),
        rw.simple("R2", r"(\w+)\.name_sym\.name\.text\.contains\(&name_contains\)", r"vs_contains(&\1.name_sym.name.text, &name_contains)"),
        rw.simple("local", r"vec!\[\]", "Vec::new()"),
    ]
    u.add_range_fn(TR, "run_tests_in_files", "let mut test_items: Vec<ToplevelItem>", "let summary = eval_tests(", exclusive=True,
                   sig="pub fn select_tests(all_items: Vec<ToplevelItem>, name_contains: Option<&String>) -> (r: Vec<ToplevelItem>)",
                   name="select_tests", suffix="\n    proof { assert(all_items@.take(all_items@.len() as int) =~= all_items@); }\n    test_items", rules=SEL_RULES,
                   contract=Contract(
                       ensures=[("runs_exactly_the_tests_matching_the_filter", "r@ == selected(all_items@, filter_text(name_contains))")],
                       loops={1: dict(invariant=[("selected_so_far", "__i1 <= all_items@.len(), name_contains@ == filter_text(old_name_contains), test_items@ == selected(all_items@.take(__i1 as int), name_contains@)")],
                                      body_prelude="proof { assert(all_items@.take(__i1 as int + 1).drop_last() =~= all_items@.take(__i1 as int)); }",
                                      decreases="all_items@.len() - __i1")},
                       hints=[dict(anchor="let name_contains", where="before", text="let ghost old_name_contains = name_contains;")],
                       body_prelude="proof { assert(all_items@.take(0) =~= Seq::<ToplevelItem>::empty()); }",
                       ret="r", props=c26))
    u.add_canary_proof()
    u.raw(common.FOOTER)
    return u
