"""Inputs of the recorded findings (known_findings.txt): one bounded stand-in per finding, each holding exactly the
input that fails on the unchanged tree, so that any other failing input of the same property is still reported by
the corpora next to it.  Imported by the units that own the stand-ins."""

# ---- C02 (unit guards): `continue` where a value is expected, inside a `for` body -----------------------------------
C02_RUN = [
    ("jump_as_operand:continue_right_of_plus_in_a_for_body", "for a in [1, 2] { let x = 1 + continue }\nprintln(\"ok\")\n",
     "one program: `for a in [1, 2] { let x = 1 + continue }`: `garden run` ends without a crash"),
]

# ---- C21 (unit wrapdbg): wrapping `continue` / `break` of a `for` loop in dbg(..) ----------------------------------
C21_WRAP = [
    ("wrap_jump:continue_in_a_for_body",
     "fun main() {\n  let total = 0\n  for i in [1, 2, 3] {\n    if i == 2 { continue }\n    total += i\n  }\n  println(string_repr(total))\n}\nmain()\n",
     "one program with `continue` in an `if` inside a `for` body: wrap_in_dbg at every cursor position"),
    ("wrap_jump:break_in_a_nested_for_body",
     "fun main() {\n  let total = 0\n  for i in [1, 2, 3] {\n    for j in [10, 20] {\n      if j == 20 { break }\n      total += i * j\n    }\n  }\n  println(string_repr(total))\n}\nmain()\n",
     "one program with `break` in an `if` inside a `for` nested in a `for`: wrap_in_dbg at every cursor position"),
]

# ---- C09 (unit session): commands while a `for` loop is suspended; `:replace continue`; `:trace` ---------------------
C09_SESSIONS = [
    ("command_in_loop:skip_after_an_exception_in_a_for_body", ["for x in [1, 2] { throw(\"a\") }\n1", ":skip", "40 + 2"],
     "one request sequence: an exception inside a `for` body, `:skip`, then 40 + 2"),
    ("command_in_loop:replace_then_skip_in_a_for_iteree", ["for x in nosuch { }\n1", ":replace [1]", ":skip", "40 + 2"],
     "one request sequence: an unbound iterated expression of a `for`, `:replace [1]`, `:skip`, then 40 + 2"),
    ("command:replace_continue_with_nothing_pending", [":replace continue", "40 + 2"],
     "one request sequence: `:replace continue` as the first request, then 40 + 2"),
    ("command:trace_then_an_evaluation", [":trace", "1 + 1", "40 + 2"],
     "one request sequence: `:trace`, an evaluation, then 40 + 2; standard output must hold nothing but the responses"),
]

# ---- C17 (unit fmtedits) -------------------------------------------------------------------------------------------
C17_FORMAT = [
    ("format_finding:carriage_return_inside_a_string", "let s = \"a\r\nb\"\r\nprintln(s)\r\n",
     "one program with CRLF line ends, one of them inside a string literal"),
    ("format_finding:comment_line_starting_with_args", "let x = 1\n// args: hello\nlet y = 2\nprintln(string_repr(x + y))\n",
     "one program with a comment line that starts with `// args: `"),
]

# ---- C20 (unit freevars) -------------------------------------------------------------------------------------------
C20_EXTRACT = [
    ("extract_finding:local_named_like_a_toplevel_function",
     "fun f(): Int { 1 }\n\nfun go() {\n  let f = 2\n  let y = f + 1\n  println(string_repr(y))\n}\ngo()\n",
     "one program in which a local variable has the name of a toplevel function: extract_function at every cursor position and run of whole lines"),
]

# ---- C23 (unit lex): diagnostics of an imported file reported for the importing file -------------------------------
C23_IMPORT_MAIN = "import \"./lib.gdn\" as lib\n"
C23_IMPORT_LIB = "public fun helper(): Int { 1 }\n\n\n\n\n\n\nfun broken( {\n"
C23_IMPORT_ORACLE = ("(lambda ds: ('check --json of a 1-line file reports a diagnostic on line %s' % max(d.get('end_line_number', 0) for d in ds)) "
                     "if any(d.get('end_line_number', 0) > 1 for d in ds) else '')([d for d in jsons(out) if isinstance(d, dict)])")

# ---- C34 (unit exports) --------------------------------------------------------------------------------------------
_CYCLE = {
    "a.gdn": "import \"./b.gdn\" as b\nimport \"./c.gdn\" as c\nprintln(b::b_pub())\nprintln(b::call_c())\nprintln(c::call_b())\n",
    "b.gdn": "import \"./c.gdn\"\npublic fun b_pub(): String { \"1\" }\nfun b_priv(): String { \"2\" }\npublic fun call_c(): String { c_pub() }\n",
    "c.gdn": "import \"./b.gdn\"\npublic fun c_pub(): String { \"10\" }\nfun c_priv(): String { \"20\" }\npublic fun call_b(): String { b_pub() }\n",
}
_PRIV = {
    "b.gdn": "struct Priv { y: Int }\nmethod secret(this: String): String { \"secret \" ^ this }\npublic fun ok(): String { \"ok\" }\n",
    "a.gdn": "import \"./b.gdn\" as b\nprintln(b::ok())\nprintln(\"x\".secret())\nlet p = Priv{ y: 1 }\nprintln(string_repr(p.y))\n",
}
C34_PROJECTS = [
    ("import_finding:cycle_of_unqualified_imports_between_two_imported_files",
     {"what": "two imported files that import each other unqualified, each calling the other's public function", "files": _CYCLE, "main": "a.gdn", "cmds": ["run"],
      "run_contains": ["1", "10"], "run_not_contains": ["No such variable"]},
     "one project: a.gdn imports b.gdn and c.gdn, which import each other unqualified; each public function must be reachable from the other file"),
    ("import_finding:non_public_method_and_struct_used_by_the_importer",
     {"what": "a non-public method and a non-public struct of an imported file used by the importer", "files": _PRIV, "main": "a.gdn",
      "run_not_contains": ["secret x"], "check_contains": ["secret"]},
     "one project: the importer calls a non-public method and builds a non-public struct of the imported file; that must be an error at check time and at run time"),
]
