"""Unit `session` (C09): handle_request_in_worker and handle_run_request (src/json_session.rs).
One response per request (a ghost response counter), every command arm panic-free and keeping the
evaluator stack non-empty, whatever state the session is in."""
import os
import re
import sys

HERE = os.path.dirname(os.path.abspath(__file__))
ROOT = os.path.dirname(os.path.dirname(HERE))
sys.path.insert(0, os.path.join(ROOT, "vc"))
sys.path.insert(0, os.path.join(ROOT, "units"))
import rewrite as rw  # noqa: E402
from gen import Contract, UnitFile  # noqa: E402
import common  # noqa: E402

JS = "src/json_session.rs"
CM = "src/commands.rs"
EV = "src/eval.rs"
ENV = "src/env.rs"
RLIMIT = 200
MIN_FUNCTIONS = 2

ASSUMPTIONS = dict(common.OPAQUE_ASSUMPTIONS)
ASSUMPTIONS.update(common.FMT_ASSUMPTIONS)
ASSUMPTIONS.update(common.ENV_OPAQUE_ASSUMPTIONS)
ASSUMPTIONS.update(common.ENV_STRUCT_ASSUMPTIONS)
ASSUMPTIONS.update(common.AST_OPAQUE_ASSUMPTIONS)
ASSUMPTIONS.update({
    "vc_clone": "Clone returns an equal value", "vs_string_eq_lit": "-", "vs_string_eq": "-", "vs_string_from_lit": "std to_owned",
    "Value": "opaque stand-in for values::Value", "Type": "opaque", "AtomicFlag": "opaque stand-in for Arc<AtomicBool>",
    "StdoutStderrMode": "opaque stand-in", "Instant": "opaque stand-in", "IoError": "opaque stand-in for std::io::Error",
    "Command": "opaque stand-in for commands::Command (its 29 variants are only passed on to run_command)",
    "ResponseKindRest": "-", "DiagnosticForJson": "opaque stand-in", "ResponseError": "opaque stand-in",
    "from_string": "Command::from_string (commands.rs:126-160) returns some Result and does not panic — NOT verified",
    "run_command": "run_command (commands.rs:429-965) is NOT verified: assumed to terminate without panicking, to keep the evaluator stack non-empty when it was, and never to return CommandError::Io when writing to a Vec<u8> (std: Write for Vec<u8> cannot fail)",
    "eval_to_response": "eval_to_response (json_session.rs:772-865: runs eval and renders the outcome) is NOT verified: assumed to return a Response and to keep the evaluator stack non-empty",
    "push_test_stackframe": "push_test_stackframe (eval.rs) pushes one frame: the stack stays non-empty",
    "print_available_commands": "print_available_commands writes to a Vec<u8>: returns Ok",
    "handle_run_eval_request": "handle_run_eval_request (json_session.rs:654-770: parse, check, evaluate an input) is NOT verified: assumed to return a Response and to keep the evaluator stack non-empty",
    "handle_load_request": "handle_load_request is NOT verified: assumed to return a Response and to keep the stack non-empty",
    "handle_eval_up_to_request": "handle_eval_up_to_request is NOT verified: assumed to return a Response and to keep the stack non-empty",
    "top_frame_name": "Env::top_frame_name (env.rs:269-285) needs a non-empty stack (`last().unwrap()`)",
    "vtests_get_cloned": "env.tests.get(&name).cloned(): FxHashMap lookup",
    "vS_from_utf8_lossy": "String::from_utf8_lossy does not panic",
    "vpanic": "panic!(..): a reachable call is a violation (precondition `false`)",
    "vunwrap_io": "Result::unwrap on the result of writing to a Vec<u8>: requires Ok",
    "vj_parse_request": "serde_json::from_str::<Request>: returns the request the text denotes, or Err; does not panic",
    "vj_is_json": "serde_json::from_str::<serde_json::Value>: does not panic",
    "print_as_json": "print_as_json serialises a Response and prints it: one response on stdout (serde_json::to_string(..).unwrap() of these derive(Serialize) types is assumed not to fail)",
    "sample_request_as_json": "returns some String",
    "vexpr_into": "Expression -> Rc<Expression> (`.into()`)", "unit": "Value::unit() returns some value",
})
LEMMAS = {}
UNVERIFIED = {"C09": [
    "run_command (commands.rs:429-965, the 29 command arms), Command::from_string, eval_to_response / eval, handle_run_eval_request, handle_load_request, handle_eval_up_to_request: assumed to return (no panic) and to keep the evaluator stack non-empty — a panic inside them is not seen by this check",
    "the stdin loop json_session() (Content-Length framing: `.expect(\"TODO: handle malformed length\")`, `String::from_utf8(buf).unwrap()`) and the channel to the eval thread: 'in request order' follows from the single eval thread consuming one channel in order, which is not under contract",
    "responses to `interrupt` requests are written by the reader thread (handle_request), concurrently with the eval thread",
]}

GLUE = """
#[verifier::external_body] pub struct Value { _o: u8 }
#[verifier::external_body] pub struct Type { _o: u8 }
#[verifier::external_body] pub struct AtomicFlag { _o: u8 }
#[verifier::external_body] pub struct StdoutStderrMode { _o: u8 }
#[verifier::external_body] pub struct Instant { _o: u8 }
#[verifier::external_body] pub struct IoError { _o: u8 }
#[verifier::external_body] pub struct Command { _o: u8 }
#[verifier::external_body] pub struct DiagnosticForJson { _o: u8 }
#[verifier::external_body] pub struct ResponseError { _o: u8 }
pub type RequestId = usize;
"""

GLUE2 = """
pub open spec fn stack_ok(env: Env) -> bool { env.stack.0@.len() >= 1 }

impl Command {
    #[verifier::external_body]
    pub fn from_string(s: &str) -> (r: Result<Command, CommandParseError>) { unimplemented!() }
}
#[verifier::external_body]
pub fn run_command(buf: &mut Vec<u8>, cmd: Command, env: &mut Env, session: &mut Session) -> (r: Result<(), CommandError>)
    requires stack_ok(*old(env)),
    ensures stack_ok(*final(env)), !(r matches Err(CommandError::Io(_))),
{ unimplemented!() }
#[verifier::external_body]
pub fn eval_to_response(env: &mut Env, session: &Session) -> (r: Response)
    requires stack_ok(*old(env)),
    ensures stack_ok(*final(env)),
{ unimplemented!() }
#[verifier::external_body]
pub fn push_test_stackframe(test: &TestInfo, env: &mut Env)
    requires stack_ok(*old(env)),
    ensures stack_ok(*final(env)),
{ unimplemented!() }
#[verifier::external_body]
pub fn print_available_commands(s: &String, buf: &mut Vec<u8>) -> (r: Result<(), IoError>)
    ensures r is Ok,
{ unimplemented!() }
#[verifier::external_body]
pub fn handle_run_eval_request(path: Option<&PathBuf>, input: &String, offset: Option<usize>, end_offset: Option<usize>,
    env: &mut Env, session: &mut Session, id: Option<RequestId>) -> (r: Response)
    requires stack_ok(*old(env)),
    ensures stack_ok(*final(env)),
{ unimplemented!() }
#[verifier::external_body]
pub fn handle_load_request(id: Option<RequestId>, path: &PathBuf, input: &String, offset: usize, end_offset: usize, env: &mut Env) -> (r: Response)
    requires stack_ok(*old(env)),
    ensures stack_ok(*final(env)),
{ unimplemented!() }
#[verifier::external_body]
pub fn handle_eval_up_to_request(path: Option<&PathBuf>, src: &String, offset: usize, env: &mut Env, session: &mut Session, id: Option<RequestId>) -> (r: Response)
    requires stack_ok(*old(env)),
    ensures stack_ok(*final(env)),
{ unimplemented!() }
impl Env {
    #[verifier::external_body]
    pub fn top_frame_name(&self) -> (r: String)
        requires stack_ok(*self),
    { unimplemented!() }
}
#[verifier::external_body]
pub fn vtests_get_cloned(tests: &OpaqueMap<SymbolName, TestInfo>, name: &SymbolName) -> (r: Option<TestInfo>) { unimplemented!() }
#[verifier::external_body]
pub fn vS_from_utf8_lossy(buf: &Vec<u8>) -> (r: String) { unimplemented!() }
impl Value {
    #[verifier::external_body]
    pub fn unit() -> (r: Self) { unimplemented!() }
}
#[verifier::external_body]
pub fn vpanic() requires false { unimplemented!() }
#[verifier::external_body]
pub fn vunwrap_io(r: Result<(), IoError>) requires r is Ok { unimplemented!() }
#[verifier::external_body]
pub fn vexpr_into(e: Expression) -> (r: Rc<Expression>) ensures *r == e { unimplemented!() }
#[verifier::external_body]
pub fn sample_request_as_json() -> (r: String) { unimplemented!() }

/// the request a line of input denotes (ghost), as serde_json parses it
pub uninterp spec fn parsed_request(s: &str) -> Result<Request, ()>;
#[verifier::external_body]
pub fn vj_parse_request(s: &str) -> (r: Result<Request, ()>)
    ensures r == parsed_request(s),
{ unimplemented!() }
#[verifier::external_body]
pub fn vj_is_json(s: &str) -> (r: Result<(), ()>) { unimplemented!() }
/// writes one response to stdout; `responses` is the ghost count of responses written so far
#[verifier::external_body]
pub fn print_as_json(res: &Response, pretty_print_json: bool, Ghost(n): Ghost<nat>) -> (m: Ghost<nat>)
    ensures m@ == n + 1,
{ unimplemented!() }
"""

COMMAND_CORPUS = [
    ["1 + 1", ":skip", "40 + 2"],
    ["[nosuch, nosuch2, 3]", ":skip", ":skip", "40 + 2"],
    ["fun f(): Int { nosuch }", "f()", ":skip", ":skip", ":skip", "40 + 2"],
    ["let x = nosuch", ":skip", "x", "1 + nosuch", ":skip", ":skip", "40 + 2"],
    ["println(nosuch)", ":skip", ":resume", ":skip", ":abort", ":skip", "40 + 2"],
    ["Dict[\"a\" => nosuch, \"b\" => nosuch2]", ":skip", ":skip", ":skip", "40 + 2"],
    ["(nosuch, 1, nosuch2)", ":skip", ":replace 5", ":skip", "40 + 2"],
    ["if nosuch { 1 }", ":skip", ":resume", ":abort", "40 + 2"],
    ["while nosuch { 1 }", ":replace False", "40 + 2"],
    ["for x in nosuch { x }", ":replace [1]", ":abort", "40 + 2"],
    ["let y = 1", "y = nosuch", ":forget_local y", "fun nosuch() { 2 }", ":resume", ":abort", "40 + 2"],
    ["struct P { x: Int }", "P{ x: nosuch }", ":skip", ":abort", "40 + 2"],
    ["assert(nosuch == 1)", ":skip", ":resume", ":abort", "40 + 2"],
    # a command argument whose evaluation stays suspended, then a shorter command argument, then the first one goes on
    ["let x = 5", ":type dbg(x.len())", ":replace \"hi\"", "1 + 1", ":type 1 + 1", "40 + 2"],
    ["let y = 5", ":replace dbg(y.nosuch_method_with_a_long_name())", ":replace 7", ":type 1", ":resume", ":abort", "40 + 2"],
    ["1 + 1", ":replace 5", ":replace", ":resume", ":abort", ":skip", ":forget_local x", ":forget nosuch", ":test nosuch", ":type", ":type 1 +", "fun f() { throw(\"x\") }", "f()", ":skip", ":skip", ":skip", ":replace 7", ":resume", ":abort", "40 + 2"],
]
BOUNDED = [
    {"name": "command_corpus", "kind": "session-alive", "props": ["C09"], "input": COMMAND_CORPUS, "n_inputs": len(COMMAND_CORPUS),
     "bound": "%d listed request sequences mixing failing evaluations with :skip / :replace / :resume / :abort / :forget_local: the process must not panic, every request must be answered, and the last request (40 + 2) must be answered with 42" % len(COMMAND_CORPUS),
     "expect": {}},
]
def _up_to(src, at):
    return {"method": "eval_up_to", "src": src, "offset": src.index(at)}


_F1, _F2, _F3 = "fun add(x: Int) { x + 1 }", "fun add(x: Int, y: Int) { x + y }", "fun add() { 1 }"
_M1, _M2 = "method inc(this: Int) { this + 1 }", "method inc(this: Int, by: Int, again: Int) { this + by + again }"
EVAL_UP_TO_SEQUENCES = [
    # a definition called with one arity, then eval-up-to on parameters of a redefinition with more / fewer parameters
    [_F1, "add(10)", _up_to(_F1, "x: Int"), _up_to(_F2, "y: Int"), _up_to(_F2, "x + y"), _up_to(_F3, "1 }"), "40 + 2"],
    [_M1, "1.inc()", _up_to(_M1, "this: Int"), _up_to(_M2, "by: Int"), _up_to(_M2, "again: Int"), _up_to(_M2, "this + by"), "40 + 2"],
    # eval-up-to before anything was called, on a never-defined function, in a body that fails, at offsets outside the text
    [_up_to(_F2, "y: Int"), _up_to("fun g(a) { nosuch(a) }", "nosuch"), {"method": "eval_up_to", "src": _F1, "offset": 4000}, {"method": "eval_up_to", "src": "", "offset": 0}, "40 + 2"],
    [_F2, "add(1, 2)", _up_to(_F1, "x: Int"), _up_to(_F1, "x + 1"), "add(1, 2)", "40 + 2"],
    # eval-up-to in a file the session has not seen: toplevel expressions that read variables, a function, a method
    [dict(_up_to("let v = 1\nv + 1\n", "v + 1"), path="/tmp/unseen_a.gdn"), "40 + 2"],
    [dict(_up_to("println(\"x\")\n", "println"), path="/tmp/unseen_b.gdn"), dict(_up_to(_F1, "x + 1"), path="/tmp/unseen_c.gdn"),
     dict(_up_to(_M1, "this + 1"), path="/tmp/unseen_d.gdn"), dict(_up_to("nosuch_variable\n", "nosuch"), path="/tmp/unseen_e.gdn"), "40 + 2"],
]
BOUNDED.append({"name": "eval_up_to_sequences", "kind": "session-alive", "props": ["C09"], "input": EVAL_UP_TO_SEQUENCES, "n_inputs": len(EVAL_UP_TO_SEQUENCES),
                "bound": "%d request sequences with eval_up_to requests on parameters and expressions of functions / methods that were called with another number of arguments, never called, or not defined: every request answered, no panic, the last request (40 + 2) answered with 42" % len(EVAL_UP_TO_SEQUENCES),
                "expect": {}})
_WIDE = "let s = \"\u00e9\u20ac\u00e9\u20ac\"\ns\n"
REQUEST_SPAN_SEQUENCES = [
    # the end of the span past the end of the input; the start past the end; start after end
    [{"method": "run", "input": "1 + 1", "end_offset": 4000}, "40 + 2"],
    [{"method": "run", "input": "1 + 1", "offset": 4000}, "40 + 2"],
    [{"method": "run", "input": "1 + 1", "offset": 3, "end_offset": 1}, "40 + 2"],
    [{"method": "load", "input": "fun f() { 1 }", "path": "/tmp/span.gdn", "offset": 0, "end_offset": 4000}, "40 + 2"],
    [{"method": "load", "input": "fun f() { 1 }", "path": "/tmp/span.gdn", "offset": 4000, "end_offset": 4001}, "40 + 2"],
    [{"method": "load", "input": "fun f() { 1 }", "path": "/tmp/span.gdn", "offset": 5, "end_offset": 2}, "40 + 2"],
    # offsets inside a multi-byte character
    [{"method": "run", "input": _WIDE, "offset": 10}, "40 + 2"],
    [{"method": "run", "input": _WIDE, "end_offset": 12}, "40 + 2"],
    [{"method": "load", "input": _WIDE, "path": "/tmp/span.gdn", "offset": 10, "end_offset": 13}, "40 + 2"],
    # spans that are fine: the whole input, an inner item, an empty span at the end
    [{"method": "run", "input": "1 + 1\n2 + 2\n", "offset": 6, "end_offset": 11}, {"method": "run", "input": "1 + 1", "offset": 5, "end_offset": 5},
     {"method": "load", "input": "fun f() { 1 }", "path": "/tmp/span.gdn", "offset": 0, "end_offset": 13}, "40 + 2"],
]
BOUNDED.append({"name": "request_span_sequences", "kind": "session-alive", "props": ["C09"], "input": REQUEST_SPAN_SEQUENCES, "n_inputs": len(REQUEST_SPAN_SEQUENCES),
                "bound": "%d request sequences whose run / load requests carry offset / end_offset past the end of the input, in the wrong order, inside a multi-byte character, or valid: every request answered, no panic, the last request (40 + 2) answered with 42" % len(REQUEST_SPAN_SEQUENCES),
                "expect": {}})
BOUNDED.append({"name": "moderately_nested_requests", "kind": "session-alive", "props": ["C09"], "n_inputs": 3,
                "input": [["(" * 20 + "1" + ")" * 20, "40 + 2"], ["[" * 20 + "]" * 20, "40 + 2"], [" + ".join("1" for _ in range(40)), "40 + 2"]],
                "bound": "3 request sequences whose first request nests 20 brackets or chains 40 operands: answered, and the session answers 40 + 2 afterwards", "expect": {}})
BOUNDED.append({"name": "deep_request:nested_parentheses_150", "kind": "session-alive", "props": ["C09"], "n_inputs": 1,
                "input": [["(" * 150 + "1" + ")" * 150, "40 + 2"]],
                "bound": "one request sequence: an expression inside 150 nested parentheses, then 40 + 2", "expect": {}})
WITNESSES = [
    {"match": r"session\.", "kind": "session-alive", "props": ["C09"], "input": COMMAND_CORPUS, "expect": {}, "note": "command sequences in any state"},
    {"match": r"session\.handle_run_request\.", "kind": "json-session", "props": ["C09"],
     "input": ["1 + 1", ":skip", "2 + 2"],
     "expect": {"py": "('panicked' in (out + err)) and 'the session died on :skip with nothing pending' or ('\"4\"' not in out and 'no answer to the request after :skip: ' + out[-300:]) or ''"},
     "note": ":skip when nothing is pending must be answered, and the session must still evaluate the next request"},
    {"match": r"session\.", "kind": "json-session", "props": ["C09"],
     "input": ["1 + 1", ":replace 5", ":replace", ":resume", ":abort", ":skip", ":forget_local x", ":forget nosuch", ":test nosuch", ":type", ":type 1 +", "fun f() { throw(\"x\") }", "f()", ":skip", ":skip", ":skip", ":replace 7", ":resume", ":abort", "40 + 2"],
     "expect": {"py": "('panicked' in (out + err)) and 'the session died' or ('\"42\"' not in out and 'no answer to the last request: ' + out[-300:]) or ''"},
     "note": "commands in any order and state: the session answers the last request"},
]


import findings  # noqa: E402
for _fn, _fi, _fb in findings.C09_SESSIONS:
    BOUNDED.append({"name": _fn, "kind": "session-alive", "props": ["C09"], "input": [_fi], "n_inputs": 1, "bound": _fb + ": every request answered, no panic, 40 + 2 answered with 42", "expect": {}})


def _vfs_append_only(u, props):
    """Positions kept in suspended frames, in values and in diagnostics name a (path, version) of the Vfs and are
    later used to slice that version's text (Vfs::pos_src, format_diagnostic).  That is only safe while a version,
    once stored, is never replaced or dropped: the only code that changes `file_srcs` is Vfs::insert, and insert
    only appends a version (`entry(..).or_default()` then `push`)."""
    import glob
    from gen import Tag
    from extract import skeleton_hash
    VFS = "src/parser/vfs.rs"
    src = u.source(VFS)
    ins = src.find_fn("insert", impl="Vfs")
    body = ins.text
    # inside insert: the map is touched once, through entry().or_default(), and the version list only grows
    bad_inside = 0
    touches = re.findall(r"\bfile_srcs\b\s*\.\s*(\w+)", body)
    if touches != ["entry"]:
        bad_inside += 1
    if not re.search(r"\.entry\([^;]*\)\s*\.\s*or_default\(\)", body):
        bad_inside += 1
    if re.search(r"\bsrcs\s*\.\s*(?!push\b|len\b)\w+\s*\(|\*\s*srcs\s*=|\bsrcs\s*\[", body):
        bad_inside += 1
    # outside insert: nothing under src/ writes file_srcs
    wr = re.compile(r"\bfile_srcs\b\s*(\.\s*(insert|remove|clear|retain|extend|drain|entry|get_mut|values_mut|iter_mut|remove_entry)\s*\(|=[^=])|&mut\s+[\w.()]*\bfile_srcs\b")
    repo_src = os.path.dirname(os.path.dirname(src.path))
    outside = []
    for fp in sorted(glob.glob(os.path.join(repo_src, "**", "*.rs"), recursive=True)):
        text = open(fp, encoding="utf-8").read()
        for m in wr.finditer(text):
            if os.path.abspath(fp) == os.path.abspath(src.path) and ins.start <= m.start() < ins.end:
                continue
            outside.append("%s:%d" % (os.path.relpath(fp, os.path.dirname(repo_src)), text.count("\n", 0, m.start()) + 1))
    for (sname, n, clause, text) in (
            ("vfs_insert_only_appends_a_version", bad_inside, "post[existing_versions_are_kept]", "Vfs::insert reaches file_srcs through entry(..).or_default() and only pushes onto the version list"),
            ("vfs_versions_have_no_other_writer", len(outside), "post[only_insert_writes_file_srcs]", "no code under src/ other than Vfs::insert writes Vfs.file_srcs" + (": " + ", ".join(outside[:4]) if outside else ""))):
        u.fn_props[sname] = props
        u.skeletons[sname] = skeleton_hash(body)
        u.items.append({"name": "Vfs::insert (%s)" % sname.replace("_", " "), "generated_as": sname, "kind": "structural", "where": ins.where,
                        "sha256_16": ins.sha(), "skeleton": u.skeletons[sname]})
        tag = Tag("repo", fn=sname, repo_file=VFS, repo_line=ins.line0, props=props)
        u.emit("pub fn %s() -> (n: u64)" % sname, tag)
        u.emit("    ensures n == 0,", Tag("repo", fn=sname, clause=clause, repo_file=VFS, repo_line=ins.line0, props=props))
        u.emit("{ %d }" % n, tag)
        u.clauses.append(("session.%s.%s" % (sname, clause), props, text))


def build(tier):
    u = UnitFile("session")
    u.raw(common.HEADER)
    u.raw(common.prelude("strings.rs"), kind="prelude")
    u.raw(common.OPAQUE, kind="prelude")
    u.raw(GLUE, kind="prelude")
    common.add_error_types(u)
    u.raw(common.FMT, kind="prelude")
    common.add_env_full(u)
    u.add_type(EV, "Session", rules=[rw.simple("T1", r"Arc<AtomicBool>", "AtomicFlag")])
    u.add_type(CM, "EvalAction", subst=[(r"ast::Expression", "Expression")])
    u.add_type(CM, "CommandError", subst=[(r"std::io::Error", "IoError")])
    u.add_type(CM, "CommandParseError")
    u.add_type(JS, "Request")
    u.add_type(JS, "ResponseKind")
    u.add_type(JS, "Response")
    u.raw(GLUE2, kind="prelude")
    c09 = {"C09"}
    HR_RULES = [
        rw.simple("R2", r"format!\(\"\{\}\", String::from_utf8_lossy\(&out_buf\)\)", "vS_from_utf8_lossy(&out_buf)"),
        rw.simple("local", r"panic!\(\"Unexpected write error during command printing: \{e:\?\}\"\)", "{ vpanic(); loop {} }"),
        rw.simple("R2", r"env\.tests\.get\(&name\)\.cloned\(\)", "vtests_get_cloned(&env.tests, &name)"),
        rw.simple("R11", r"\"Aborted\"\.to_owned\(\)", 'vs_string_from_lit("Aborted")'),
        rw.simple("R11", r"\bexpr\.into\(\)", "vexpr_into(expr)"),
        rw.simple("R2", r"print_available_commands\(&s, &mut out_buf\)\.unwrap\(\);", "vunwrap_io(print_available_commands(&s, &mut out_buf));"),
        rw.simple("R2", r"path\.as_ref\(\)", "path.as_ref()"),
        common.r9,
    ]
    u.add_fn(JS, "handle_run_request", rules=HR_RULES, contract=Contract(
        requires=[("stack_nonempty", "stack_ok(*old(env))")],
        ensures=[("stack_stays_nonempty", "stack_ok(*final(env))")],
        props=c09))
    # handle_request_in_worker with a ghost response counter threaded through print_as_json
    HW_RULES = [
        rw.simple("R2", r"serde_json::from_str::<Request>\(req_src\)", "vj_parse_request(req_src)"),
        rw.simple("R2", r"serde_json::from_str::<serde_json::Value>\(req_src\)", "vj_is_json(req_src)"),
        rw.simple("G1", r"print_as_json\(&res, session\.pretty_print_json\);", "responses = print_as_json(&res, session.pretty_print_json, responses);"),
        rw.simple("G1", r"session: &mut Session\) \{", "session: &mut Session, Ghost(responses0): Ghost<nat>) -> (responses: Ghost<nat>) { let mut responses: Ghost<nat> = Ghost(responses0);"),
        rw.simple("G1", r"(?m)^(\s+)return;", r"\1return responses;"),
        rw.simple("R2", r"path\.as_ref\(\)", "path.as_ref()"),
        common.r9,
    ]
    u.add_fn(JS, "handle_request_in_worker", rules=HW_RULES, subst=[(r"\}\s*$", "    responses\n}")], contract=Contract(
        requires=[("stack_nonempty", "stack_ok(*old(env))")],
        ensures=[("stack_stays_nonempty", "stack_ok(*final(env))"),
                 ("exactly_one_response_per_request",
                  "responses@ == responses0 + (if parsed_request(req_src) matches Ok(Request::Interrupt) { 0nat } else { 1nat })")],
        ret="responses",
        props=c09))
    _vfs_append_only(u, c09)
    u.add_canary_proof()
    u.raw(common.FOOTER)
    return u
