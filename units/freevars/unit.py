"""Unit `freevars` (C20, extract-function half): the free-variable analysis of src/extract_function.rs
(FreeVarsVisitor) as a scope-stack discipline.  Every override of the Visitor trait that introduces names is put
under contract against a ghost log of the traversal calls: each sub-expression / block is analysed with exactly the
names that are in scope for it at run time (the enclosing ones plus what the construct itself binds), and the
scope stack is restored afterwards."""
import os
import sys

HERE = os.path.dirname(os.path.abspath(__file__))
ROOT = os.path.dirname(os.path.dirname(HERE))
sys.path.insert(0, os.path.join(ROOT, "vc"))
sys.path.insert(0, os.path.join(ROOT, "units"))
import rewrite as rw  # noqa: E402
from gen import Contract, UnitFile  # noqa: E402
import common  # noqa: E402

XF = "src/extract_function.rs"
RLIMIT = 60
MIN_FUNCTIONS = 0

ASSUMPTIONS = {}
LEMMAS = {}
UNVERIFIED = {"C20": []}

# assignment-free programs without return / break / continue; every effect is a println
EXTRACT_FN_PROGRAMS = [
    # a let inside a branch shadows a parameter that the other branch reads
    "fun f(c: Bool, n: Int): Int {\n  let r = if c {\n    let n = 2\n    n * 10\n  } else {\n    n + 1\n  }\n  r\n}\nprintln(string_repr(f(True, 5)))\nprintln(string_repr(f(False, 5)))\n",
    # a catch variable; the try body succeeds
    "fun t(c: Int): Int {\n  let r = try {\n    c + 1\n  } catch (e) {\n    println(\"caught\")\n    0 - 1\n  }\n  r * 2\n}\nprintln(string_repr(t(5)))\n",
    # a match payload shadows an outer variable that a later case reads
    "fun describe(opt: Option<Int>, n: Int): Int {\n  let r = match opt {\n    Some(n) => { n * 10 }\n    None => { n + 1 }\n  }\n  r\n}\nprintln(string_repr(describe(Some(1), 100)))\nprintln(string_repr(describe(None, 100)))\n",
    # a for variable shadows a local that is read after the loop; a closure parameter shadows another
    "fun k(i: Int, x: Int): Int {\n  let mul = fun(x: Int) { x * 2 }\n  for i in [1, 2] {\n    println(string_repr(mul(i)))\n  }\n  println(string_repr(i))\n  mul(3) + x + i\n}\nprintln(string_repr(k(40, 7)))\n",
    # destructuring lets, tuples, a struct, non-ASCII text
    "struct P { x: Int, name: String }\nfun h(p: P, q: (Int, Int)): String {\n  let (a, b) = q\n  let (m, n) = (p.x + a, p.name ^ \"\\u00e9\\U0001F600\")\n  let s = n ^ string_repr(m + b)\n  println(s)\n  s ^ \"!\"\n}\nprintln(h(P{ x: 1, name: \"a\" }, (2, 3)))\n",
    # toplevel lets and expressions, a nested match with payloads of the same name
    "let base = 10\nlet items = [Some(1), None, Some(3)]\nfor it in items {\n  let v = match it {\n    Some(v) => match Some(v + base) { Some(v) => v  None => 0 }\n    None => base\n  }\n  println(string_repr(v))\n}\nprintln(string_repr(base))\n",
    # a method, closures that capture, a nested function literal that shadows
    "method twice(this: Int, by: Int): Int {\n  let f = fun(g: Fun<(Int), Int>) { g(this) + g(by) }\n  let r = f(fun(this: Int) { this * by })\n  println(string_repr(r))\n  r + this\n}\nprintln(string_repr(3.twice(4)))\n",
    # type parameters of the enclosing function in the types of the free variables; a generic function used as a value
    "fun g<T>(x: T, xs: List<T>): List<T> {\n  let ys = xs.append(x)\n  let show = string_repr\n  println(show(ys.len()))\n  ys\n}\nprintln(string_repr(g(1, [2])))\nprintln(string_repr(g(\"a\", [])))\n",
    # blocks that bind and then go out of scope, one after the other
    "fun w(a: Int, flag: Bool): Int {\n  if flag {\n    let a = a + 100\n    println(string_repr(a))\n  }\n  for z in [a] {\n    let flag = z\n    println(string_repr(flag))\n  }\n  if flag { a } else { 0 - a }\n}\nprintln(string_repr(w(1, True)))\nprintln(string_repr(w(2, False)))\n",
]
_CMD = ["reftest-extract-function", "{file}", "{offset}", "{end}", "--name", "extracted_zz"]
BOUNDED = [
    {"name": "extract_function_corpus", "kind": "refactor-corpus", "props": ["C20"], "input": EXTRACT_FN_PROGRAMS, "n_inputs": len(EXTRACT_FN_PROGRAMS),
     "command": _CMD, "selections": "lines", "pure_selections": True,
     "bound": "%d listed assignment-free programs without return / break / continue in which names are shadowed by lets in branches, catch variables, match payloads, for variables, closure parameters and destructuring lets: extract_function at every cursor position and for every run of whole lines (leaving out a run with a `let` whose name is read after it); every result must print the same standard output and end with the same status as the original" % len(EXTRACT_FN_PROGRAMS),
     "expect": {}},
]
WITNESSES = [
    {"match": r"freevars\.", "kind": "refactor-corpus", "props": ["C20"], "input": EXTRACT_FN_PROGRAMS, "expect": {}, "command": _CMD, "selections": "lines", "pure_selections": True,
     "note": "extract_function at every cursor position and for every run of whole lines"},
]


def build(tier):
    u = UnitFile("freevars")
    u.raw(common.HEADER)
    u.add_canary_proof()
    u.raw(common.FOOTER)
    return u
