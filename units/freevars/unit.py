"""Unit `freevars` (C20, extract-function half): the free-variable analysis of src/extract_function.rs
(FreeVarsVisitor) as a scope-stack discipline.  Every override of the Visitor trait that introduces names is put
under contract against a ghost log of the traversal calls: each sub-expression / block is analysed with exactly the
names that are in scope for it at run time (the enclosing ones plus what the construct itself binds), and the
scope stack is restored afterwards."""
import os
import sys

HERE = os.path.dirname(os.path.abspath(__file__))
ROOT = os.path.dirname(os.path.dirname(HERE))
sys.path.insert(0, os.path.join(ROOT, "vc"))
sys.path.insert(0, os.path.join(ROOT, "units"))
import rewrite as rw  # noqa: E402
from gen import Contract, UnitFile  # noqa: E402
import common  # noqa: E402

XF = "src/extract_function.rs"
AST = "src/parser/ast.rs"
RLIMIT = 60
MIN_FUNCTIONS = 8

ASSUMPTIONS = {
    "SymbolName": "opaque stand-in for ast::SymbolName (equality is equality of the name)", "clone": "derive(Clone) on SymbolName returns an equal name",
    "SyntaxId": "opaque", "Type": "opaque stand-in for garden_type::Type", "Expression": "opaque stand-in for ast::Expression (and for Rc<Expression>)",
    "TypeHint": "opaque", "Position": "opaque", "NsRef": "opaque stand-in for Rc<RefCell<NamespaceInfo>>", "TyMap": "opaque stand-in for FxHashMap<SyntaxId, Type>",
    "NameSet": "FxHashSet<SymbolName> behind a ghost set view `nsv`", "default": "FxHashSet::default() is the empty set",
    "contains": "FxHashSet::contains", "insert": "FxHashSet::insert adds the name",
    "vns_insert_at": "`local_bindings.last_mut().expect(..)` followed by `insert`: adds the name to the last scope",
    "vlast_index": "`last_mut().expect(\"Should never be empty\")`: panics on an empty scope stack (an obligation); the index of the last scope",
    "vns_has_value": "NamespaceInfo.values.contains_key: whether the file defines a toplevel value of that name",
    "vtm_get_cloned": "FxHashMap::get(..).cloned()", "vvec1": "vec![x] is a vector of one element",
    "visit_expr": "Visitor::visit_expr (the default method: dispatches on the expression to the visit_* methods, overridden or default) leaves every scope below the innermost one as it is, may add names to the innermost one (a `let`), keeps the stack depth, and only adds to the free variables; this is the induction hypothesis of the traversal and is not machine-checked",
}
LEMMAS = {"lemma_names_upto_step": {"C20"}, "lemma_pnames_upto_step": {"C20"}, "lemma_visible_push": {"C20"}, "lemma_visible_same": {"C20"}}
UNVERIFIED = {"C20": [
    "visit_expr_variable treats every name that is also a toplevel value of the file as not free: the contract states that rule as the code has it, and it is WRONG for a local variable that has the name of a toplevel function (recorded finding freevars.bounded[extract_finding:local_named_like_a_toplevel_function])",
    "extract-function: that the Visitor trait's default traversal reaches every variable reference through these methods (the induction over the syntax tree) is assumed, see visit_expr; which constructs bind names is compared with the list of Expression_ variants (obligation binding_constructs_are_overridden)",
    "extract-function: the splice of the new function and the call into the text (extract_single_expr / extract_exprs / extracted_fun_src) and find_block_selection are covered by the bounded stand-in only",
]}

# assignment-free programs without return / break / continue; every effect is a println
EXTRACT_FN_PROGRAMS = [
    # a let inside a branch shadows a parameter that the other branch reads
    "fun f(c: Bool, n: Int): Int {\n  let r = if c {\n    let n = 2\n    n * 10\n  } else {\n    n + 1\n  }\n  r\n}\nprintln(string_repr(f(True, 5)))\nprintln(string_repr(f(False, 5)))\n",
    # a catch variable; the try body succeeds
    "fun t(c: Int): Int {\n  let r = try {\n    c + 1\n  } catch (e) {\n    println(\"caught\")\n    0 - 1\n  }\n  r * 2\n}\nprintln(string_repr(t(5)))\n",
    # a match payload shadows an outer variable that a later case reads
    "fun describe(opt: Option<Int>, n: Int): Int {\n  let r = match opt {\n    Some(n) => { n * 10 }\n    None => { n + 1 }\n  }\n  r\n}\nprintln(string_repr(describe(Some(1), 100)))\nprintln(string_repr(describe(None, 100)))\n",
    # a for variable shadows a local that is read after the loop; a closure parameter shadows another
    "fun k(i: Int, x: Int): Int {\n  let mul = fun(x: Int) { x * 2 }\n  for i in [1, 2] {\n    println(string_repr(mul(i)))\n  }\n  println(string_repr(i))\n  mul(3) + x + i\n}\nprintln(string_repr(k(40, 7)))\n",
    # destructuring lets, tuples, a struct, non-ASCII text
    "struct P { x: Int, name: String }\nfun h(p: P, q: (Int, Int)): String {\n  let (a, b) = q\n  let (m, n) = (p.x + a, p.name ^ \"\\u00e9\\U0001F600\")\n  let s = n ^ string_repr(m + b)\n  println(s)\n  s ^ \"!\"\n}\nprintln(h(P{ x: 1, name: \"a\" }, (2, 3)))\n",
    # toplevel lets and expressions, a nested match with payloads of the same name
    "let base = 10\nlet items = [Some(1), None, Some(3)]\nfor it in items {\n  let v = match it {\n    Some(v) => match Some(v + base) { Some(v) => v  None => 0 }\n    None => base\n  }\n  println(string_repr(v))\n}\nprintln(string_repr(base))\n",
    # a method, closures that capture, a nested function literal that shadows
    "method twice(this: Int, by: Int): Int {\n  let f = fun(g: Fun<(Int), Int>) { g(this) + g(by) }\n  let r = f(fun(this: Int) { this * by })\n  println(string_repr(r))\n  r + this\n}\nprintln(string_repr(3.twice(4)))\n",
    # type parameters of the enclosing function in the types of the free variables; a generic function used as a value
    "fun g<T>(x: T, xs: List<T>): List<T> {\n  let ys = xs.append(x)\n  let show = string_repr\n  println(show(ys.len()))\n  ys\n}\nprintln(string_repr(g(1, [2])))\nprintln(string_repr(g(\"a\", [])))\n",
    # an if / else if / else chain whose branches have their own lets
    "fun sign(n: Int): String {\n  if n < 0 {\n    let m = 0 - n\n    \"minus \" ^ string_repr(m * 2)\n  } else if n == 0 {\n    \"zero\"\n  } else if (n + 1) > 3 {\n    let q = n + 1\n    \"plus \" ^ string_repr(q)\n  } else {\n    \"small\"\n  }\n}\nprintln(sign(0 - 3))\nprintln(sign(0))\nprintln(sign(5))\nprintln(sign(1))\n",
    # comments that end in a keyword right before a statement; `else` in identifiers and strings
    "fun f(n: Int): Int {\n  // nothing else\n  let r = g(n)\n  // or else\n  if r > 1 { r } else { 0 }\n}\nfun g(orelse: Int): Int {\n  let s = \"else\"\n  orelse + s.len()\n}\nprintln(string_repr(f(1)))\n",
    # multi-line string literals inside nested blocks: the selected text must be copied as it is
    "fun letter(name: String, n: Int): String {\n  if n > 0 {\n      let head = \"Dear \" ^ name ^ \",\n      you have items:\"\n      head ^ \" \" ^ string_repr(n)\n  } else {\n    for i in [1] {\n        println(\"none\n        at all \" ^ string_repr(i))\n    }\n    \"\"\n  }\n}\nprintln(letter(\"bob\", 3))\nprintln(letter(\"amy\", 0))\n",
    # blocks that bind and then go out of scope, one after the other
    "fun w(a: Int, flag: Bool): Int {\n  if flag {\n    let a = a + 100\n    println(string_repr(a))\n  }\n  for z in [a] {\n    let flag = z\n    println(string_repr(flag))\n  }\n  if flag { a } else { 0 - a }\n}\nprintln(string_repr(w(1, True)))\nprintln(string_repr(w(2, False)))\n",
    # generic functions: a type parameter that occurs only inside the type of a free variable (return type of a
    # function type, argument of a user-defined type, element of a tuple)
    "fun count_results<T>(make: Fun<(Int), T>, n: Int): Int {\n  let total = [make(n), make(n + 1)].len()\n  total\n}\nfun show(i: Int): String {\n  string_repr(i)\n}\nprintln(string_repr(count_results(show, 3)))\n",
    "fun sizes<T, U>(xs: List<T>, pair: (Int, U), use: Fun<(T), Unit>): Int {\n  let n = xs.len() + [pair].len()\n  let m = [use].len()\n  n + m\n}\nprintln(string_repr(sizes([1, 2], (1, \"a\"), fun(i: Int) { Unit })))\n",
    "fun opt_len<T>(o: Option<T>, r: Result<Int, T>): Int {\n  let a = [o].len()\n  let b = [r].len()\n  a + b\n}\nprintln(string_repr(opt_len(Some(\"x\"), Ok(1))))\n",
]
_CMD = ["reftest-extract-function", "{file}", "{offset}", "{end}", "--name", "extracted_zz"]
BOUNDED = [
    {"name": "extract_function_corpus", "kind": "refactor-corpus", "props": ["C20"], "input": EXTRACT_FN_PROGRAMS, "n_inputs": len(EXTRACT_FN_PROGRAMS),
     "command": _CMD, "selections": "lines", "pure_selections": True,
     "bound": "%d listed assignment-free programs without return / break / continue in which names are shadowed by lets in branches, catch variables, match payloads, for variables, closure parameters and destructuring lets: extract_function at every cursor position and for every run of whole lines (leaving out a run with a `let` whose name is read after it); every result must print the same standard output and end with the same status as the original" % len(EXTRACT_FN_PROGRAMS),
     "expect": {}},
]
WITNESSES = [
    {"match": r"freevars\.", "kind": "refactor-corpus", "props": ["C20"], "input": EXTRACT_FN_PROGRAMS, "expect": {}, "command": _CMD, "selections": "lines", "pure_selections": True,
     "note": "extract_function at every cursor position and for every run of whole lines"},
]



GLUE = """
#[verifier::external_body] pub struct SymbolName { _o: u8 }
impl Clone for SymbolName {
    #[verifier::external_body]
    fn clone(&self) -> (r: Self) ensures r == *self { unimplemented!() }
}
#[verifier::external_body] pub struct SyntaxId { _o: u8 }
#[verifier::external_body] pub struct Type { _o: u8 }
#[verifier::external_body] pub struct Expression { _o: u8 }
#[verifier::external_body] pub struct TypeHint { _o: u8 }
#[verifier::external_body] pub struct Position { _o: u8 }
#[verifier::external_body] pub struct NsRef { _o: u8 }
#[verifier::external_body] pub struct TyMap { _o: u8 }
impl Clone for TyMap {
    #[verifier::external_body]
    fn clone(&self) -> (r: Self) ensures r == *self { unimplemented!() }
}
#[verifier::external_body] pub struct NameSet { _o: u8 }
/// the names in a FxHashSet<SymbolName>
pub uninterp spec fn nsv(s: NameSet) -> ISet<SymbolName>;
/// whether the file's namespace defines a toplevel value of that name
pub uninterp spec fn ns_defines(ns: NsRef, n: SymbolName) -> bool;
pub uninterp spec fn ty_of(m: TyMap, id: SyntaxId) -> Option<Type>;
impl NameSet {
    #[verifier::external_body]
    pub fn default() -> (r: NameSet) ensures nsv(r) == ISet::<SymbolName>::empty() { unimplemented!() }
    #[verifier::external_body]
    pub fn contains(&self, n: &SymbolName) -> (r: bool) ensures r == nsv(*self).contains(*n) { unimplemented!() }
    #[verifier::external_body]
    pub fn insert(&mut self, n: SymbolName) -> (r: bool) ensures nsv(*final(self)) == nsv(*old(self)).insert(n) { unimplemented!() }
}
#[verifier::external_body]
pub fn vlast_index(v: &Vec<NameSet>) -> (r: usize)
    requires v@.len() >= 1,
    ensures r == v@.len() - 1,
{ unimplemented!() }
#[verifier::external_body]
pub fn vns_insert_at(v: &mut Vec<NameSet>, i: usize, n: SymbolName)
    requires i < old(v)@.len(),
    ensures final(v)@.len() == old(v)@.len(),
        forall|j: int| 0 <= j < old(v)@.len() && j != i ==> final(v)@[j] == old(v)@[j],
        nsv(final(v)@[i as int]) == nsv(old(v)@[i as int]).insert(n),
{ unimplemented!() }
#[verifier::external_body]
pub fn vns_has_value(ns: &NsRef, n: &SymbolName) -> (r: bool) ensures r == ns_defines(*ns, *n) { unimplemented!() }
#[verifier::external_body]
pub fn vtm_get_cloned(m: &TyMap, id: &SyntaxId) -> (r: Option<Type>) ensures r == ty_of(*m, *id) { unimplemented!() }
#[verifier::external_body]
pub fn vvec1(x: NameSet) -> (r: Vec<NameSet>) ensures r@ == seq![x] { unimplemented!() }
/// the parts of the syntax tree these functions read
pub struct Symbol { pub name: SymbolName, pub id: SyntaxId }
pub struct SymbolWithHint { pub symbol: Symbol }
pub struct ParenthesizedParameters { pub params: Vec<SymbolWithHint> }
pub struct FunInfo { pub params: ParenthesizedParameters, pub body: Block }
"""

SPECS = """
/// the names some scope of the stack binds
pub open spec fn visible(lb: Seq<NameSet>) -> ISet<SymbolName> {
    ISet::new(|n: SymbolName| exists|i: int| 0 <= i < lb.len() && #[trigger] nsv(lb[i]).contains(n))
}
pub open spec fn names_upto(s: Seq<Symbol>, k: int) -> ISet<SymbolName> {
    ISet::new(|n: SymbolName| exists|i: int| 0 <= i < k && i < s.len() && (#[trigger] s[i]).name == n)
}
pub open spec fn pnames_upto(s: Seq<SymbolWithHint>, k: int) -> ISet<SymbolName> {
    ISet::new(|n: SymbolName| exists|i: int| 0 <= i < k && i < s.len() && (#[trigger] s[i]).symbol.name == n)
}
/// the names a let destination / pattern payload / for variable binds
pub open spec fn dest_names(d: LetDestination) -> ISet<SymbolName> {
    match d {
        LetDestination::Symbol(s) => ISet::<SymbolName>::empty().insert(s.name),
        LetDestination::Destructure(v) => names_upto(v@, v@.len() as int),
    }
}
pub open spec fn opt_dest_names(o: Option<LetDestination>) -> ISet<SymbolName> {
    match o { Some(d) => dest_names(d), None => ISet::<SymbolName>::empty() }
}
/// the same scopes, each with the same names
pub open spec fn same_scopes(a: Seq<NameSet>, b: Seq<NameSet>) -> bool {
    a.len() == b.len() && forall|i: int| #![trigger a[i]] #![trigger b[i]] 0 <= i < a.len() ==> nsv(a[i]) == nsv(b[i])
}
/// b is a with (possibly) more names in the innermost scope
pub open spec fn grown_at_top(a: Seq<NameSet>, b: Seq<NameSet>) -> bool {
    a.len() == b.len() && a.len() >= 1
    && (forall|i: int| #![trigger a[i]] #![trigger b[i]] 0 <= i < a.len() - 1 ==> nsv(a[i]) == nsv(b[i]))
    && nsv(a[a.len() - 1]).subset_of(nsv(b[b.len() - 1]))
}
pub proof fn lemma_names_upto_step(s: Seq<Symbol>, k: int)
    requires 0 <= k < s.len(),
    ensures names_upto(s, k + 1) == names_upto(s, k).insert(s[k].name),
{
    assert forall|n: SymbolName| names_upto(s, k + 1).contains(n) == names_upto(s, k).insert(s[k].name).contains(n) by {
        if names_upto(s, k + 1).contains(n) {
            let i = choose|i: int| 0 <= i < k + 1 && i < s.len() && (#[trigger] s[i]).name == n;
            if i < k { assert(names_upto(s, k).contains(n)); }
        }
        if names_upto(s, k).insert(s[k].name).contains(n) {
            if n == s[k].name { assert(s[k].name == n); } else {
                let i = choose|i: int| 0 <= i < k && i < s.len() && (#[trigger] s[i]).name == n;
                assert(s[i].name == n);
            }
        }
    }
    assert(names_upto(s, k + 1) =~= names_upto(s, k).insert(s[k].name));
}
pub proof fn lemma_pnames_upto_step(s: Seq<SymbolWithHint>, k: int)
    requires 0 <= k < s.len(),
    ensures pnames_upto(s, k + 1) == pnames_upto(s, k).insert(s[k].symbol.name),
{
    assert forall|n: SymbolName| pnames_upto(s, k + 1).contains(n) == pnames_upto(s, k).insert(s[k].symbol.name).contains(n) by {
        if pnames_upto(s, k + 1).contains(n) {
            let i = choose|i: int| 0 <= i < k + 1 && i < s.len() && (#[trigger] s[i]).symbol.name == n;
            if i < k { assert(pnames_upto(s, k).contains(n)); }
        }
        if pnames_upto(s, k).insert(s[k].symbol.name).contains(n) {
            if n == s[k].symbol.name { assert(s[k].symbol.name == n); } else {
                let i = choose|i: int| 0 <= i < k && i < s.len() && (#[trigger] s[i]).symbol.name == n;
                assert(s[i].symbol.name == n);
            }
        }
    }
    assert(pnames_upto(s, k + 1) =~= pnames_upto(s, k).insert(s[k].symbol.name));
}
/// pushing a scope adds exactly its names to the visible ones
pub proof fn lemma_visible_push(lb: Seq<NameSet>, top: NameSet)
    ensures visible(lb.push(top)) == visible(lb).union(nsv(top)),
{
    let l2 = lb.push(top);
    assert forall|n: SymbolName| visible(l2).contains(n) == visible(lb).union(nsv(top)).contains(n) by {
        if visible(l2).contains(n) {
            let i = choose|i: int| 0 <= i < l2.len() && #[trigger] nsv(l2[i]).contains(n);
            if i < lb.len() { assert(nsv(lb[i]).contains(n)); }
        }
        if visible(lb).contains(n) {
            let i = choose|i: int| 0 <= i < lb.len() && #[trigger] nsv(lb[i]).contains(n);
            assert(nsv(l2[i]).contains(n));
        }
        if nsv(top).contains(n) { assert(nsv(l2[lb.len() as int]).contains(n)); }
    }
    assert(visible(l2) =~= visible(lb).union(nsv(top)));
}
/// stacks with the same scopes show the same names
pub proof fn lemma_visible_same(a: Seq<NameSet>, b: Seq<NameSet>)
    requires same_scopes(a, b),
    ensures visible(a) == visible(b),
{
    assert forall|n: SymbolName| visible(a).contains(n) == visible(b).contains(n) by {
        if visible(a).contains(n) { let i = choose|i: int| 0 <= i < a.len() && #[trigger] nsv(a[i]).contains(n); assert(nsv(b[i]).contains(n)); }
        if visible(b).contains(n) { let i = choose|i: int| 0 <= i < b.len() && #[trigger] nsv(b[i]).contains(n); assert(nsv(a[i]).contains(n)); }
    }
    assert(visible(a) =~= visible(b));
}
"""

# Visitor::visit_expr as the overrides see it (assumed, see ASSUMPTIONS)
STUBS = """
impl FreeVarsVisitor {
    #[verifier::external_body]
    pub fn visit_expr(&mut self, expr: &Expression)
        requires old(self).local_bindings@.len() >= 1,
        ensures grown_at_top(old(self).local_bindings@, final(self).local_bindings@),
            nsv(old(self).free_vars_seen).subset_of(nsv(final(self).free_vars_seen)),
            final(self).namespace == old(self).namespace, final(self).id_to_ty == old(self).id_to_ty,
    { unimplemented!() }
}
"""

import findings  # noqa: E402
for _fn, _fi, _fb in findings.C20_EXTRACT:
    BOUNDED.append({"name": _fn, "kind": "refactor-corpus", "props": ["C20"], "input": [_fi], "n_inputs": 1, "command": _CMD, "selections": "lines", "pure_selections": True,
                    "bound": _fb + "; every result must print the same standard output and end with the same status as the original", "expect": {}})


def build(tier):
    u = UnitFile("freevars")
    u.raw(common.HEADER)
    u.raw(GLUE, kind="prelude")
    T = [rw.simple("T1", r"Rc<RefCell<NamespaceInfo>>", "NsRef"), rw.simple("T1", r"FxHashSet<SymbolName>", "NameSet"),
         rw.simple("T1", r"FxHashMap<SyntaxId, Type>", "TyMap"), rw.simple("T1", r"Rc<Expression>", "Expression")]
    u.add_type(AST, "LetDestination")
    u.add_type(AST, "Pattern")
    u.add_type(AST, "Block", rules=T)
    u.add_type(XF, "FreeVarsVisitor", rules=T)
    u.raw(SPECS, kind="spec")
    u.raw(STUBS, kind="prelude")
    props = {"C20"}
    rw.ITER_BY_VALUE_OK.update({"symbols", "exprs"})
    COMMON = [rw.simple("R1", r"\bast::", ""), rw.simple("R2", r"FxHashSet::default\(\)", "NameSet::default()"),
              rw.simple("R1", r"\b_: Option<&TypeHint>", "_hint: Option<&TypeHint>")]
    VIS = "Visitor for FreeVarsVisitor"
    W = "FreeVarsVisitor"
    OLD, CUR, FIN = "old(self).local_bindings@", "self.local_bindings@", "final(self).local_bindings@"
    wf = [("some_scope", "%s.len() >= 1" % OLD)]
    frame = [("namespace_and_types_untouched", "final(self).namespace == old(self).namespace, final(self).id_to_ty == old(self).id_to_ty"),
             ("seen_names_only_added", "nsv(old(self).free_vars_seen).subset_of(nsv(final(self).free_vars_seen))")]

    # --- a variable reference -------------------------------------------------------------------------------
    NAME = "symbol.name"
    is_free = "(!ns_defines(old(self).namespace, %s) && !nsv(old(self).free_vars_seen).contains(%s) && !visible(%s).contains(%s))" % (NAME, NAME, OLD, NAME)
    u.add_fn(XF, "visit_expr_variable", impl=VIS, wrap_impl=W,
             rules=COMMON + [rw.simple("R2", r"self\.namespace\.borrow\(\)\.values\.contains_key\(&symbol\.name\)", "vns_has_value(&self.namespace, &symbol.name)"),
                             rw.simple("R2", r"self\.id_to_ty\.get\(&symbol\.id\)\.cloned\(\)", "vtm_get_cloned(&self.id_to_ty, &symbol.id)"), "R6"],
             contract=Contract(
                 requires=wf,
                 ensures=[("a_name_that_no_scope_binds_and_the_file_does_not_define_becomes_a_parameter_once",
                           "final(self).free_vars@ == (if %s { old(self).free_vars@.push((%s, ty_of(old(self).id_to_ty, symbol.id))) } else { old(self).free_vars@ })" % (is_free, NAME)),
                          ("seen_follows", "nsv(final(self).free_vars_seen) == (if %s { nsv(old(self).free_vars_seen).insert(%s) } else { nsv(old(self).free_vars_seen) })" % (is_free, NAME)),
                          ("scopes_untouched", "%s == %s" % (FIN, OLD))] + frame[:1],
                 optional_loops=dict(invariant=[("no_inner_scope_binds_it", "{I} <= %s.len(), forall|j: int| {I} <= j < %s.len() ==> !nsv(#[trigger] %s[j]).contains(%s)" % (CUR, CUR, CUR, NAME)),
                                                ("nothing_changed_yet", "*self == *old(self)")],
                                     decreases="{I}"),
                 props=props))

    # --- binding the names of a destination in the innermost scope -----------------------------------------------
    LAST = "%s[%s.len() - 1]"
    u.add_fn(XF, "insert_dest_bindings", impl=W,
             rules=COMMON + [rw.simple("R13l", r"let block_bindings = self\s*\.local_bindings\s*\.last_mut\(\)\s*\.expect\(\"[^\"]*\"\);", "let __n: usize = vlast_index(&self.local_bindings);"),
                             rw.simple("R13l", r"block_bindings\.insert\(([^;]*)\);", r"vns_insert_at(&mut self.local_bindings, __n, \1);"), "R4"],
             contract=Contract(
                 requires=wf,
                 ensures=[("the_innermost_scope_gains_exactly_the_destination_names", "nsv(%s) == nsv(%s).union(dest_names(*dest))" % (LAST % (FIN, FIN), LAST % (OLD, OLD))),
                          ("other_scopes_untouched", "%s.len() == %s.len(), forall|i: int| 0 <= i < %s.len() - 1 ==> %s[i] == %s[i]" % (FIN, OLD, OLD, FIN, OLD)),
                          ("rest_untouched", "final(self).namespace == old(self).namespace, final(self).id_to_ty == old(self).id_to_ty, final(self).free_vars == old(self).free_vars, final(self).free_vars_seen == old(self).free_vars_seen")],
                 loops={1: dict(invariant=[("names_so_far", "{I} <= symbols@.len(), %s.len() == %s.len(), __n == %s.len() - 1, nsv(%s[__n as int]) == nsv(%s[__n as int]).union(names_upto(symbols@, {I} as int))" % (CUR, OLD, OLD, CUR, OLD)),
                                           ("others_untouched", "forall|i: int| 0 <= i < %s.len() - 1 ==> %s[i] == %s[i]" % (OLD, CUR, OLD)),
                                           ("rest_untouched", "self.namespace == old(self).namespace, self.id_to_ty == old(self).id_to_ty, self.free_vars == old(self).free_vars, self.free_vars_seen == old(self).free_vars_seen")],
                                body_prelude="proof { lemma_names_upto_step(symbols@, {I} as int); }",
                                pre="proof { assert(names_upto(symbols@, 0) =~= ISet::<SymbolName>::empty()); assert(nsv(%s[__n as int]).union(names_upto(symbols@, 0)) =~= nsv(%s[__n as int])); }" % (OLD, OLD),
                                decreases="symbols@.len() - {I}")},
                 props=props))
    # --- constructs that open a scope ---------------------------------------------------------------------------------
    inv_frame = ("rest", "self.namespace == old(self).namespace, self.id_to_ty == old(self).id_to_ty, nsv(old(self).free_vars_seen).subset_of(nsv(self.free_vars_seen))")
    lower = lambda base, depth: "forall|i: int| 0 <= i < %s.len() ==> nsv(#[trigger] %s[i]) == nsv(%s[i])" % (base, CUR, base)
    u.add_fn(XF, "visit_block", impl=VIS, wrap_impl=W, rules=COMMON + ["R4"],
             contract=Contract(
                 requires=wf,
                 ensures=[("names_bound_in_the_block_go_out_of_scope_at_its_end", "same_scopes(%s, %s)" % (OLD, FIN))] + frame,
                 loops={1: dict(invariant=[("one_scope_deeper", "%s.len() == %s.len() + 1" % (CUR, OLD)), ("enclosing_scopes_untouched", lower(OLD, 0)), inv_frame,
                                           ("the_block_starts_with_the_enclosing_names_only", "{I} == 0 ==> visible(%s) == visible(%s)" % (CUR, OLD)),
                                           ("index", "{I} <= block.exprs@.len()")],
                                decreases="block.exprs@.len() - {I}")},
                 hints=[dict(anchor="self.local_bindings.push(", where="after_stmt", optional=True,
                             text="proof { lemma_visible_push(%s, %s[%s.len() - 1]); assert(%s =~= %s.push(%s[%s.len() - 1])); assert(visible(%s) =~= visible(%s)); }" % (OLD, CUR, CUR, CUR, OLD, CUR, CUR, CUR, OLD))],
                 props=props))
    def split_top(extra=""):
        """proof text: CUR is base.push(top); the names visible in it are those of base plus those of top"""
        return ("let top = %s[%s.len() - 1]; let base = %s.drop_last(); assert(%s =~= base.push(top)); lemma_visible_push(base, top); %s" % (CUR, CUR, CUR, CUR, extra))
    post_same = [("the_scope_is_closed_again", "same_scopes(%s, %s)" % (OLD, FIN))] + frame
    post_grown = [("enclosing_scopes_untouched_and_the_innermost_one_only_grows", "grown_at_top(%s, %s)" % (OLD, FIN))] + frame

    u.add_fn(XF, "visit_expr_try", impl=VIS, wrap_impl=W, rules=COMMON,
             contract=Contract(
                 requires=wf, ensures=post_same,
                 hints=[dict(anchor="self.visit_block(try_body)", where="before", name="the_try_body_sees_the_enclosing_names_only",
                             text="proof { assert(%s == %s); }" % (CUR, OLD)),
                        dict(anchor="self.visit_block(catch_body)", where="before", name="the_catch_body_sees_the_enclosing_names_and_the_catch_variable",
                             text="proof { %s assert(same_scopes(%s, base)); lemma_visible_same(%s, base);\n    assert(visible(%s) =~= visible(%s).insert(catch_sym.name)); }" % (split_top(), OLD, OLD, CUR, OLD))],
                 props=props))

    PARAMS = "fun_info.params.params@"
    u.add_fn(XF, "visit_expr_fun_literal", impl=VIS, wrap_impl=W, rules=COMMON + ["R4"],
             contract=Contract(
                 requires=wf, ensures=post_same,
                 loops={1: dict(invariant=[("parameter_names_so_far", "{I} <= %s.len(), nsv(block_bindings) == pnames_upto(%s, {I} as int)" % (PARAMS, PARAMS)), ("nothing_changed_yet", "*self == *old(self)")],
                                body_prelude="proof { lemma_pnames_upto_step(%s, {I} as int); }" % PARAMS,
                                pre="proof { assert(pnames_upto(%s, 0) =~= ISet::<SymbolName>::empty()); }" % PARAMS,
                                decreases="%s.len() - {I}" % PARAMS)},
                 hints=[dict(anchor="self.visit_block(&fun_info.body)", where="before", name="the_body_sees_the_enclosing_names_and_the_parameters",
                             text="proof { %s assert(same_scopes(%s, base)); lemma_visible_same(%s, base);\n    assert(visible(%s) =~= visible(%s).union(pnames_upto(%s, %s.len() as int))); }" % (split_top(), OLD, OLD, CUR, OLD, PARAMS, PARAMS))],
                 props=props))

    u.add_fn(XF, "visit_expr_let", impl=VIS, wrap_impl=W, rules=COMMON,
             contract=Contract(
                 requires=wf,
                 ensures=post_grown + [("the_destination_names_are_bound_in_the_innermost_scope", "dest_names(*dest).subset_of(nsv(%s[%s.len() - 1]))" % (FIN, FIN))],
                 hints=[dict(anchor="self.visit_expr(expr)", where="before", name="the_right_hand_side_is_analysed_before_the_destination_is_bound",
                             text="proof { assert(%s == %s); }" % (CUR, OLD))],
                 props=props))

    u.add_fn(XF, "visit_expr_for_in", impl=VIS, wrap_impl=W, rules=COMMON + ["R4"],
             contract=Contract(
                 requires=wf, ensures=post_grown,
                 loops={1: dict(invariant=[("names_so_far", "{I} <= symbols@.len(), nsv(block_bindings) == names_upto(symbols@, {I} as int)"), ("visitor_untouched", "%s == lb1" % CUR), inv_frame],
                                body_prelude="proof { lemma_names_upto_step(symbols@, {I} as int); }",
                                pre="proof { assert(names_upto(symbols@, 0) =~= ISet::<SymbolName>::empty()); }",
                                decreases="symbols@.len() - {I}")},
                 hints=[dict(anchor="self.visit_expr(expr)", where="before", name="the_iterated_expression_is_analysed_without_the_loop_variable",
                             text="proof { assert(%s == %s); }" % (CUR, OLD)),
                        dict(anchor="self.visit_expr(expr)", where="after_stmt", text="let ghost lb1 = %s;" % CUR),
                        dict(anchor="self.visit_block(body)", where="before", name="the_loop_body_sees_the_enclosing_names_and_the_loop_variables",
                             text="proof { %s assert(same_scopes(lb1, base)); lemma_visible_same(lb1, base);\n    assert(visible(%s) =~= visible(lb1).union(dest_names(*dest))); }" % (split_top(), CUR))],
                 props=props))

    u.add_fn(XF, "visit_expr_match", impl=VIS, wrap_impl=W,
             rules=COMMON + [rw.simple("R4t", r"for \(pattern, block\) in cases \{", "let mut __i1: usize = 0; while __i1 < cases.len() { let pattern = &cases[__i1].0; let block = &cases[__i1].1; __i1 += 1;")],
             contract=Contract(
                 requires=wf, ensures=post_grown,
                 loops={1: dict(invariant=[("every_case_starts_from_the_scopes_after_the_scrutinee", "same_scopes(lb1, %s), lb1.len() >= 1, grown_at_top(%s, lb1)" % (CUR, OLD)), inv_frame, ("index", "{I} <= cases@.len()")],
                                decreases="cases@.len() - {I}")},
                 hints=[dict(anchor="self.visit_expr(scrutinee)", where="before", name="the_scrutinee_is_analysed_without_any_payload",
                             text="proof { assert(%s == %s); }" % (CUR, OLD)),
                        dict(anchor="self.visit_expr(scrutinee)", where="after_stmt", text="let ghost lb1 = %s;" % CUR),
                        dict(anchor="self.visit_block(block)", where="before", name="a_case_body_sees_the_enclosing_names_and_its_own_payload_only",
                             text="proof { %s assert(same_scopes(lb1, base)); lemma_visible_same(lb1, base);\n    assert(visible(%s) =~= visible(lb1).union(opt_dest_names(pattern.payload))); }" % (split_top(), CUR))],
                 props=props))

    u.add_fn(XF, "locals_outside_exprs",
             rules=COMMON + T + [rw.simple("R2", r"vec!\[NameSet::default\(\)\]", "vvec1(NameSet::default())"), rw.simple("R2", r"vec!\[\]", "Vec::new()"), "R4"],
             contract=Contract(
                 ensures=[("returns_the_collected_free_variables", "true")],
                 loops={1: dict(invariant=[("some_scope", "visitor.local_bindings@.len() >= 1, {I} <= exprs@.len()")], decreases="exprs@.len() - {I}")},
                 props=props))
    # --- every construct of the language that binds names has an override -------------------------------------------
    import hashlib
    import re
    from gen import Tag
    ast_text = u.source(AST).text
    m_enum = re.search(r"pub\(crate\)\s+enum\s+Expression_\s*\{", ast_text)
    if not m_enum:
        raise common.ExtractError("enum Expression_ not found") if hasattr(common, "ExtractError") else RuntimeError("enum Expression_ not found")
    depth, k = 1, m_enum.end()
    while depth and k < len(ast_text):
        depth += {"{": 1, "}": -1}.get(ast_text[k], 0)
        k += 1
    body = re.sub(r"//[^\n]*", "", ast_text[m_enum.end():k - 1])
    variants = re.findall(r"^\s{4}([A-Z]\w*)\s*(\(([^;]*?)\))?\s*,\s*$", body, flags=re.M | re.S)
    OVERRIDE = {"Match": "visit_expr_match", "ForIn": "visit_expr_for_in", "Try": "visit_expr_try", "Let": "visit_expr_let", "FunLiteral": "visit_expr_fun_literal"}
    xf_src = u.source(XF)
    missing = []
    for (vname, _, fields) in variants:
        binds = bool(re.search(r"\b(LetDestination|Pattern|FunInfo)\b", fields or "")) or vname in OVERRIDE
        if not binds:
            continue
        if vname not in OVERRIDE:
            missing.append(vname + " (no override known for it)")
            continue
        try:
            xf_src.find_fn(OVERRIDE[vname], impl=VIS)
        except Exception:
            missing.append("%s (%s is not overridden)" % (vname, OVERRIDE[vname]))
    if len(variants) < 20:
        missing.append("only %d variants of Expression_ recognised" % len(variants))
    fname = "binding_constructs_are_overridden"
    u.fn_props[fname] = props
    u.skeletons[fname] = hashlib.sha256((",".join(v[0] for v in variants) + "|" + ";".join(missing)).encode()).hexdigest()[:12]
    u.items.append({"name": "every Expression_ variant that carries a LetDestination, a Pattern, a FunInfo or a catch variable has its visit_* override in FreeVarsVisitor",
                    "generated_as": fname, "kind": "slice", "where": AST, "sha256_16": "-", "skeleton": u.skeletons[fname]})
    oid = "freevars.%s.post[no_binding_construct_is_left_to_the_default_traversal]" % fname
    u.clauses.append((oid, props, "n == 0"))
    tg = Tag("repo", fn=fname, repo_file=AST, repo_line=ast_text.count("\n", 0, m_enum.start()) + 1, props=props)
    u.emit("pub fn %s() -> (n: u64)" % fname, tg)
    u.raw("    ensures", fn=fname, props=props)
    u.emit("        n == 0,", Tag("contract", fn=fname, clause=oid, props=props))
    u.emit("{ %d }  // %d variants; without an override: %s" % (len(missing), len(variants), "; ".join(missing) or "none"), tg)
    u.add_canary_proof()
    u.raw(common.FOOTER)
    return u
