"""Unit `bindings` (C04 update clause, C06): Bindings::get / has / set_existing / add_new (src/eval.rs) against
`lookup`: a name reads as the value in the INNERMOST block that binds it; set_existing changes exactly that
binding; add_new binds in the innermost block.  This discharges what unit steps assumes of set_existing."""
import os
import sys

HERE = os.path.dirname(os.path.abspath(__file__))
ROOT = os.path.dirname(os.path.dirname(HERE))
sys.path.insert(0, os.path.join(ROOT, "vc"))
sys.path.insert(0, os.path.join(ROOT, "units"))
import rewrite as rw  # noqa: E402
from gen import Contract, UnitFile  # noqa: E402
import common  # noqa: E402

EV = "src/eval.rs"
AST = "src/parser/ast.rs"
RLIMIT = 100
MIN_FUNCTIONS = 4

ASSUMPTIONS = {
    "Value": "opaque stand-in for values::Value", "clone": "Clone returns an equal value",
    "BlockBindings": "values::BlockBindings { values: FxHashMap<InternedSymbolId, Value> } behind a ghost map view `bbm`",
    "vbb_get": "FxHashMap::get", "vbb_contains": "FxHashMap::contains_key / Entry::Occupied", "vbb_insert_at": "FxHashMap::insert / OccupiedEntry::insert into the i-th block",
    "vbb_insert_last": "FxHashMap::insert into the last block", "SyntaxId": "opaque", "Position": "opaque", "vunreachable": "unreachable!(): a reachable call is a violation",
    "is_underscore": "SymbolName::is_underscore", "vc_clone": "-", "vs_string_eq_lit": "-", "vs_string_eq": "-", "vs_string_from_lit": "-",
}
LEMMAS = {"lemma_lookup_skip": {"C04", "C06"}, "lemma_lookup_update": {"C04", "C06"}, "lemma_lookup_other": {"C04", "C06"}}
UNVERIFIED = {"C04": ["the hash-map operations of one block are assumed (ghost map view); Bindings::remove / all / new_with are not under contract"],
              "C06": ["as C04"]}

GLUE = """
#[verifier::external_body] pub struct Value { _o: u8 }
impl Clone for Value {
    #[verifier::external_body]
    fn clone(&self) -> (r: Self) ensures r == *self { unimplemented!() }
}
#[verifier::external_body] pub struct SyntaxId { _o: u8 }
#[verifier::external_body] pub struct Position { _o: u8 }
#[verifier::external_body] pub struct BlockBindings { _o: u8 }
/// the bindings of one block as a map
pub uninterp spec fn bbm(b: BlockBindings) -> Map<InternedSymbolId, Value>;
#[verifier::external_body]
pub fn vbb_get<'a>(b: &'a BlockBindings, id: &InternedSymbolId) -> (r: Option<&'a Value>)
    ensures r is Some <==> bbm(*b).contains_key(*id), r is Some ==> *r->Some_0 == bbm(*b)[*id],
{ unimplemented!() }
#[verifier::external_body]
pub fn vbb_contains(b: &BlockBindings, id: InternedSymbolId) -> (r: bool) ensures r == bbm(*b).contains_key(id) { unimplemented!() }
#[verifier::external_body]
pub fn vbb_insert_at(bs: &mut Vec<BlockBindings>, i: usize, id: InternedSymbolId, value: Value)
    requires i < old(bs)@.len(),
    ensures final(bs)@.len() == old(bs)@.len(),
        forall|j: int| 0 <= j < old(bs)@.len() && j != i ==> final(bs)@[j] == old(bs)@[j],
        bbm(final(bs)@[i as int]) == bbm(old(bs)@[i as int]).insert(id, value),
{ unimplemented!() }
#[verifier::external_body]
pub fn vunreachable() -> ! requires false { unimplemented!() }
impl SymbolName {
    #[verifier::external_body]
    pub fn is_underscore(&self) -> (r: bool) { unimplemented!() }
}
"""

WITNESSES = [
    {"match": r"bindings\.", "kind": "run", "props": ["C04", "C06"], "timeout": 30,
     "input": "fun f(x: Int): Int {\n  let y = 7\n  if True {\n    let x = 100\n    let y = 100\n    x += 5\n    y = y - 5\n    println(string_repr(x) ^ \" \" ^ string_repr(y))\n  }\n  println(string_repr(x) ^ \" \" ^ string_repr(y))\n  x\n}\nf(7)\n",
     "expect": {"stdout": "105 95\n7 7"}, "note": "reads and writes of a shadowing name use the innermost binding"},
]


def build(tier):
    u = UnitFile("bindings")
    u.raw(common.HEADER)
    u.raw(common.prelude("strings.rs"), kind="prelude")
    u.raw("#[derive(Clone, Copy, PartialEq, Eq)]")
    u.add_type(AST, "InternedSymbolId")
    u.add_type(AST, "SymbolName")
    u.raw(GLUE, kind="prelude")
    u.add_type(AST, "Symbol")
    u.add_type(EV, "Bindings")
    u.raw(open(os.path.join(HERE, "specs.rs")).read(), kind="spec")
    props = {"C04", "C06"}
    IMPL = "Bindings"
    BS = "self.block_bindings@"
    GET_RULES = ["R6",
                 rw.simple("R2", r"block_bindings\.values\.get\(&interned_id\)", "vbb_get(block_bindings, &interned_id)"),
                 rw.simple("R11", r"\bvalue\.clone\(\)", "value.clone()")]
    u.add_fn(EV, "get", impl=IMPL, rules=GET_RULES, contract=Contract(
        ensures=[("innermost_binding", "r == lookup(%s, interned_id)" % BS)],
        loops={1: dict(invariant=[("not_in_the_inner_blocks", "{I} <= %s.len(), lookup(%s, interned_id) == lookup(%s.take({I} as int), interned_id)" % (BS, BS, BS))],
                       body_prelude="proof { lemma_lookup_skip(%s.take({I} as int), interned_id); assert(%s.take({I} as int).drop_last() =~= %s.take({I} as int - 1)); }" % (BS, BS, BS),
                       decreases="{I}")},
        body_prelude="proof { assert(%s.take(%s.len() as int) =~= %s); }" % (BS, BS, BS),
        props=props))
    u.add_fn(EV, "has", impl=IMPL, rules=[rw.simple("R2", r"self\.get\(interned_id\)\.is_some\(\)", "(match self.get(interned_id) { Some(_) => true, None => false })")],
             contract=Contract(ensures=[("bound_somewhere", "r == (lookup(%s, interned_id) is Some)" % BS)], props=props))
    SET_RULES = [
        rw.simple("R6m", r"for block_bindings in self\.block_bindings\.iter_mut\(\)\.rev\(\) \{", "let mut __i1: usize = self.block_bindings.len(); while __i1 > 0 && __i1 <= self.block_bindings.len() { __i1 -= 1;"),
        rw.simple("R13e", r"if let Entry::Occupied\(mut e\) = block_bindings\.values\.entry\(sym\.interned_id\) \{\s*e\.insert\((value(?:\.clone\(\))?)\);(\s*return;)?\s*\}",
                  r"if vbb_contains(&self.block_bindings[__i1], sym.interned_id) { vbb_insert_at(&mut self.block_bindings, __i1, sym.interned_id, \1);\2 }"),
        rw.simple("R12u", r"unreachable!\(\)", "vunreachable()"),
    ]
    OLD = "old(self).block_bindings@"
    FIN = "final(self).block_bindings@"
    u.add_fn(EV, "set_existing", impl=IMPL, rules=SET_RULES, contract=Contract(
        requires=[("bound_somewhere", "lookup(%s, sym.interned_id) is Some" % OLD)],
        ensures=[("reads_as_the_new_value", "lookup(%s, sym.interned_id) == Some(value)" % FIN),
                 ("other_names_untouched", "forall|o: InternedSymbolId| o != sym.interned_id ==> lookup(%s, o) == lookup(%s, o)" % (FIN, OLD)),
                 ("same_blocks", "%s.len() == %s.len()" % (FIN, OLD)),
                 ("exactly_one_block_changes", "exists|i: int| #[trigger] changed_only_at(%s, %s, i)" % (OLD, FIN))],
        loops={1: dict(invariant=[("unchanged_so_far", "self.block_bindings@ == %s, __i1 <= %s.len()" % (OLD, OLD)),
                                  ("not_in_the_inner_blocks", "lookup(%s, sym.interned_id) == lookup(%s.take(__i1 as int), sym.interned_id)" % (OLD, OLD)),
                                  ("inner_blocks_do_not_bind_it", "forall|j: int| __i1 <= j < %s.len() ==> !bbm(#[trigger] %s[j]).contains_key(sym.interned_id)" % (OLD, OLD))],
                       body_prelude="proof { lemma_lookup_skip(%s.take(__i1 as int), sym.interned_id); assert(%s.take(__i1 as int).drop_last() =~= %s.take(__i1 as int - 1)); }" % (OLD, OLD, OLD),
                       decreases="__i1")},
        hints=[dict(anchor="vbb_insert_at(", where="after_stmt", name="innermost_block_updated",
                    text="proof { assert(changed_only_at(%s, self.block_bindings@, __i1 as int)); lemma_lookup_update(%s, self.block_bindings@, __i1 as int, sym.interned_id, value);\n"
                         "    assert forall|o: InternedSymbolId| o != sym.interned_id implies lookup(self.block_bindings@, o) == lookup(%s, o) by { lemma_lookup_other(%s, self.block_bindings@, __i1 as int, sym.interned_id, value, o); } }" % (OLD, OLD, OLD, OLD))],
        body_prelude="proof { assert(%s.take(%s.len() as int) =~= %s); }" % (OLD, OLD, OLD),
        props=props))
    ADD_RULES = [
        rw.simple("R13l", r"let block_bindings = self\s*\.block_bindings\s*\.last_mut\(\)\s*\.expect\(\"[^\"]*\"\);\s*block_bindings\.values\.insert\(sym\.interned_id, value\);",
                  "let __n = self.block_bindings.len(); vbb_insert_at(&mut self.block_bindings, __n - 1, sym.interned_id, value);"),
    ]
    u.add_fn(EV, "add_new", impl=IMPL, rules=ADD_RULES, contract=Contract(
        requires=[("some_block", "%s.len() >= 1" % OLD)],
        ensures=[("bound_in_the_innermost_block_or_ignored", "(lookup(%s, sym.interned_id) == Some(value) && %s.len() == %s.len() && %s.drop_last() == %s.drop_last()) || %s == %s" % (FIN, FIN, OLD, FIN, OLD, FIN, OLD)),
                 ("other_names_untouched", "forall|o: InternedSymbolId| o != sym.interned_id ==> lookup(%s, o) == lookup(%s, o)" % (FIN, OLD))],
        hints=[dict(anchor="vbb_insert_at(", where="after_stmt", name="innermost_block_updated",
                    text="proof { lemma_lookup_update(%s, self.block_bindings@, __n as int - 1, sym.interned_id, value);\n"
                         "    assert(self.block_bindings@.drop_last() =~= %s.drop_last());\n"
                         "    assert forall|o: InternedSymbolId| o != sym.interned_id implies lookup(self.block_bindings@, o) == lookup(%s, o) by { lemma_lookup_other(%s, self.block_bindings@, __n as int - 1, sym.interned_id, value, o); } }" % (OLD, OLD, OLD, OLD))],
        props=props))
    u.add_canary_proof()
    u.raw(common.FOOTER)
    return u
