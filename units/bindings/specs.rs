/// what a read of the name finds: the value in the innermost (last) block that binds it
pub open spec fn lookup(bs: Seq<BlockBindings>, id: InternedSymbolId) -> Option<Value>
    decreases bs.len(),
{
    if bs.len() == 0 { None } else if bbm(bs.last()).contains_key(id) { Some(bbm(bs.last())[id]) } else { lookup(bs.drop_last(), id) }
}
/// one unfolding
pub proof fn lemma_lookup_skip(bs: Seq<BlockBindings>, id: InternedSymbolId)
    ensures bs.len() > 0 && !bbm(bs.last()).contains_key(id) ==> lookup(bs, id) == lookup(bs.drop_last(), id),
        bs.len() > 0 && bbm(bs.last()).contains_key(id) ==> lookup(bs, id) == Some(bbm(bs.last())[id]),
{}
/// block i gets (id -> v); no block above i binds id: the name now reads as v
pub proof fn lemma_lookup_update(a: Seq<BlockBindings>, b: Seq<BlockBindings>, i: int, id: InternedSymbolId, v: Value)
    requires 0 <= i < a.len(), b.len() == a.len(),
        forall|j: int| 0 <= j < a.len() && j != i ==> b[j] == a[j],
        bbm(b[i]) == bbm(a[i]).insert(id, v),
        forall|j: int| i < j < a.len() ==> !bbm(a[j]).contains_key(id),
    ensures lookup(b, id) == Some(v),
    decreases a.len(),
{
    if a.len() - 1 == i {
        assert(bbm(b.last()).contains_key(id));
    } else {
        assert(!bbm(b.last()).contains_key(id));
        lemma_lookup_update(a.drop_last(), b.drop_last(), i, id, v);
    }
}
/// ... and every other name reads as before
pub proof fn lemma_lookup_other(a: Seq<BlockBindings>, b: Seq<BlockBindings>, i: int, id: InternedSymbolId, v: Value, o: InternedSymbolId)
    requires 0 <= i < a.len(), b.len() == a.len(), o != id,
        forall|j: int| 0 <= j < a.len() && j != i ==> b[j] == a[j],
        bbm(b[i]) == bbm(a[i]).insert(id, v),
    ensures lookup(b, o) == lookup(a, o),
    decreases a.len(),
{
    if a.len() - 1 == i {
        assert(b.drop_last() =~= a.drop_last());
    } else {
        lemma_lookup_other(a.drop_last(), b.drop_last(), i, id, v, o);
    }
}

/// b differs from a at most in block i
pub open spec fn changed_only_at(a: Seq<BlockBindings>, b: Seq<BlockBindings>, i: int) -> bool {
    0 <= i < a.len() && b.len() == a.len() && forall|j: int| 0 <= j < a.len() && j != i ==> b[j] == a[j]
}
