"""Unit `reqspan` (C09): the offsets a JSON-session client sends with a `run` or `load` request.
`lex_between` (unit lex) asserts `end_offset <= s.len()` and slices the text at `offset`; its precondition
(`offset <= end_offset <= len`, `offset` on a character boundary) is pushed to its callers.  The two callers that
take the offsets from a request are handle_load_request and handle_run_eval_request (src/json_session.rs).

  * `span_in_input` is extracted verbatim and proved to say yes exactly for a range of the input that starts and
    ends on character boundaries, which implies lex_between's precondition (lemma_span_is_lexable).
  * Each of the two handlers is reduced to a control-flow slice that keeps the test of `span_in_input(input,
    offset, end_offset)` and the call of `parse_toplevel_items_from_span`; the slice proves that the call is only
    reached on paths where the test said yes.  That both name the same three variables, and that none of them is
    rebound in between, is checked on the source text when the slice is built."""
import os
import re
import sys

HERE = os.path.dirname(os.path.abspath(__file__))
ROOT = os.path.dirname(os.path.dirname(HERE))
sys.path.insert(0, os.path.join(ROOT, "vc"))
sys.path.insert(0, os.path.join(ROOT, "units"))
import rewrite as rw  # noqa: E402
from gen import Contract, UnitFile, Tag  # noqa: E402
from extract import ExtractError, skeleton_hash  # noqa: E402
from slicer import Slicer  # noqa: E402
import common  # noqa: E402

JS = "src/json_session.rs"
RLIMIT = 60
MIN_FUNCTIONS = 3

ASSUMPTIONS = {
    "vs_is_char_boundary": "str::is_char_boundary(i): false past the end, otherwise whether byte offset i starts a character (or is the end)",
    "nondet": "a dropped condition may go either way", "nondet_u8": "a dropped match may take any arm",
}
LEMMAS = {"lemma_span_is_lexable": {"C09"}}
UNVERIFIED = {
    "C09": ["the slices keep the control flow of the two handlers, the test of span_in_input and the call of parse_toplevel_items_from_span; that the arguments of the two are the same variables, not rebound in between, is a check on the source text, not a proof obligation",
            "eval_up_to requests carry one offset that is only compared with item positions (never used to slice the text); the LSP handlers compute their offsets with line_char_to_offset (unit lsppos)"],
}

GLUE = """
#[verifier::external_body]
pub fn nondet() -> (r: bool) { unimplemented!() }
#[verifier::external_body]
pub fn nondet_u8() -> (r: u8) { unimplemented!() }
/// the byte-level model of `str` of prelude/str.rs (unit lex), restated: length in bytes, `str::is_char_boundary`
pub uninterp spec fn blen(s: &str) -> nat;
pub uninterp spec fn is_cb(s: &str, i: int) -> bool;
/// `s.is_char_boundary(i)`
#[verifier::external_body]
pub fn vs_is_char_boundary(s: &str, i: usize) -> (r: bool)
    ensures r == (i <= blen(s) && is_cb(s, i as int)),
{ s.is_char_boundary(i) }
/// what lex_between requires of its caller (unit lex: lex_between.pre[range], pre[start_boundary])
pub open spec fn lexable(s: &str, offset: int, end_offset: int) -> bool {
    0 <= offset <= end_offset <= blen(s) && is_cb(s, offset)
}
/// a range of the input on character boundaries
pub open spec fn is_span(s: &str, offset: int, end_offset: int) -> bool {
    0 <= offset <= end_offset <= blen(s) && is_cb(s, offset) && is_cb(s, end_offset)
}
pub proof fn lemma_span_is_lexable(s: &str, offset: int, end_offset: int)
    requires is_span(s, offset, end_offset),
    ensures lexable(s, offset, end_offset),
{}
"""

_WIDE = "let s = \"é€é€\"\ns\n"
_SEQS = [
    [{"method": "run", "input": "1 + 1", "end_offset": 4000}, "40 + 2"],
    [{"method": "load", "input": "fun f() { 1 }", "path": "/tmp/span.gdn", "offset": 0, "end_offset": 4000}, "40 + 2"],
    [{"method": "run", "input": _WIDE, "offset": 10}, "40 + 2"],
    [{"method": "load", "input": _WIDE, "path": "/tmp/span.gdn", "offset": 10, "end_offset": 13}, "40 + 2"],
    [{"method": "run", "input": "1 + 1\n40 + 2\n", "offset": 6, "end_offset": 12}],
]
WITNESSES = [
    {"match": r"reqspan\..*creates_the_namespace_first", "kind": "session-alive", "props": ["C09"], "expect": {},
     "input": [[{"method": "eval_up_to", "src": "let v = 1\nv + 1\n", "offset": 10, "path": "/tmp/unseen_a.gdn"}, "40 + 2"],
               [{"method": "run", "input": "let v = 1\nv + 1\n", "path": "/tmp/unseen_r.gdn"}, "40 + 2"],
               [{"method": "load", "input": "fun f() { f }\n", "path": "/tmp/unseen_l.gdn", "offset": 0, "end_offset": 14}, "40 + 2"]],
     "note": "requests naming a file the session has not seen"},
    {"match": r"reqspan\.", "kind": "session-alive", "props": ["C09"], "input": _SEQS, "expect": {},
     "note": "run / load requests whose offsets lie past the end of the input or inside a multi-byte character, and one valid inner span"},
]
BOUNDED = []

CALL = r"\bparse_toplevel_items_from_span\s*\("
GUARD = r"span_in_input\s*\(\s*input\s*,\s*offset\s*,\s*end_offset\s*\)"


class SpanSlicer(Slicer):
    def __init__(self, src):
        Slicer.__init__(self, src, CALL, flag_rx=GUARD, flag_name="span_ok")
        self.ret = "return;"
        self.n_calls = 0

    def render_effect(self, m):
        self.n_calls += 1
        return "proof { assert(span_ok); }"


def _slice_handler(u, src, hname, props):
    host = src.find_fn(hname)
    toks = src.toks
    idx = [k for k, t in enumerate(toks) if host.start <= t.start < host.end]
    depth, k0 = 0, None
    for k in idx:
        tt = toks[k].text
        if toks[k].kind == "punct" and tt in "([":
            depth += 1
        elif toks[k].kind == "punct" and tt in ")]":
            depth -= 1
        elif tt == "{" and depth == 0:
            k0 = k
            break
    sl = SpanSlicer(src)
    sl.block(k0 + 1, sl.close(k0), "    ")
    if sl.n_calls < 1:
        raise ExtractError("%s: no call of parse_toplevel_items_from_span found" % hname)
    # the arguments of the call are the variables the guard looked at, and they are not rebound in between
    body = host.text
    structural = 0
    for m in re.finditer(CALL, body):
        close = body.index(")", m.end())
        args = re.sub(r"\s+", " ", body[m.end():close]).strip().rstrip(",")
        if not re.search(r",\s*input\s*,.*,\s*offset\s*,\s*end_offset$", args):
            structural += 1
        g = list(re.finditer(GUARD, body[:m.start()]))
        between = body[g[-1].end():m.start()] if g else body[:m.start()]
        if re.search(r"\blet\s+(mut\s+)?(input|offset|end_offset)\b|\b(input|offset|end_offset)\s*(=[^=]|\+=|-=)", between):
            structural += 1
    gname = "slice_%s_span" % hname
    u.fn_props[gname] = props
    u.safety_props[gname] = props
    u.skeletons[gname] = skeleton_hash(host.text)
    u.items.append({"name": "%s (span slice: %d calls, %d guards)" % (hname, sl.n_calls, sl.n_guards), "generated_as": gname, "kind": "slice",
                    "where": host.where, "sha256_16": host.sha(), "skeleton": u.skeletons[gname]})
    tag = Tag("repo", fn=gname, repo_file=JS, repo_line=host.line0, props=props)
    u.raw("#[verifier::exec_allows_no_decreases_clause]", fn=gname, props=props)
    u.emit("pub fn %s(span_ok: bool)" % gname, tag)
    u.emit("{", tag)
    for (t, ln) in sl.out:
        u.emit(t, Tag("repo", fn=gname, repo_file=JS, repo_line=ln, props=props))
    u.emit("}", tag)
    u.clauses.append(("reqspan.%s.safety@assert" % gname, props, "parse_toplevel_items_from_span is reached only after span_in_input(input, offset, end_offset) said yes"))
    sname = "%s_passes_the_checked_span" % hname
    u.fn_props[sname] = props
    u.items.append({"name": "%s (arguments of the call are the checked variables)" % hname, "generated_as": sname, "kind": "structural",
                    "where": host.where, "sha256_16": host.sha(), "skeleton": u.skeletons[gname]})
    u.skeletons[sname] = u.skeletons[gname]
    u.emit("pub fn %s() -> (n: u64)" % sname, tag)
    u.emit("    ensures n == 0,", Tag("repo", fn=sname, clause="post[call_uses_the_checked_input_offset_end_offset]", repo_file=JS, repo_line=host.line0, props=props))
    u.emit("{ %d }" % structural, tag)
    u.clauses.append(("reqspan.%s.post[call_uses_the_checked_input_offset_end_offset]" % sname, props,
                      "the call passes `input, offset, end_offset`, the variables span_in_input was asked about, none rebound in between"))


NS_USERS = r"\b(eval_up_to|check_toplevel_items_in_env|load_toplevel_items_with_stubs|eval_toplevel_items)\s*\("


def _namespace_first(u, src, hname, props):
    """the type checker looks variables up in the namespace of the path it is given and panics when there is none
    (TypeCheckVisitor::get_var): a handler creates the namespace of the request's path before anything checks or
    evaluates items of that path"""
    host = src.find_fn(hname)
    body = host.text
    made = re.search(r"\benv\s*\.\s*get_or_create_namespace\s*\(\s*&\s*(abs_)?path\s*\)", body)
    uses = [m.start() for m in re.finditer(NS_USERS, body)]
    if not uses:
        raise ExtractError("%s: no call that checks or evaluates items found" % hname)
    bad = sum(1 for x in uses if made is None or made.start() > x)
    sname = "%s_creates_the_namespace_first" % hname
    u.fn_props[sname] = props
    u.skeletons[sname] = skeleton_hash(host.text)
    u.items.append({"name": "%s (namespace of the request's path exists before items are checked)" % hname, "generated_as": sname, "kind": "structural",
                    "where": host.where, "sha256_16": host.sha(), "skeleton": u.skeletons[sname]})
    tag = Tag("repo", fn=sname, repo_file=JS, repo_line=host.line0, props=props)
    u.emit("pub fn %s() -> (n: u64)" % sname, tag)
    u.emit("    ensures n == 0,", Tag("repo", fn=sname, clause="post[namespace_created_before_items_are_checked]", repo_file=JS, repo_line=host.line0, props=props))
    u.emit("{ %d }" % bad, tag)
    u.clauses.append(("reqspan.%s.post[namespace_created_before_items_are_checked]" % sname, props,
                      "env.get_or_create_namespace(&path) precedes every call that type-checks or evaluates the items of the request"))


def build(tier):
    u = UnitFile("reqspan")
    u.raw(common.HEADER)
    u.raw(GLUE, kind="prelude")
    props = {"C09"}
    u.add_fn(JS, "span_in_input", rules=[
        rw.simple("R2", r"\binput\.is_char_boundary\((\w+)\)", r"vs_is_char_boundary(input, \1)"),
    ], contract=Contract(
        ensures=[("yes_exactly_for_a_range_on_char_boundaries", "r == is_span(input, offset as int, end_offset as int)"),
                 ("yes_implies_lexable", "r ==> lexable(input, offset as int, end_offset as int)")],
        props=props))
    src = u.source(JS)
    for h in ("handle_load_request", "handle_run_eval_request"):
        _slice_handler(u, src, h, props)
    for h in ("handle_load_request", "handle_run_eval_request", "handle_eval_up_to_request"):
        _namespace_first(u, src, h, props)
    u.add_canary_proof()
    u.raw(common.FOOTER)
    return u
