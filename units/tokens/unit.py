"""Unit `tokens` (C01, parser part): TokenStream primitives (parser/lex.rs) and the token helper
functions of the parser (require_a_token, check_required_token, require_token,
required_token_ok, peeked_symbol_is), whole functions, plus the ten forward-progress sites."""
import os
import re
import sys

HERE = os.path.dirname(os.path.abspath(__file__))
ROOT = os.path.dirname(os.path.dirname(HERE))
sys.path.insert(0, os.path.join(ROOT, "vc"))
sys.path.insert(0, os.path.join(ROOT, "units"))
import rewrite as rw  # noqa: E402
from gen import Contract, UnitFile, Tag  # noqa: E402
from extract import ExtractError  # noqa: E402
import common  # noqa: E402

LEX = "src/parser/lex.rs"
PAR = "src/parser.rs"
DIAG = "src/parser/diagnostics.rs"
RLIMIT = 100
MIN_FUNCTIONS = 60

ASSUMPTIONS = dict(common.FMT_ASSUMPTIONS)
ASSUMPTIONS.update({
    "vc_clone": "Clone", "vs_string_eq_lit": "-", "vs_string_eq": "-", "vs_string_from_lit": "-",
    "Position": "opaque stand-in for parser::position::Position", "VfsPathBuf": "opaque stand-in",
    "clone": "derived Clone returns an equal value",
    "todo": "Position::todo builds some position",
    "MessagePart": "opaque", "vs_str_eq": "`&str == &str` / `!=` (no property used)",
    "nondet": "every dropped condition may go either way", "nondet_u8": "every dropped match may select any arm",
    "p_parse_expression": "frame/no_backtrack clauses are proved for s_parse_expression; ASSUMED (P): a result that is not an Invalid/placeholder node means at least one token was consumed (supported only by the bounded truncation/mutation probe, see BOUNDED)",
    "p_parse_toplevel_item_from_tokens": "as p_parse_expression, for parse_toplevel_item_from_tokens",
    "a_parse_call_arguments": "frame/no_backtrack proved for s_parse_call_arguments; ASSUMED: both call sites have just peeked `(` and its first require_token consumes it",
    "h_require_a_token": "stub carrying exactly the clauses proved for require_a_token in this unit",
    "h_check_required_token": "stub carrying exactly the clauses proved for check_required_token", "h_required_token_ok": "stub carrying exactly the clauses proved for required_token_ok",
    "h_require_token": "stub carrying exactly the clauses proved for require_token",
})
LEMMAS = {}
UNVERIFIED = {"C01": [
    "the bodies of the ~70 other parse_* functions: at the ten forward-progress sites they are used through NO assumption other than 'the token vector is not modified and idx stays within bounds' (see site_* obligations), so the sites are proved for arbitrary callee behaviour",
    "parse_inline_expr_from_str and other entry points must pass a non-empty token stream to functions that call require_a_token (its `.expect()` needs a previous token): pushed to the callers",
    "panics elsewhere in parser.rs (unwrap on token_as_binary_op, text.parse::<f64>) and in checks/format/main",
]}

HANGS = ["enum Color {\n    Red,", "fun foo<T,", "struct Foo<T,", "Foo{ x: 1,", "fun foo(f: Fun<Int,"]
CRASHES = ["(1, })", "(1,", "let (a", "let x: (Int, =>", "fun f(a,", "[x =>", "x.", "x +", "f(", "match x { A =>"]
BOUNDED = [
    {"name": "truncated_corpus", "kind": "truncate-corpus", "props": ["C01"], "input": HANGS + CRASHES,
     "n_files": 40, "n_cuts": 6, "n_deletes": 2, "n_unicode": 6, "timeout": 20,
     "bound": "prefixes (6 cut points), single-character deletions (2) and insertions of a multi-byte character (6, mostly right after comment/string/bracket starts) of 40 of the repository's .gdn files (fixed seed), plus the listed inputs; stands in for the ASSUMED clause (P) of parse_expression / parse_toplevel_item_from_tokens and for the parts of parsing no slice models (token texts, values)"},
    {"name": "truncated_corpus_full", "kind": "truncate-corpus", "props": ["C01"], "tier": "thorough", "input": [],
     "n_files": 400, "n_cuts": 25, "n_deletes": 8, "n_unicode": 25, "timeout": 20, "seed": 2,
     "bound": "prefixes (25 cut points), single-character deletions (8) and multi-byte insertions (25) of up to 400 of the repository's .gdn files (fixed seed)"},
]
WITNESSES = [
    {"match": r"tokens\.s_parse_enum_body\.", "kind": "check", "input": HANGS[0], "timeout": 10, "props": ["C01"]},
    {"match": r"tokens\.s_parse_type_params\.", "kind": "check", "input": HANGS[1], "timeout": 10, "props": ["C01"]},
    {"match": r"tokens\.s_parse_struct_literal_fields\.", "kind": "check", "input": HANGS[3], "timeout": 10, "props": ["C01"]},
    {"match": r"tokens\.s_parse_type_arguments\.", "kind": "check", "input": HANGS[4], "timeout": 10, "props": ["C01"]},
    {"match": r"tokens\.s_parse_tuple_literal_or_parentheses\.", "kind": "check", "input": "(1, })", "props": ["C01"]},
    {"match": r"tokens\.s_parse_tuple_literal_or_parentheses\.", "kind": "check", "input": "(1,", "props": ["C01"]},
    {"match": r"tokens\.s_parse_let_destination\.", "kind": "check", "input": "let (a", "props": ["C01"]},
    {"match": r"tokens\.s_parse_tuple_type_hint\.", "kind": "check", "input": "let x: (Int, =>", "props": ["C01"]},
    {"match": r"tokens\.s_parse_parameters\.", "kind": "check", "input": "fun f(a,", "props": ["C01"]},
]


def witnesses_for(prop, f):
    """any failed obligation of this unit: also try every listed crash / hang input"""
    if prop != "C01" or not f["obligation"].startswith("tokens."):
        return []
    return [{"match": ".", "kind": "check", "input": x, "timeout": 10} for x in HANGS + CRASHES]


GLUE = """
#[verifier::external_body] pub struct Position { _o: u8 }
#[verifier::external_body] pub struct VfsPathBuf { _o: u8 }
#[verifier::external_body] pub struct MessagePart { _o: u8 }
impl Clone for Position {
    #[verifier::external_body]
    fn clone(&self) -> (r: Self) ensures r == *self { unimplemented!() }
}
impl Position {
    #[verifier::external_body]
    pub fn todo(vfs_path: &VfsPathBuf) -> (r: Self) { unimplemented!() }
}
#[verifier::external_body]
pub fn vs_str_eq(a: &str, b: &str) -> (r: bool) { a == b }
"""

TOKEN_CLONE = """
impl<'a> Clone for Token<'a> {
    #[verifier::external_body]
    fn clone(&self) -> (r: Self) ensures r == *self { unimplemented!() }
}
/// representation invariant of the token stream
pub open spec fn ts_ok(t: TokenStream) -> bool { t.idx <= t.tokens@.len() && t.tokens@.len() <= isize::MAX }
"""

# `.get(i).cloned()` / `.get(i).is_none()` on the token vector, Option::map + unwrap_or
TS_RULES = [
    rw.simple("R13", r"self\.tokens\.get\(([^()]*)\)\.cloned\(\)", r"(match self.tokens.get(\1) { Some(t) => Some(t.clone()), None => None })"),
    rw.simple("R13", r"self\.tokens\.get\(([^()]*)\)\.is_none\(\)", r"(match self.tokens.get(\1) { Some(_) => false, None => true })"),
]
HELPER_RULES = [
    rw.simple("R13", r"tokens\.peek\(\)\.map\(\|t\| t\.text == token\)\.unwrap_or\(false\)",
              "(match tokens.peek() { Some(t) => vs_str_eq(t.text, token), None => false })"),
    rw.simple("R13", r"prev_token\s*\.as_ref\(\)\s*\.map\(\|t\| t\.position\.clone\(\)\)\s*\.unwrap_or\(Position::todo\(&tokens\.vfs_path\)\)",
              "(match &prev_token { Some(t) => t.position.clone(), None => Position::todo(&tokens.vfs_path) })"),
    rw.simple("R13", r"prev_token\.as_ref\(\)\.unwrap_or\(&token\)\.position\.clone\(\)",
              "(match &prev_token { Some(t) => t.position.clone(), None => token.position.clone() })"),
    rw.simple("R10", r"token\.text != expected", "!vs_str_eq(token.text, expected)"),
    common.r9,
]

SAME = "final(self).tokens@ == old(self).tokens@"

SLICE_GLUE = """
// ---- whole-function token-discipline slices of every parser function that takes the token stream.
#[verifier::external_body] pub fn nondet() -> (r: bool) { unimplemented!() }
#[verifier::external_body] pub fn nondet_u8() -> (r: u8) { unimplemented!() }
pub fn has_next<'a>(tokens: &TokenStream<'a>) -> (r: bool)
    requires ts_ok(*tokens),
    ensures r == (tokens.idx < tokens.tokens@.len()),
{ tokens.idx < tokens.tokens.len() }
/// the token-discipline contract every parse function is proved to satisfy (on its slice):
/// the token vector is never modified, the index stays within bounds, a call made when a token is
/// available never leaves the index before where it started, and a call made at the end of the
/// input moves it back by at most one token (parse_symbol's `unpop` of the re-used last token).
pub fn has_two<'a>(tokens: &TokenStream<'a>) -> (r: bool)
    requires ts_ok(*tokens),
    ensures r == (tokens.idx + 1 < tokens.tokens@.len()),
{ tokens.idx + 1 < tokens.tokens.len() }
pub open spec fn no_backtrack(o: TokenStream, n: TokenStream) -> bool {
    &&& n.idx + 1 >= o.idx
    &&& (o.idx < o.tokens@.len() ==> n.idx >= o.idx)
}
"""

# calls whose result is later tested with is_invalid_or_placeholder(): stub with the proved
# token-discipline contract of the slice PLUS the assumed clause (P)
PH_CALLS = ("parse_expression", "parse_toplevel_item_from_tokens")
PH_GLUE = """
/// {name}: frame and no_backtrack are PROVED for its slice s_{name}; the last clause is ASSUMED (P):
/// a result that is not an Invalid/placeholder node means at least one token was consumed.
#[verifier::external_body]
pub fn p_{name}<'a>(tokens: &mut TokenStream<'a>) -> (ph: bool)
    requires ts_ok(*old(tokens)), old(tokens).tokens@.len() > 0,
    ensures final(tokens).tokens@ == old(tokens).tokens@, ts_ok(*final(tokens)),
        no_backtrack(*old(tokens), *final(tokens)),{mono}
        !ph ==> final(tokens).idx > old(tokens).idx,
{{ unimplemented!() }}
"""
ARGS_GLUE = """
/// parse_call_arguments: frame and no_backtrack are PROVED for s_parse_call_arguments; the last clause
/// is ASSUMED: it is only called when the next token is `(` and its require_token consumes it.
#[verifier::external_body]
pub fn a_parse_call_arguments<'a>(tokens: &mut TokenStream<'a>)
    requires ts_ok(*old(tokens)), old(tokens).tokens@.len() > 0,
    ensures final(tokens).tokens@ == old(tokens).tokens@, ts_ok(*final(tokens)),
        no_backtrack(*old(tokens), *final(tokens)),
        old(tokens).idx < old(tokens).tokens@.len() ==> final(tokens).idx > old(tokens).idx,
{ unimplemented!() }
"""

# the helpers verified as whole functions above are called from the slices through stubs that
# carry exactly the ensures clauses proved for them (generated from the same Contract objects)
HELPERS = ["require_a_token", "check_required_token", "required_token_ok", "require_token"]
NOT_SLICED = set(HELPERS) | {"peeked_symbol_is"}

# functions proved never to move the index backwards, even when called at the end of the input
import json as _json
MONOTONE = set(_json.load(open(os.path.join(HERE, "monotone.json")))) if os.path.exists(os.path.join(HERE, "monotone.json")) else set()
if os.environ.get("TOKENS_MONOTONE"):
    MONOTONE = set(os.environ["TOKENS_MONOTONE"].split(","))

# loop-specific invariants (keyed by function, loop ordinal): contracts on the real loops
LOOP_EXTRA = {
    # `for keyword in KEYWORDS`: the only token operation is an unpop on a path that returns
    ("parse_symbol", 0): ["tokens.idx == old(tokens).idx + (if old(tokens).idx < old(tokens).tokens@.len() { 1int } else { 0int })"],
}


def make_tok_slicer(src, sliced_names):
    from slicer import Slicer

    class TS(Slicer):
        KEEP = re.compile(
            r"assert!\(\s*tokens\.idx\s*>\s*start_idx"
            r"|tokens\s*\.\s*(?:pop|unpop|peek_two|peek_at|peek|prev|is_empty)\s*\("
            r"|tokens\s*\.\s*(?:idx|vfs_path)\b(?!\s*(?:=[^=]|\+=|-=))"
            r"|\b\w+\s*\(\s*(?:&?\w+\s*,\s*)?tokens\b")

        def render_effect(self, m):
            t = re.sub(r"\s+", "", m.group(0))
            if t.startswith("assert!"):
                return "assert(tokens.idx > start_idx);"
            if t.startswith("tokens.pop"):
                return "tokens.pop();"
            if t.startswith("tokens.unpop"):
                return "tokens.unpop();"
            if t.startswith("tokens."):
                return None
            name = t.split("(")[0]
            if name in ("peeked_symbol_is", "tokens_has_next", "tokens_has_two"):
                return None
            if name in HELPERS:
                return "h_%s(tokens);" % name
            if name == "parse_call_arguments" and self.current_fn != "parse_call_arguments":
                return "a_parse_call_arguments(tokens);"
            if name in PH_CALLS:
                return "let _ = p_%s(tokens);" % name
            if name in sliced_names:
                return "s_%s(tokens);" % name
            raise ExtractError("the token stream is passed to `%s`, which is not a function under contract" % name)

        def effects_in(self, a, b, indent):
            if a >= b:
                return
            base = self.toks[a].start
            seg = self.src.text[base:self.toks[b - 1].end]
            ms = list(self.effect_rx.finditer(seg))
            rendered = [(m, self.render_effect(m)) for m in ms]
            live = [(m, r) for (m, r) in rendered if r]
            if len(live) > 1 and re.search(r"&&|\|\|", seg[live[0][0].end():live[-1][0].start()]):
                raise ExtractError("token operations on both sides of a short-circuit operator near line %d" % self.src.line_of(base))
            for (m, r) in live:
                self.out.append((indent + r, self.src.line_of(base + m.start())))
                self.n_effects += 1

        def cond(self, a, b):
            txt = re.sub(r"\s+", " ", self.text(a, b)).strip()
            if re.fullmatch(r"tokens\.idx (<=|<|>|>=|==) start_idx", txt):
                return txt
            m = re.fullmatch(r"(!?)peeked_symbol_is\(tokens, [^()]*\)", txt)
            if m:
                # true implies a token is available (verified contract of peeked_symbol_is)
                return ("!" if m.group(1) else "") + "(has_next(tokens) && nondet())"
            if txt in ("tokens_has_next(tokens)", "!tokens.is_empty()"):
                return "has_next(tokens)"
            if txt in ("!tokens_has_next(tokens)", "tokens.is_empty()"):
                return "!has_next(tokens)"
            if txt == "tokens_has_two(tokens)":
                return "has_two(tokens)"
            m = re.fullmatch(r"(!?)required_token_ok\(tokens, [^()]*\)", txt)
            if m:
                return m.group(1) + "h_required_token_ok(tokens)"
            m = re.fullmatch(r"Some\([^()]*\) == (\w+)\.map\(\|\w+\| [^()|]*\)", txt)
            if m and m.group(1) in self.peeked_vars:
                # `Some(a) == v.map(..)` can only hold when v is Some, i.e. a token was available
                return "(__some_%s && nondet())" % m.group(1)
            m = re.fullmatch(r"(!?)(\w+)(?:(?:\.expr_)?\.is_invalid_or_placeholder\(\))?", txt)
            if m and m.group(2) in self.ph_vars:
                return m.group(1) + "__ph_" + m.group(2)
            return "nondet()"

        def let_stmt(self, k, b, indent):
            e = self.find0(k, b, lambda u: u.text == ";")
            e = b if e is None else e
            txt = re.sub(r"\s+", " ", self.text(k, e)).strip()
            if txt == "let start_idx = tokens.idx":
                self.emit(indent + "let start_idx = tokens.idx;", k)
                return e + 1
            m = re.fullmatch(r"let (\w+) = tokens\.peek\(\)", txt)
            if m:
                self.emit(indent + "let __some_%s = has_next(tokens);" % m.group(1), k)
                self.peeked_vars.add(m.group(1))
                return e + 1
            m = re.fullmatch(r"let (?:mut )?(\w+) = (\w+)\(tokens, [^()]*\)", txt)
            if m and m.group(2) in PH_CALLS:
                self.emit(indent + "let __ph_%s = p_%s(tokens);" % (m.group(1), m.group(2)), k)
                self.ph_vars.add(m.group(1))
                return e + 1
            m = re.fullmatch(r"let (\w+) = (\w+)(?:\.expr_)?\.is_invalid_or_placeholder\(\)", txt)
            if m and m.group(2) in self.ph_vars:
                self.emit(indent + "let __ph_%s = __ph_%s;" % (m.group(1), m.group(2)), k)
                self.ph_vars.add(m.group(1))
                return e + 1
            return Slicer.let_stmt(self, k, b, indent)

        def control(self, k, b, indent):
            t = self.toks[k]
            if t.text == "match":
                open_ = self.find0(k + 1, b, lambda u: u.text == "{")
                c = self.close(open_)
                scr = re.sub(r"\s+", " ", self.text(k + 1, open_)).strip()
                arms = self.match_arms(open_, c)
                first = lambda arm: self.toks[arm[4]].text
                if scr == "tokens.peek()":
                    # Some-arms are reachable only when a token is available (verified contract of
                    # peek), None-arms only at the end of the input
                    some = [a for a in arms if first(a) != "None"]
                    none = [a for a in arms if first(a) != "Some"]
                    self.emit("%sif has_next(tokens) {" % indent, k)
                    if some:
                        self.emit_arms(some, k, indent + "    ")
                    self.emit("%s} else {" % indent, k)
                    if none:
                        self.emit_arms(none, k, indent + "    ")
                    self.emit("%s}" % indent, c)
                    return c + 1
                m = re.fullmatch(r"(\w+)\(tokens, [^()]*\)", scr)
                if m and m.group(1) in PH_CALLS:
                    # `match parse_x(tokens, ..) { Some(item) => .., None => .. }`: item carries the flag
                    self.emit("%slet __ph_scrutinee = p_%s(tokens);" % (indent, m.group(1)), k)
                    for a in arms:
                        pt = self.text(a[4], a[3])
                        mm = re.fullmatch(r"Some\((\w+)\)", pt.strip())
                        if mm:
                            self.emit("%slet __ph_%s = __ph_scrutinee;" % (indent, mm.group(1)), k)
                            self.ph_vars.add(mm.group(1))
                    self.emit_arms(arms, k, indent)
                    return c + 1
            if t.text in ("while", "for", "loop"):
                self.loop_kinds.append(t.text)
                if t.text == "while":
                    open_ = self.find0(k + 1, b, lambda u: u.text == "{")
                    ctxt = self.text(k + 1, open_)
                    if re.search(r"tokens\s*\.\s*(pop|unpop)|\b(parse_\w+|require\w*|check_required_token)\s*\(\s*tokens", ctxt):
                        raise ExtractError("a `while` condition changes the token stream near line %d" % self.line(k))
            return Slicer.control(self, k, b, indent)

    sl = TS(src, TS.KEEP.pattern)
    sl.ret = "return;"
    sl.loop_may_exit = False
    sl.loop_kinds = []
    sl.ph_vars = set()
    sl.peeked_vars = set()
    sl.current_fn = None
    return sl


def check_all_uses_recognised(src, item, sl):
    """every occurrence of the identifier `tokens` in the body must be part of a recognised
    token operation; anything else (assignment to idx, a closure capturing it, ...) is refused"""
    body = src.text[item.start:item.end]
    covered = set()
    for m in sl.effect_rx.finditer(body):
        for mm in re.finditer(r"\btokens\b", m.group(0)):
            covered.add(m.start() + mm.start())
    for m in re.finditer(r"\btokens_has_(?:next|two)\(tokens\)", body):
        covered.add(m.start() + len("tokens_has_next("))
    for m in re.finditer(r"\btokens\b", body):
        if m.start() in covered:
            continue
        ctx = body[max(0, m.start() - 30):m.end() + 30].replace("\n", " ")
        if re.match(r"tokens\s*:\s*&", body[m.start():m.start() + 20]):
            continue      # the parameter declaration
        ln = body[:m.start()].count("\n")
        line = body.split("\n")[ln]
        if line.strip().startswith("//"):
            continue
        raise ExtractError("unrecognised use of the token stream in %s: ...%s..." % (item.name, ctx))


def build(tier):
    u = UnitFile("tokens")
    u.raw(common.HEADER)
    u.raw(common.prelude("strings.rs"), kind="prelude")
    u.raw(GLUE, kind="prelude")
    u.add_type(DIAG, "ErrorMessage")
    u.add_type(PAR, "ParseError")
    u.add_type(LEX, "Token")
    u.add_type(LEX, "TokenStream")
    u.raw(TOKEN_CLONE, kind="prelude")
    u.raw(common.FMT, kind="prelude")
    c01 = {"C01"}
    IMPL = "TokenStream"
    u.add_fn(LEX, "is_empty", impl=IMPL, wrap_impl="<'a> TokenStream<'a>", rules=TS_RULES, contract=Contract(
        ensures=[("def", "r == (self.idx >= self.tokens@.len())")], props=c01))
    u.add_fn(LEX, "pop", impl=IMPL, wrap_impl="<'a> TokenStream<'a>", rules=TS_RULES, contract=Contract(
        requires=[("ok", "ts_ok(*old(self))")],
        ensures=[("tokens_same", SAME),
                 ("some_iff_not_at_end", "r is Some <==> old(self).idx < old(self).tokens@.len()"),
                 ("advances", "final(self).idx == old(self).idx + (if r is Some { 1int } else { 0int })"),
                 ("the_token", "r is Some ==> r->Some_0 == old(self).tokens@[old(self).idx as int]"),
                 ("ok", "ts_ok(*final(self))")],
        hints=[dict(anchor="self.idx +=", where="before", text="proof { assert(self.tokens@.len() == self.tokens.len()); }")],
        props=c01))
    u.add_fn(LEX, "unpop", impl=IMPL, wrap_impl="<'a> TokenStream<'a>", contract=Contract(
        requires=[("popped_before", "old(self).idx > 0")],
        ensures=[("tokens_same", SAME), ("back_one", "final(self).idx == old(self).idx - 1")], props=c01))
    u.add_fn(LEX, "peek", impl=IMPL, wrap_impl="<'a> TokenStream<'a>", rules=TS_RULES, contract=Contract(
        ensures=[("some_iff_not_at_end", "r is Some <==> self.idx < self.tokens@.len()"),
                 ("the_token", "r is Some ==> r->Some_0 == self.tokens@[self.idx as int]")], props=c01))
    u.add_fn(LEX, "peek_two", impl=IMPL, wrap_impl="<'a> TokenStream<'a>", rules=TS_RULES, contract=Contract(
        requires=[("ok", "ts_ok(*self)")],
        ensures=[("some_iff_two_available", "r is Some <==> self.idx + 1 < self.tokens@.len()")], props=c01))
    u.add_fn(LEX, "peek_at", impl=IMPL, wrap_impl="<'a> TokenStream<'a>", rules=TS_RULES, contract=Contract(
        requires=[("ok", "ts_ok(*self)"), ("small_offset", "offset <= 8")],
        ensures=[("some_iff_available", "r is Some <==> self.idx + offset < self.tokens@.len()")], props=c01))
    u.add_fn(LEX, "prev", impl=IMPL, wrap_impl="<'a> TokenStream<'a>", rules=TS_RULES, contract=Contract(
        requires=[("ok", "ts_ok(*self)")],
        ensures=[("some_iff_popped", "r is Some <==> self.idx > 0")], props=c01))
    fr = "final(tokens).tokens@ == old(tokens).tokens@, ts_ok(*final(tokens))"
    NE = ("nonempty", "old(tokens).tokens@.len() > 0")
    OK = ("ok", "ts_ok(*old(tokens))")
    u.add_fn(PAR, "peeked_symbol_is", rules=HELPER_RULES, contract=Contract(
        ensures=[("true_means_not_at_end", "r ==> tokens.idx < tokens.tokens@.len()")], props=c01))
    u.add_fn(PAR, "require_a_token", rules=HELPER_RULES, contract=Contract(
        requires=[OK, NE],
        ensures=[("frame", fr), ("advance_at_most_one", "old(tokens).idx <= final(tokens).idx <= old(tokens).idx + 1"),
                 ("advances_unless_at_end", "final(tokens).idx == old(tokens).idx + (if old(tokens).idx < old(tokens).tokens@.len() { 1int } else { 0int })")],
        props=c01))
    u.add_fn(PAR, "check_required_token", rules=HELPER_RULES, contract=Contract(
        requires=[OK, NE],
        ensures=[("frame", fr), ("ok_consumes_one", "r.0 ==> final(tokens).idx == old(tokens).idx + 1"),
                 ("not_ok_consumes_nothing", "!r.0 ==> final(tokens).idx == old(tokens).idx")],
        props=c01))
    u.add_fn(PAR, "required_token_ok", rules=HELPER_RULES, contract=Contract(
        requires=[OK, NE],
        ensures=[("frame", fr), ("ok_consumes_one", "r ==> final(tokens).idx == old(tokens).idx + 1"),
                 ("not_ok_consumes_nothing", "!r ==> final(tokens).idx == old(tokens).idx")], props=c01))
    u.add_fn(PAR, "require_token", rules=HELPER_RULES, contract=Contract(
        requires=[OK, NE],
        ensures=[("frame", fr), ("advance_at_most_one", "old(tokens).idx <= final(tokens).idx <= old(tokens).idx + 1")], props=c01))
    # ---- whole-function token-discipline slices -------------------------------------------
    from extract import Source
    u.raw(SLICE_GLUE, kind="prelude")
    # stubs of the verified helpers: same ensures as proved above
    FR = "final(tokens).tokens@ == old(tokens).tokens@, ts_ok(*final(tokens))"
    stub = {
        "require_a_token": ("", ["old(tokens).idx <= final(tokens).idx <= old(tokens).idx + 1",
                                 "final(tokens).idx == old(tokens).idx + (if old(tokens).idx < old(tokens).tokens@.len() { 1int } else { 0int })"]),
        "check_required_token": (" -> (r: bool)", ["r ==> final(tokens).idx == old(tokens).idx + 1", "!r ==> final(tokens).idx == old(tokens).idx"]),
        "required_token_ok": (" -> (r: bool)", ["r ==> final(tokens).idx == old(tokens).idx + 1", "!r ==> final(tokens).idx == old(tokens).idx"]),
        "require_token": ("", ["old(tokens).idx <= final(tokens).idx <= old(tokens).idx + 1"]),
    }
    # the stub text must be the verified text: compare with the clauses registered above
    proved = {}
    for (oid, props, text) in u.clauses:
        proved.setdefault(oid.split(".")[1], []).append(re.sub(r"\s+", " ", text))
    for h, (ret, ens) in stub.items():
        for e in ens:
            e2 = re.sub(r"\br\.0\b", "r", e)
            if not any(re.sub(r"\br\.0\b", "r", t).endswith(e2) or e2 in re.sub(r"\br\.0\b", "r", t) for t in proved.get(h, [])):
                raise ExtractError("stub of %s carries a clause that is not proved for it: %s" % (h, e))
        u.raw("#[verifier::external_body]\npub fn h_%s<'a>(tokens: &mut TokenStream<'a>)%s\n    requires ts_ok(*old(tokens)), old(tokens).tokens@.len() > 0,\n    ensures %s,\n        %s,\n{ unimplemented!() }\n"
              % (h, ret, FR, ",\n        ".join(ens)), kind="prelude")
    for nm in PH_CALLS:
        u.raw(PH_GLUE.format(name=nm, mono=("\n        final(tokens).idx >= old(tokens).idx," if nm in MONOTONE else "")), kind="prelude")
    u.raw(ARGS_GLUE, kind="prelude")
    real = u.source(PAR)
    # peeks that bind a token are conditions on "a token is available": make that explicit (same lines)
    txt = real.text
    txt = re.sub(r"if let Some\((\w+)\) = tokens\.peek\(\)", "if tokens_has_next(tokens)", txt)
    txt = re.sub(r"while let Some\((\w+)\) = tokens\.peek\(\)", "while tokens_has_next(tokens)", txt)
    txt = re.sub(r"if let Some\(\(\w+, \w+\)\) = tokens\.peek_two\(\)", "if tokens_has_two(tokens)", txt)
    txt = re.sub(r"if let Some\((\w+)\) = tokens\.peek_at\(1\)", "if tokens_has_two(tokens)", txt)
    txt = re.sub(r"let Some\((\w+)\) = tokens\.peek\(\) else \{", "if !tokens_has_next(tokens) {", txt)
    src2 = Source(real.path, text=txt)
    toks = src2.toks
    # every top-level fn with a `tokens: &mut TokenStream` parameter
    depths = src2._depths()
    names = []
    for k, t in enumerate(toks):
        if t.kind == "ident" and t.text == "fn" and depths[k] == 0 and toks[k + 1].kind == "ident":
            j = k
            while toks[j].text != "(":
                j += 1
            sl0 = make_tok_slicer(src2, set())
            c = sl0.close(j)
            sig = src2.text[toks[j].start:toks[c].end]
            if re.search(r"\btokens\s*:\s*&mut\s+TokenStream", sig):
                names.append(toks[k + 1].text)
    sliced = [n for n in names if n not in NOT_SLICED]
    if len(sliced) < 40:
        raise ExtractError("only %d parser functions take the token stream (expected ~57)" % len(sliced))
    ENTRY = {"parse_toplevel_items_from_tokens"}
    c01 = {"C01"}
    for fname in sliced:
        host = src2.find_fn(fname)
        sl = make_tok_slicer(src2, set(sliced))
        sl.current_fn = fname
        check_all_uses_recognised(src2, host, sl)
        # body tokens
        ks = [k for k, t in enumerate(toks) if host.sig_end <= t.start < host.end]
        o = ks[0]
        assert toks[o].text == "{", toks[o].text
        cl = sl.close(o)
        sl.block(o + 1, cl, "    ")
        gname = "s_%s" % fname
        u.items.append({"name": "%s[token slice]" % fname, "generated_as": gname, "kind": "slice",
                        "where": "src/parser.rs:%d-%d" % (host.line0, host.line1), "sha256_16": host.sha(), "skeleton": ""})
        u.fn_props[gname] = c01
        u.safety_props[gname] = c01
        tag0 = Tag("repo", fn=gname, repo_file=PAR, repo_line=host.line0, props=c01)
        u.emit("#[verifier::exec_allows_no_decreases_clause]\npub fn %s<'a>(tokens: &mut TokenStream<'a>)" % gname, tag0)
        req = "    requires ts_ok(*old(tokens)),"
        if fname not in ENTRY:
            req += " old(tokens).tokens@.len() > 0,"
        u.emit(req, tag0)
        u.emit("    ensures", tag0)
        posts = [("frame", "final(tokens).tokens@ == old(tokens).tokens@ && ts_ok(*final(tokens))"),
                 ("no_backtrack", "no_backtrack(*old(tokens), *final(tokens))")]
        if fname in MONOTONE:
            posts.append(("monotone", "final(tokens).idx >= old(tokens).idx"))
        for (nm, text) in posts:
            oid = "tokens.%s.post[%s]" % (gname, nm)
            u.clauses.append((oid, c01, text))
            u.emit("        %s," % text, Tag("contract", fn=gname, clause=oid, props=c01))
        u.emit("{", tag0)
        nloop = 0
        for (text, ln) in sl.out:
            tg = Tag("repo", fn=gname, repo_file=PAR, repo_line=ln, props=c01)
            m = re.match(r"(\s*)(while .*|loop) \{$", text)
            if m:
                kind = sl.loop_kinds[nloop]
                ind = m.group(1)
                u.emit(ind + "let ghost __entry_idx = tokens.idx;", tg)
                u.emit(text[:-1].rstrip(), tg)
                invs = [("frame", "tokens.tokens@ == old(tokens).tokens@ && ts_ok(*tokens) && ts_ok(*old(tokens))"),
                        ("no_backtrack", "no_backtrack(*old(tokens), *tokens)")]
                if fname not in ENTRY:
                    invs.append(("nonempty", "tokens.tokens@.len() > 0"))
                if fname in MONOTONE:
                    invs.append(("monotone", "tokens.idx >= old(tokens).idx"))
                for kx, e in enumerate(LOOP_EXTRA.get((fname, nloop), [])):
                    invs.append(("extra%d" % kx, e))
                u.emit(ind + "    invariant", tg)
                for (nm, e) in invs:
                    oid = "tokens.%s.loop#%d.inv[%s]" % (gname, nloop, nm)
                    u.clauses.append((oid, c01, e))
                    u.emit(ind + "        %s," % e, Tag("contract", fn=gname, clause=oid, props=c01))
                if kind != "for":
                    oid = "tokens.%s.loop#%d.terminates" % (gname, nloop)
                    u.clauses.append((oid, c01, "decreases tokens.tokens@.len() - tokens.idx"))
                    u.emit(ind + "    decreases tokens.tokens@.len() - tokens.idx,", Tag("contract", fn=gname, clause=oid, props=c01))
                u.emit(ind + "{", tg)
                nloop += 1
                continue
            u.emit(text, tg)
        u.emit("}", tag0)
    u.add_canary_proof()
    u.raw(common.FOOTER)
    return u
