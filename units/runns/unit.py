"""Unit `runns` (C08): handle_run_eval_request (src/json_session.rs) as a namespace slice: once the toplevel
expressions of a run have been started (eval_toplevel_exprs_then_stop), the evaluation may be suspended on the
toplevel frame (interrupt, error) and will be resumed there, so on every path the function must leave the toplevel
frame in the namespace of the file that was run: every switch_toplevel_namespace after that point names `ns`, the
namespace obtained for the run's path, and the normal exit performs one."""
import os
import re
import sys

HERE = os.path.dirname(os.path.abspath(__file__))
ROOT = os.path.dirname(os.path.dirname(HERE))
sys.path.insert(0, os.path.join(ROOT, "vc"))
sys.path.insert(0, os.path.join(ROOT, "units"))
from gen import UnitFile, Tag  # noqa: E402
from extract import ExtractError, skeleton_hash  # noqa: E402
from slicer import Slicer  # noqa: E402
import common  # noqa: E402

JS = "src/json_session.rs"
RLIMIT = 30
MIN_FUNCTIONS = 1

ASSUMPTIONS = {
    "nondet": "a dropped condition may go either way", "nondet_u8": "a dropped match may take any arm",
}
LEMMAS = {}
UNVERIFIED = {"C08": [
    "the namespace slice keeps only control flow, the call that starts the toplevel expressions, every call of switch_toplevel_namespace and whether its argument is the variable bound by `let ns = env.get_or_create_namespace(&path)`; that eval_toplevel_exprs_then_stop itself runs the expressions in the namespace it is given, and that nothing else changes the toplevel frame's namespace, is not proved",
]}

GLUE = """
#[verifier::external_body]
pub fn nondet() -> (r: bool) { unimplemented!() }
#[verifier::external_body]
pub fn nondet_u8() -> (r: u8) { unimplemented!() }
"""

_INT = ('import "__shell.gdn" as shell\nfun step(n: Int) { println(string_repr(n)) }\nstep(1)\n'
        'shell::run("sh", ["-c", "kill -SIG $PPID; sleep 0.3"])\nstep(2)\nstep(3)\n')
WITNESSES = [
    {"match": r"runns\.", "kind": "interrupt-session", "props": ["C08"], "timeout": 120,
     "input": [{"what": "a buffer evaluated with its file path, interrupted between two toplevel expressions that call a function of that file", "with_path": True, "body": _INT, "resumes": 3}]},
]


class NsSlicer(Slicer):
    def __init__(self, src, ns_var):
        Slicer.__init__(self, src, r"\beval_toplevel_exprs_then_stop\s*\(|\bswitch_toplevel_namespace\s*\(\s*env\s*,\s*(?P<arg>[^)]*)\)", flag_rx=r"\bno_such_flag_zz\b")
        self.ns_var = ns_var
        self.ret = "return (started, cur);"
        self.n_started = self.n_switch = 0

    def render_effect(self, m):
        if m.group("arg") is None:
            self.n_started += 1
            return "started = true; cur = 0;"
        self.n_switch += 1
        a = re.sub(r"\s+", "", m.group("arg"))
        a = re.sub(r"^Rc::clone\(&(\w+)\)$", r"\1", a)
        return "cur = %d;" % (1 if a == self.ns_var else 2)


def build(tier):
    u = UnitFile("runns")
    u.raw(common.HEADER)
    u.raw(GLUE, kind="prelude")
    props = {"C08"}
    src = u.source(JS)
    host = src.find_fn("handle_run_eval_request")
    m = re.search(r"let\s+(\w+)\s*=\s*env\s*\.\s*get_or_create_namespace\s*\(\s*&path\s*\)\s*;", host.text)
    if not m:
        raise ExtractError("handle_run_eval_request: `let ns = env.get_or_create_namespace(&path);` not found")
    sl = NsSlicer(src, m.group(1))
    toks = src.toks
    idx = [k for k, t in enumerate(toks) if host.start <= t.start < host.end]
    depth, k0 = 0, None
    for k in idx:
        tt = toks[k].text
        if toks[k].kind == "punct" and tt in "([":
            depth += 1
        elif toks[k].kind == "punct" and tt in ")]":
            depth -= 1
        elif tt == "{" and depth == 0:
            k0 = k
            break
    c = sl.close(k0)
    sl.block(k0 + 1, c, "    ")
    if sl.n_started != 1:
        raise ExtractError("handle_run_eval_request: expected one eval_toplevel_exprs_then_stop call; found %d" % sl.n_started)
    gname = "slice_handle_run_eval_request"
    u.fn_props[gname] = props
    u.skeletons[gname] = skeleton_hash(host.text)
    u.items.append({"name": "handle_run_eval_request (namespace slice)", "generated_as": gname, "kind": "slice", "where": host.where,
                    "sha256_16": host.sha(), "skeleton": u.skeletons[gname]})
    tag = Tag("repo", fn=gname, repo_file=JS, repo_line=host.line0, props=props)
    u.raw("#[verifier::exec_allows_no_decreases_clause]", fn=gname, props=props)
    u.emit("pub fn %s() -> (r: (bool, u8))" % gname, tag)
    u.raw("    ensures", fn=gname, props=props)
    oid = "runns.%s.post[a_started_run_leaves_the_toplevel_in_the_namespace_of_its_file]" % gname
    u.clauses.append((oid, props, "r.0 ==> r.1 == 1"))
    u.emit("        r.0 ==> r.1 == 1,", Tag("contract", fn=gname, clause=oid, props=props))
    u.emit("{", tag)
    u.emit("    let mut started = false; let mut cur: u8 = 0;", Tag("glue", fn=gname, props=props))
    for (t, ln) in sl.out:
        u.emit(t, Tag("repo", fn=gname, repo_file=JS, repo_line=ln, props=props))
    u.emit("    (started, cur)", Tag("glue", fn=gname, props=props))
    u.emit("}", tag)
    u.add_canary_proof()
    u.raw(common.FOOTER)
    return u
