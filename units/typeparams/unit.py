"""Unit `typeparams` (C20): collect_type_params (src/extract_function.rs), extracted verbatim.  extract_function
declares on the new function every type parameter of the enclosing function that the new signature mentions; the
names come from this function, applied to the type of each parameter and to the return type.  A type parameter that
is mentioned but not collected makes the new function fail at its first call (`No such type: T`).

The contract is written from that purpose: `mentions(ty, n)` says that the type parameter named n occurs anywhere
inside ty (tuple items, function parameters and result, arguments of user-defined types, the type inside a checker
error), by recursion on the depth of the type; the function adds to `names` every name the type mentions, keeps what
was there, and adds nothing else."""
import os
import re
import sys

HERE = os.path.dirname(os.path.abspath(__file__))
ROOT = os.path.dirname(os.path.dirname(HERE))
sys.path.insert(0, os.path.join(ROOT, "vc"))
sys.path.insert(0, os.path.join(ROOT, "units"))
import rewrite as rw  # noqa: E402
from gen import Contract, UnitFile  # noqa: E402
import common  # noqa: E402

XF = "src/extract_function.rs"
GT = "src/garden_type.rs"
AST = "src/parser/ast.rs"
RLIMIT = 100
MIN_FUNCTIONS = 1

ASSUMPTIONS = {
    "Symbol": "opaque stand-in for parser::ast::Symbol (never inspected here)", "Position": "opaque",
    "vv_contains": "Vec<String>::contains(&String): some element has the same characters",
    "vc_clone_string": "String::clone has the same characters",
}
LEMMAS = {"lemma_has_push": {"C20"}, "mentions_dec": {"C20"}, "lemma_depth_elem": {"C20"}, "lemma_depth_index": {"C20"}}
UNVERIFIED = {"C20": [
    "the caller (extracted_fun_src): that it applies collect_type_params to the type of every parameter and to the return type of the new function, and prints the collected names as `<T, U>`, is covered by the bounded extract-function corpus only",
]}

_GENERIC = [
    "fun count_results<T>(make: Fun<(Int), T>, n: Int): Int {\n  let total = [make(n), make(n + 1)].len()\n  total\n}\nfun show(i: Int): String {\n  string_repr(i)\n}\nprintln(string_repr(count_results(show, 3)))\n",
    "fun sizes<T, U>(xs: List<T>, pair: (Int, U), use: Fun<(T), Unit>): Int {\n  let n = xs.len() + [pair].len()\n  let m = [use].len()\n  n + m\n}\nprintln(string_repr(sizes([1, 2], (1, \"a\"), fun(i: Int) { Unit })))\n",
    "fun opt_len<T>(o: Option<T>, r: Result<Int, T>): Int {\n  let a = [o].len()\n  let b = [r].len()\n  a + b\n}\nprintln(string_repr(opt_len(Some(\"x\"), Ok(1))))\n",
]
WITNESSES = [
    {"match": r"typeparams\.", "kind": "refactor-corpus", "props": ["C20"], "input": _GENERIC, "expect": {}, "selections": "lines", "pure_selections": True,
     "command": ["reftest-extract-function", "{file}", "{offset}", "{end}", "--name", "extracted_zz"],
     "note": "extract_function in generic functions whose type parameters occur only inside the types of free variables"},
]
BOUNDED = []

GLUE_TYPES = """
#[verifier::external_body]
pub struct Symbol { _o: u8 }
#[verifier::external_body]
pub struct Position { _o: u8 }
"""

SPECS = """
pub mod depth_lemmas {
use super::*;
pub open spec fn vmax(a: nat, b: nat) -> nat { if a > b { a } else { b } }
pub open spec fn depth(t: Type) -> nat
    decreases t, 0nat
{
    match t {
        Type::Tuple(v) => 1 + depth_seq(v@, v@.len()),
        Type::Fun { params, return_, .. } => 1 + vmax(depth_seq(params@, params@.len()), depth(*return_)),
        Type::UserDefined { args, .. } => 1 + depth_seq(args@, args@.len()),
        Type::Error { inferred_type, .. } => match inferred_type {
            Some(b) => 1 + depth(*b),
            None => 0,
        },
        _ => 0,
    }
}
pub open spec fn depth_seq(s: Seq<Type>, n: nat) -> nat
    decreases s, n
{
    if n == 0 || n > s.len() { 0 } else { vmax(depth(s[n - 1]), depth_seq(s, (n - 1) as nat)) }
}
pub proof fn lemma_depth_elem(s: Seq<Type>, n: nat, i: int)
    requires 0 <= i < n <= s.len(),
    ensures depth(s[i]) <= depth_seq(s, n),
    decreases n,
{
    if i < n - 1 { lemma_depth_elem(s, (n - 1) as nat, i); }
}
pub broadcast proof fn lemma_depth_index(s: Seq<Type>, i: int)
    requires 0 <= i < s.len(),
    ensures #[trigger] depth(s[i]) <= depth_seq(s, s.len()),
{
    lemma_depth_elem(s, s.len(), i);
}
}
pub use depth_lemmas::*;
broadcast use depth_lemmas::lemma_depth_index;

/// the type parameter named n occurs somewhere inside t
pub open spec fn mentions(t: Type, n: Seq<char>) -> bool
    decreases depth(t) via mentions_dec
{
    match t {
        Type::TypeParameter(name) => name.text@ == n,
        Type::Tuple(v) => exists|i: int| #![trigger v@[i]] 0 <= i < v@.len() && mentions(v@[i], n),
        Type::Fun { params, return_, .. } =>
            (exists|i: int| #![trigger params@[i]] 0 <= i < params@.len() && mentions(params@[i], n)) || mentions(*return_, n),
        Type::UserDefined { args, .. } => exists|i: int| #![trigger args@[i]] 0 <= i < args@.len() && mentions(args@[i], n),
        Type::Error { inferred_type, .. } => match inferred_type {
            Some(b) => mentions(*b, n),
            None => false,
        },
        Type::Any => false,
    }
}
#[via_fn]
proof fn mentions_dec(t: Type, n: Seq<char>) {
}
/// some element of the list has the characters n
pub open spec fn has(names: Seq<String>, n: Seq<char>) -> bool {
    exists|i: int| 0 <= i < names.len() && (#[trigger] names[i])@ == n
}
/// every name one of the first k types mentions is in the list
pub open spec fn covered(ts: Seq<Type>, k: int, names: Seq<String>) -> bool {
    forall|j: int, n: Seq<char>| 0 <= j < k && #[trigger] mentions(ts[j], n) ==> has(names, n)
}
pub proof fn lemma_has_push(s: Seq<String>, x: String)
    ensures
        forall|n: Seq<char>| has(s, n) ==> #[trigger] has(s.push(x), n),
        has(s.push(x), x@),
        forall|n: Seq<char>| #[trigger] has(s.push(x), n) ==> has(s, n) || n == x@,
{
    let t = s.push(x);
    assert(t[s.len() as int] == x);
    assert forall|n: Seq<char>| has(s, n) implies #[trigger] has(t, n) by {
        let i = choose|i: int| 0 <= i < s.len() && (#[trigger] s[i])@ == n;
        assert(t[i] == s[i]);
    }
    assert forall|n: Seq<char>| #[trigger] has(t, n) implies has(s, n) || n == x@ by {
        let i = choose|i: int| 0 <= i < t.len() && (#[trigger] t[i])@ == n;
        if i < s.len() { assert(t[i] == s[i]); }
    }
}
#[verifier::external_body]
pub fn vv_contains(names: &Vec<String>, s: &String) -> (r: bool)
    ensures r == has(names@, s@),
{ names.contains(s) }
#[verifier::external_body]
pub fn vc_clone_string(s: &String) -> (r: String)
    ensures r@ == s@,
{ s.clone() }
"""

_N = [0]


def _for_rule(text):
    def f(m):
        _N[0] += 1
        return "let mut __i%d: usize = 0; while __i%d < %s.len() { let %s = &%s[__i%d]; __i%d += 1;" % (
            _N[0], _N[0], m.group(2), m.group(1), m.group(2), _N[0], _N[0])
    return re.subn(r"for (\w+) in (\w+) \{", f, text)


_for_rule.rule_id = "R4"
_for_rule.pattern = r"for (\w+) in (\w+) \{"


def _loop(seq):
    return dict(
        invariant=[("counted", "{I} <= %s@.len()" % seq),
                   ("earlier_names_kept", "forall|n: Seq<char>| #[trigger] has(old(names)@, n) ==> has(names@, n)"),
                   ("names_of_the_visited_types_collected", "covered(%s@, {I} as int, names@)" % seq),
                   ("nothing_else_added", "forall|n: Seq<char>| #[trigger] has(names@, n) ==> has(old(names)@, n) || mentions(ty0, n)"),
                   ("same_type", "*ty == ty0"),
                   ("elements_are_smaller", "forall|j: int| 0 <= j < %s@.len() ==> depth(#[trigger] %s@[j]) < depth(ty0)" % (seq, seq)),
                   ("a_name_of_an_element_is_a_name_of_the_type", "forall|j: int, n: Seq<char>| 0 <= j < %s@.len() && #[trigger] mentions(%s@[j], n) ==> mentions(ty0, n)" % (seq, seq))],
        decreases="%s@.len() - {I}" % seq)


def build(tier):
    _N[0] = 0
    u = UnitFile("typeparams")
    u.raw("#![allow(unused_imports, dead_code, unused_variables, unused_mut, unused_parens, non_snake_case, unused_assignments)]")
    u.raw("use vstd::prelude::*;\nverus! {")
    u.raw(GLUE_TYPES, kind="prelude")
    u.add_type(AST, "TypeName")
    u.add_type(GT, "TypeDefKind")
    u.add_type(GT, "Type")
    u.raw(SPECS, kind="spec")
    props = {"C20"}
    RULES = [
        _for_rule,
        rw.simple("R2", r"!names\.contains\(&name\.text\)", "!vv_contains(names, &name.text)"),
        rw.simple("R11", r"name\.text\.clone\(\)", "vc_clone_string(&name.text)"),
    ]
    u.add_fn(XF, "collect_type_params", rules=RULES, contract=Contract(
        ensures=[("every_mentioned_type_parameter_is_collected", "forall|n: Seq<char>| #[trigger] mentions(*ty, n) ==> has(final(names)@, n)"),
                 ("earlier_names_are_kept", "forall|n: Seq<char>| #[trigger] has(old(names)@, n) ==> has(final(names)@, n)"),
                 ("nothing_else_is_added", "forall|n: Seq<char>| #[trigger] has(final(names)@, n) ==> has(old(names)@, n) || mentions(*ty, n)")],
        decreases="depth(*ty)",
        body_prelude="let ghost ty0 = *ty;",
        hints=[dict(anchor="while __i%d <" % k, where="after_block", optional=True, name="names_of_all_%s_collected" % sq,
                    text=("proof { assert(ty0 matches Type::%s && v@ == %s@); assert(covered(%s@, %s@.len() as int, names@));\n" % (pat, sq, sq, sq)) + (
                          "" if sq == "params" else
                          "    assert forall|n: Seq<char>| #[trigger] mentions(ty0, n) implies has(names@, n) by {\n"
                          "        let j = choose|j: int| 0 <= j < %s@.len() && mentions(%s@[j], n); assert(mentions(%s@[j], n)); }\n" % (sq, sq, sq)) + "}")
               for (k, sq, pat) in ((1, "items", "Tuple(v)"), (2, "params", "Fun { params: v, .. }"), (3, "args", "UserDefined { args: v, .. }"))] + [dict(anchor="collect_type_params(return_, names);", where="after_stmt", optional=True, name="names_of_the_parameters_and_of_the_result_collected",
                       text="proof { assert forall|n: Seq<char>| #[trigger] mentions(ty0, n) implies has(names@, n) by {\n"
                            "    if !mentions(**return_, n) { let j = choose|j: int| 0 <= j < params@.len() && mentions(params@[j], n); assert(mentions(params@[j], n)); } } }"),
                  dict(anchor="if let Some(inferred_type) = inferred_type", where="after_block", optional=True, name="names_of_the_inferred_type_collected",
                       text="proof { assert forall|n: Seq<char>| #[trigger] mentions(ty0, n) implies has(names@, n) by {\n"
                            "    match ty0 { Type::Error { inferred_type: Some(b), .. } => { assert(mentions(*b, n)); }, _ => {} } } }"),
                  dict(anchor="names.push", where="after_stmt", optional=True, name="pushed_name_is_in_the_list",
                    text="proof { lemma_has_push(old(names)@, names@.last()); assert(names@ =~= old(names)@.push(names@.last())); }")],
        loops={1: _loop("items"), 2: _loop("params"), 3: _loop("args")},
        props=props))
    u.add_canary_proof()
    u.raw(common.FOOTER)
    return u
