"""Unit `sandbox` (C24): every arm of eval_built_in_call / eval_built_in_method_call, as a
mechanically extracted control-flow slice (vc/slicer.py), with every effect API call renamed to
`effect(sandboxed, ..)` whose PRECONDITION is `!sandboxed`.  Verus then proves, per arm, that no
path reaches an effect while the sandbox flag is set."""
import os
import re
import sys

HERE = os.path.dirname(os.path.abspath(__file__))
ROOT = os.path.dirname(os.path.dirname(HERE))
sys.path.insert(0, os.path.join(ROOT, "vc"))
sys.path.insert(0, os.path.join(ROOT, "units"))
from gen import UnitFile, Tag  # noqa: E402
from extract import ExtractError, Source  # noqa: E402
from slicer import Slicer  # noqa: E402
import common  # noqa: E402

EV = "src/eval.rs"
RLIMIT = 60
MIN_FUNCTIONS = 50

# The effect APIs (ASSUMPTION: complete for the two dispatch functions and their helpers).
EFFECT_PATTERNS = [
    # create / modify / delete / read files and directories
    r"std\s*::\s*fs\s*::\s*(?!canonicalize\b|metadata\b|symlink_metadata\b|exists\b|try_exists\b)\w+",
    r"\bfs\s*::\s*(?!canonicalize\b|metadata\b|symlink_metadata\b|exists\b|try_exists\b)\w+\s*\(",
    r"\bFile\s*::\s*\w+", r"\bOpenOptions\b", r"\.\s*read_dir\s*\(",
    # start processes
    r"std\s*::\s*process\s*::\s*\w+", r"\bCommand\s*::\s*new\b",
    # read standard input
    r"\bstdin\s*\(\s*\)",
    # network
    r"std\s*::\s*net\s*::\s*\w+", r"\bTcp(?:Stream|Listener)\b", r"\bUdpSocket\b",
]
# NOT effects for this property (the statement says create / modify / delete / read files, start
# processes, read stdin): stat-like queries (exists, is_file, is_dir, metadata, canonicalize) and
# the interpreter-internal `env.working_directory = ..`.  An earlier version of this list included
# them and flagged FsSetWorkingDirectory and ReflectSourceFile: that demanded more than the
# property states (false alarm, corrected here).
HOSTS = [("eval_built_in_call", "fn"), ("eval_built_in_method_call", "meth")]

ASSUMPTIONS = {
    "nondet": "every dropped condition may evaluate either way",
    "nondet_u8": "every dropped match scrutinee may select any arm",
    "effect": "an effect API call: its precondition `!sandboxed` is the contract form of 'no effect in sandbox mode'",
}
LEMMAS = {}
UNVERIFIED = {"C25": ["as C24, for the arms that read standard input or start a process (the built-ins that can block inside one step)"], "C24": [
    "the slice drops every expression except tests of env.enforce_sandbox, effect API calls and control flow; it is sound only if (a) the effect pattern list is complete — an effect API not in the list is invisible — and (b) nothing dropped assigns env.enforce_sandbox (checked syntactically here)",
    "effects reachable outside the two dispatch functions (imports loading files, :commands of the sessions, the test runner) are not covered",
    "that playground-run / sandboxed-test set env.enforce_sandbox = true (two assignments, sandboxed_playground.rs:51, test_runner.rs:70)",
    "effects performed by Garden-level helper code in __prelude.gdn/__fs.gdn go through these built-ins and are therefore covered by them",
]}

WITNESSES = [
    {"match": r"arm_fn_PreludeReadLine", "kind": "playground", "props": ["C24"], "timeout": 10, "stdin": "secret\n",
     "filename": "p.gdn",
     "input": "match read_line() { Ok(s) => println(\"LEAK:\" ^ s), Err(_) => println(\"err\") }\n",
     "expect": {"stdout_not_contains": "LEAK:secret"}, "note": "sandboxed code must not read standard input"},
] + [
    # an effectful built-in reached by every route a program has: directly, through a variable, as a function value
    # handed to a prelude higher-order method (called from a frame of __prelude.gdn), inside a closure
    {"match": r"arm_(fn|meth)_", "kind": "playground", "props": ["C24"], "timeout": 20, "filename": "p.gdn", "input": prog,
     "expect": {"stdout_contains": "sandboxed mode"}, "note": "an effectful built-in must be refused in the sandbox whatever frame calls it"}
    for prog in (
        'import "__fs.gdn" as fs\n[Path{ p: "/var/tmp/verif_probe_zz_dir" }].map(fs::create_dir)\n',
        'import "__fs.gdn" as fs\n[Path{ p: "/etc/hostname" }].map(fs::read_file)\n',
        'import "__fs.gdn" as fs\n[Path{ p: "/var/tmp/verif_probe_zz_file" }].map(fs::remove_file)\n',
        'import "__fs.gdn" as fs\nlet f = fs::read_file\nf(Path{ p: "/etc/hostname" })\n',
        'import "__shell.gdn" as shell\nlet r = shell::run\n[("true", [])].map(fun(c) { let (a, b) = c  r(a, b) })\n',
        '[Path{ p: "/etc/hostname" }].filter(fun(p: Path) { p.exists() })\n',
        'import "__fs.gdn" as fs\nfun go(p: Path) { fs::list_directory(p) }\n[Path{ p: "/" }].map(go)\n',
    )
]

PRELUDE = """
#[verifier::external_body] pub fn nondet() -> (r: bool) { unimplemented!() }
#[verifier::external_body] pub fn nondet_u8() -> (r: u8) { unimplemented!() }
/// an effect on the outside world.  Contract: only when not sandboxed.
#[verifier::external_body]
pub fn effect(sandboxed: bool, what: &str)
    requires !sandboxed,
{ unimplemented!() }
"""


def effectful_helpers(srcs, effect_rx):
    """names of crate functions that (transitively) call an effect API"""
    bodies = {}
    for src in srcs:
        toks = src.toks
        for k, t in enumerate(toks):
            if t.kind == "ident" and t.text == "fn" and k + 1 < len(toks) and toks[k + 1].kind == "ident":
                name = toks[k + 1].text
                # body
                j = k
                depth = 0
                while j < len(toks):
                    u = toks[j]
                    if u.kind == "punct":
                        if u.text in "([":
                            depth += 1
                        elif u.text in ")]":
                            depth -= 1
                        elif u.text == "{" and depth == 0:
                            break
                        elif u.text == ";" and depth == 0:
                            j = None
                            break
                    j += 1
                if j is None or j >= len(toks):
                    continue
                from extract import match_close
                c = match_close(toks, j)
                bodies.setdefault(name, []).append(src.text[toks[j].start:toks[c].end])
    eff = set()
    rx = re.compile(effect_rx)
    for n, bs in bodies.items():
        if any(rx.search(b) for b in bs):
            eff.add(n)
    changed = True
    while changed:
        changed = False
        for n, bs in bodies.items():
            if n in eff:
                continue
            for b in bs:
                # bare-name calls only (`name(`), not methods (`.name(`) or paths (`T::name(`)
                if any(re.search(r"(?<![\.\w:])%s\s*\(" % re.escape(e), b) for e in eff):
                    eff.add(n)
                    changed = True
                    break
    return eff


def build(tier):
    u = UnitFile("sandbox")
    u.raw(common.HEADER)
    u.raw(PRELUDE, kind="prelude")
    src = u.source(EV)
    direct = "|".join(EFFECT_PATTERNS)
    # helpers of the crate that perform effects count as effect calls too (by name);
    # the dispatch functions themselves and the evaluator entry points are excluded
    srcs = [src]
    for rel in ("src/values.rs", "src/env.rs"):
        try:
            srcs.append(u.source(rel))
        except ExtractError:
            pass
    # evaluator entry points re-enter the dispatch (their effects are the built-ins' own, checked
    # arm by arm) and #[cfg(test)] functions never run in the product: both are excluded
    helpers = set(h for h in effectful_helpers(srcs, direct)
                  if not h.startswith("eval") and not h.startswith("test_") and h != "main")
    rx = direct
    if helpers:
        rx += "|" + "|".join(r"(?<![\.\w:])%s\s*\(" % re.escape(h) for h in sorted(helpers))
    u.helpers = sorted(helpers)
    c24 = {"C24"}
    n_arms = 0
    for hname, short in HOSTS:
        host = src.find_fn(hname)
        if re.search(r"enforce_sandbox\s*=(?!=)", host.text):
            raise ExtractError("%s assigns env.enforce_sandbox: the slice abstraction is not sound for it" % hname)
        u.items.append({"name": hname, "generated_as": "arm_%s_*" % short, "kind": "slice", "where": host.where,
                        "sha256_16": host.sha(), "skeleton": ""})
        sl = Slicer(src, rx)
        toks = src.toks
        idx = [k for k, t in enumerate(toks) if host.start <= t.start < host.end]
        # the dispatch `match kind {`
        mk = None
        for k in idx:
            if toks[k].text == "match" and toks[k + 1].text == "kind" and toks[k + 2].text == "{":
                mk = k
                break
        if mk is None:
            raise ExtractError("`match kind {` not found in %s" % hname)
        close = sl.close(mk + 2)
        # statements of the host before the dispatch (a guard there dominates every arm)
        body_open = None
        for k in idx:
            if toks[k].text == "{" and toks[k].start >= host.sig_end:
                body_open = k
                break
        sl.out = []
        sl.block(body_open + 1, mk, "    ")
        prefix_out = list(sl.out)
        prefix_mixed = sl.n_mixed
        j = mk + 3
        seen = {}
        while j < close:
            # pattern up to `=>`
            m = j
            arrow = None
            while m < close:
                t = toks[m]
                if t.kind == "punct" and t.text in "([{":
                    m = sl.close(m) + 1
                    continue
                if t.text == "=" and toks[m + 1].text == ">" and toks[m + 1].start == t.end:
                    arrow = m
                    break
                m += 1
            if arrow is None:
                break
            pat = src.text[toks[j].start:toks[arrow - 1].end]
            names = re.findall(r"Kind::(\w+)", pat) or ["other"]
            bs = arrow + 2
            if toks[bs].text == "{":
                be = sl.close(bs)
                a2, b2 = bs + 1, be
                j = be + 1
            else:
                e = sl.find0(bs, close, lambda x: x.text == ",")
                e = close if e is None else e
                a2, b2 = bs, e
                j = e
            if j < close and toks[j].text == ",":
                j += 1
            name = "_".join(names)[:60]
            seen[name] = seen.get(name, 0) + 1
            gname = "arm_%s_%s" % (short, name) + ("_%d" % seen[name] if seen[name] > 1 else "")
            sl.out = list(prefix_out)
            before_mixed = sl.n_mixed
            sl.block(a2, b2, "    ")
            if prefix_mixed or sl.n_mixed > before_mixed:
                # the sandbox flag is tested together with something the slice cannot see: a failure
                # in this arm is inconclusive (undecided unless a witness reproduces it)
                u.unspecified_loops[gname] = 1
            line0 = src.line_of(toks[arrow].start)
            # an arm that reads standard input or starts a process can block for ever inside one step: its sandbox
            # guard is also what C25 (a sandboxed run always finishes) rests on
            blocking = any(re.search(r'effect\(sandboxed, "(?:[^"]*stdin|[^"]*process|Command)', t_) for (t_, _l) in sl.out)
            aprops = {"C24", "C25"} if blocking else c24
            u.fn_props[gname] = aprops
            u.safety_props[gname] = aprops
            tag0 = Tag("repo", fn=gname, repo_file=EV, repo_line=line0, props=aprops)
            u.emit("#[verifier::exec_allows_no_decreases_clause]\npub fn %s(sandboxed: bool) -> (r: Result<(), ()>)\n{" % gname, tag0)
            for (text, ln) in sl.out:
                u.emit(text, Tag("repo", fn=gname, repo_file=EV, repo_line=ln, props=aprops))
            u.emit("    Ok(())\n}", tag0)
            n_arms += 1
        u.slice_stats = getattr(u, "slice_stats", {})
        u.slice_stats[hname] = {"effects": sl.n_effects, "guards": sl.n_guards}
    if n_arms < 50:
        raise ExtractError("only %d dispatch arms found" % n_arms)
    u.add_canary_proof()
    u.raw(common.FOOTER)
    return u
