"""Unit `calls` (C07, C06, C02): eval_call and eval_method_call (src/eval.rs), whole functions over the real
Value_/FunInfo/StackFrame types: a failing call hands back the receiver and the arguments it popped, in the order
that rebuilds the value stack; a call never touches the caller's bindings blocks or pending expressions; the new
frame of a user function starts with one bindings block."""
import importlib.util
import os
import re
import sys

HERE = os.path.dirname(os.path.abspath(__file__))
ROOT = os.path.dirname(os.path.dirname(HERE))
sys.path.insert(0, os.path.join(ROOT, "vc"))
sys.path.insert(0, os.path.join(ROOT, "units"))
import rewrite as rw  # noqa: E402
from gen import Contract, UnitFile  # noqa: E402
import common  # noqa: E402

_spec = importlib.util.spec_from_file_location("unit_steps_for_calls", os.path.join(ROOT, "units", "steps", "unit.py"))
steps = importlib.util.module_from_spec(_spec)
_spec.loader.exec_module(steps)

EV = "src/eval.rs"
ENV = "src/env.rs"
VAL = "src/values.rs"
AST = "src/parser/ast.rs"
RLIMIT = 300
MIN_FUNCTIONS = 2

ASSUMPTIONS = dict(steps.ASSUMPTIONS)
ASSUMPTIONS.update({
    "ToplevelItemId": "opaque", "vtype_bindings_for": "TypeVarEnv built from the type parameters", "vfun_bindings": "FxHashMap of parameter bindings built from params and arguments",
    "vprev_call_args_insert": "env.prev_call_args.insert: changes that table only", "vprev_method_call_record": "env.prev_method_call_args first-call record: changes that table only",
    "get_or_create_namespace": "Env::get_or_create_namespace: changes the namespace table only (not the stack)",
    "vpath_of": "Position.path.to_path_buf()", "new_with": "Bindings::new_with(map) is one bindings block", "venclosing_eq": "derived PartialEq of EnclosingSymbol",
    "eval_built_in_call": "eval_built_in_call (eval.rs:2615-4500, the built-in functions) is NOT verified here: assumed to leave the other frames, the bindings blocks and the pending expressions alone and, when it fails, to hand back [receiver] ++ reverse(args) (its `saved_values` builder sites are PROVED in unit restore)",
    "eval_built_in_method_call": "eval_built_in_method_call (eval.rs, the built-in methods): as eval_built_in_call",
    "check_arity": "check_arity (PROVED in unit restore): Err ==> [receiver] ++ reverse(args); does not touch env",
    "check_param_types": "check_param_types (PROVED in unit restore): Err ==> [receiver] ++ reverse(args); does not touch env",
    "enum_value_runtime_type": "inspects env only", "type_representation": "inspects the value only",
    "vtypes_get": "env.types.get(&name): FxHashMap lookup", "vmethods_get": "methods.get(&name): FxHashMap lookup", "TypeDefAndMethodsView": "-", "MethodInfoView": "-",
    "vclone_blocks": "Vec<BlockBindings>::clone", "vto_vec": "slice::to_vec", "vbox": "Box::new",
    "MethodKind": "-", "MethodInfo": "-", "BuiltInMethodKind": "opaque", "any": "Type::Any", "insert": "FxHashMap / TypeVarEnv insert: changes that map only",
})
LEMMAS = {"lemma_rev_from_push": {"C07"}}
UNVERIFIED = {
    "C07": ["eval_built_in_call / eval_built_in_method_call bodies (assumed restore contract; their builder sites are proved in unit restore)"],
    "C06": ["that eval() pushes the returned frame and later drops it whole"],
    "C02": ["the operand-count precondition (eval_expr evaluates receiver and arguments before the call step)"],
}

GLUE_TYPES = """
#[verifier::external_body] pub struct ToplevelItemId { _o: u8 }
#[verifier::external_body] pub struct BuiltInMethodKind { _o: u8 }
pub struct BlockBindings { pub values: OpaqueMap<InternedSymbolId, Value> }
"""

GLUE_CALLS = """
/// arg_values[n-1], ..., arg_values[i]  (the reversed suffix from i)
pub open spec fn rev_from(args: Seq<Value>, i: int) -> Seq<Value> {
    Seq::new((args.len() - i) as nat, |k: int| args[args.len() - 1 - k])
}
pub open spec fn restore_of_call(receiver: Value, args: Seq<Value>) -> Seq<Value> {
    seq![receiver] + rev_from(args, 0)
}
/// popping one more argument extends the reversed list at the front
pub proof fn lemma_rev_from_push(args: Seq<Value>, v: Value)
    ensures rev_from(args.push(v), 0) =~= seq![v] + rev_from(args, 0),
{
    assert forall|k: int| 0 <= k < args.len() + 1 implies #[trigger] rev_from(args.push(v), 0)[k] == (seq![v] + rev_from(args, 0))[k] by {
        if k > 0 { assert(args.push(v)[args.len() - k] == args[args.len() - k]); }
    }
}
#[verifier::external_body]
pub fn check_arity(fun_name: &SymbolName, receiver_value: &Value, receiver_pos: &Position, expected: usize, arg_positions: &Vec<Position>, arg_values: &Vec<Value>) -> (r: Result<(), (RestoreValues, EvalError)>)
    requires arg_positions@.len() == arg_values@.len(),
    ensures r is Ok <==> arg_values@.len() == expected,
        r is Err ==> r->Err_0.0.0@ =~= restore_of_call(*receiver_value, arg_values@),
{ unimplemented!() }
#[verifier::external_body]
pub fn check_param_types(env: &Env, receiver_value: &Value, params: &Vec<SymbolWithHint>, arg_positions: &Vec<Position>, arg_values: &Vec<Value>, type_bindings: &TypeVarEnv) -> (r: Result<(), (RestoreValues, EvalError)>)
    requires arg_positions@.len() == arg_values@.len(),
    ensures r is Err ==> r->Err_0.0.0@ =~= restore_of_call(*receiver_value, arg_values@),
{ unimplemented!() }
#[verifier::external_body]
pub fn eval_built_in_call(env: &mut Env, kind: BuiltInFunctionKind, receiver_value: &Value, receiver_pos: &Position, arg_positions: &Vec<Position>, arg_values: &Vec<Value>,
                          expr_value_is_used: bool, position: &Position, session: &Session) -> (r: Result<(), (RestoreValues, EvalError)>)
    requires old(env).stack.0@.len() >= 1,
    ensures others_same(*old(env), *final(env)), blocks(*final(env)) == blocks(*old(env)), pend(*final(env)) == pend(*old(env)),
        r is Err ==> vals(*final(env)) == vals(*old(env)) && r->Err_0.0.0@ =~= restore_of_call(*receiver_value, arg_values@),
{ unimplemented!() }
#[verifier::external_body]
pub fn eval_built_in_method_call(env: &mut Env, kind: BuiltInMethodKind, receiver_value: &Value, receiver_pos: &Position, arg_positions: &Vec<Position>, arg_values: &Vec<Value>,
                                 expr_value_is_used: bool) -> (r: Result<(), (RestoreValues, EvalError)>)
    requires old(env).stack.0@.len() >= 1,
    ensures others_same(*old(env), *final(env)), blocks(*final(env)) == blocks(*old(env)), pend(*final(env)) == pend(*old(env)),
        r is Err ==> vals(*final(env)) == vals(*old(env)) && r->Err_0.0.0@ =~= restore_of_call(*receiver_value, arg_values@),
{ unimplemented!() }
impl Clone for BuiltInFunctionKind { #[verifier::external_body] fn clone(&self) -> (r: Self) { unimplemented!() } }
impl Copy for BuiltInFunctionKind {}
impl Clone for BuiltInMethodKind { #[verifier::external_body] fn clone(&self) -> (r: Self) { unimplemented!() } }
impl Copy for BuiltInMethodKind {}
/// env.prev_method_call_args: remember the receiver and arguments of the first call of each method (eval-up-to)
#[verifier::external_body]
pub fn vprev_method_call_record(env: &mut Env, ty: &TypeName, meth_name: &Symbol, receiver_value: &Value, arg_values: &Vec<Value>)
    ensures final(env).stack == old(env).stack,
{ unimplemented!() }
#[verifier::external_body]
pub fn vtypes_get<'a>(env: &'a Env, name: &TypeName) -> (r: Option<&'a TypeDefAndMethods>) { unimplemented!() }
#[verifier::external_body]
pub fn vmethods_get<'a>(t: &'a TypeDefAndMethods, name: &SymbolName) -> (r: Option<&'a MethodInfo>) { unimplemented!() }
#[verifier::external_body]
pub fn vtype_bindings_for(type_params: &Vec<TypeSymbol>) -> (r: TypeVarEnv) { unimplemented!() }
#[verifier::external_body]
pub fn vfun_bindings(params: &Vec<SymbolWithHint>, arg_values: &Vec<Value>) -> (r: OpaqueMap<InternedSymbolId, Value>) { unimplemented!() }
#[verifier::external_body]
pub fn vprev_call_args_insert(env: &mut Env, name_sym: &Symbol, arg_values: &Vec<Value>)
    ensures final(env).stack == old(env).stack,
{ unimplemented!() }
impl Env {
    #[verifier::external_body]
    pub fn get_or_create_namespace(&mut self, path: &PathBuf) -> (r: NamespaceRef)
        ensures final(self).stack == old(self).stack,
    { unimplemented!() }
}
#[verifier::external_body]
pub fn vpath_of(p: &Position) -> (r: PathBuf) { unimplemented!() }
impl Bindings {
    #[verifier::external_body]
    pub fn new_with(outer_scope: OpaqueMap<InternedSymbolId, Value>) -> (r: Self) ensures r.block_bindings@.len() == 1 { unimplemented!() }
}
#[verifier::external_body]
pub fn venclosing_eq(a: &EnclosingSymbol, b: &EnclosingSymbol) -> (r: bool) { unimplemented!() }
#[verifier::external_body]
pub fn enum_value_runtime_type(env: &Env, type_name: &TypeName, variant_idx: usize, payload_value_type: &Type) -> (r: Option<Type>) { unimplemented!() }
#[verifier::external_body]
pub fn vclone_blocks(b: &Vec<BlockBindings>) -> (r: Vec<BlockBindings>) ensures r@.len() == b@.len() { unimplemented!() }
#[verifier::external_body]
pub fn vto_vec(v: &Vec<Value>) -> (r: Vec<Value>) ensures r@ == v@ { unimplemented!() }
impl<K, V> OpaqueMap<K, V> {
    #[verifier::external_body]
    pub fn default() -> (r: Self) { unimplemented!() }
    #[verifier::external_body]
    pub fn insert(&mut self, k: K, v: V) { unimplemented!() }
}
impl TypeVarEnv {
    #[verifier::external_body]
    pub fn default() -> (r: Self) { unimplemented!() }
    #[verifier::external_body]
    pub fn insert(&mut self, k: TypeName, v: Option<Type>) { unimplemented!() }
}
impl Type {
    #[verifier::external_body]
    pub fn any() -> (r: Self) { unimplemented!() }
}
impl Clone for SyntaxId { #[verifier::external_body] fn clone(&self) -> (r: Self) { unimplemented!() } }
impl Copy for SyntaxId {}
impl Clone for TypeName { #[verifier::external_body] fn clone(&self) -> (r: Self) ensures r == *self { unimplemented!() } }
impl Clone for TypeHint { #[verifier::external_body] fn clone(&self) -> (r: Self) ensures r == *self { unimplemented!() } }
"""


def build(tier):
    u = UnitFile("calls")
    u.raw(common.HEADER)
    u.raw(common.prelude("strings.rs"), kind="prelude")
    u.raw(common._without(common.OPAQUE, ["SymbolName", "Symbol", "FunInfo", "BlockBindings"]), kind="prelude")
    u.raw(steps.GLUE, kind="prelude")
    u.raw(GLUE_TYPES, kind="prelude")
    u.add_type(AST, "SymbolName")
    u.raw("#[derive(Clone, Copy)]  // as in the source (derive lines are dropped by the extractor)")
    u.add_type(AST, "InternedSymbolId")
    u.raw("#[verifier::external_body] pub struct SyntaxId { _o: u8 }", kind="prelude")
    u.add_type(AST, "Symbol")
    u.add_type(VAL, "Value")
    u.add_type(VAL, "Value_", rules=common.VALUE_TYPE_RULES)
    common.add_error_types(u)
    u.raw(common.FMT, kind="prelude")
    saved = common.ENV_OPAQUE_NOAST
    common.ENV_OPAQUE_NOAST = common._without(saved, ["EnclosingSymbol"])
    try:
        common.add_env_full(u, real_typename=True, typehint_stub=True,
                            real_ast=("LetDestination", "ExpressionWithComma", "ParenthesizedArguments", "ParenthesizedExpression", "DictKeyValue", "TypeSymbol"),
                            no_syntaxid=True)
    finally:
        common.ENV_OPAQUE_NOAST = saved
    u.add_type(ENV, "EnclosingSymbol")
    u.add_type(AST, "SymbolWithHint")
    u.add_type(AST, "ParenthesizedParameters")
    u.add_type(AST, "FunInfo")
    u.add_type(AST, "MethodKind")
    u.add_type(AST, "MethodInfo")
    u.raw(common.TOP_SPEC, kind="spec")
    u.raw(common.VALUE_GLUE, kind="prelude")
    u.raw(steps.GLUE2, kind="prelude")
    # steps' GLUE3 minus the stubs of the two functions under contract here
    g3 = steps.GLUE3
    for n in ("eval_call", "eval_method_call"):
        m = re.search(r"#\[verifier::external_body\]\npub fn %s\(env: &mut Env.*?\{ unimplemented!\(\) \}\n" % n, g3, re.S)
        if m:
            g3 = g3[:m.start()] + g3[m.end():]
    u.raw(g3, kind="prelude")
    u.raw(GLUE_CALLS, kind="prelude")
    props = {"C07", "C02", "C06"}
    common.add_env_accessors(u, {"C07"}, {"C07", "C02"})
    RULES = steps.BASE_RULES + [steps.UNREACH,
        rw.simple("R4", r"for arg in &paren_args\.arguments \{", "let mut __i1: usize = 0; while __i1 < paren_args.arguments.len() { let arg = &paren_args.arguments[__i1]; __i1 += 1;"),
        rw.simple("local", r"let mut arg_values = vec!\[\];", "let mut arg_values: Vec<Value> = Vec::new();"),
        rw.simple("local", r"let mut arg_positions = vec!\[\];", "let mut arg_positions: Vec<Position> = Vec::new();"),
        rw.simple("T1", r"FxHashMap::default\(\)", "OpaqueMap::default()"),
        rw.simple("local", r"Some\(Type::Any\)", "Some(Type::any())"),
        rw.simple("R2", r"(\w+)\.pos\.path\.to_path_buf\(\)", r"vpath_of(&\1.pos)"),
        rw.simple("R2", r"env\.prev_call_args\.insert\(\s*\(name_sym\.name\.clone\(\), name_sym\.position\.path\.to_path_buf\(\)\),\s*arg_values\.to_vec\(\),\s*\);", "vprev_call_args_insert(env, name_sym, &arg_values);"),
        rw.simple("R10", r"enclosing_name == stack_frame\.enclosing_name", "venclosing_eq(&enclosing_name, &stack_frame.enclosing_name)"),
        rw.simple("R11", r"(\w+(?:\.\w+)*)\.return_hint\.clone\(\)", r"vc_clone(&\1.return_hint)"),
        rw.simple("R11", r"\btype_name\.text\.clone\(\)", "vc_clone(&type_name.text)"),
        rw.simple("R11", r"\bbindings\.clone\(\)", "vclone_blocks(bindings)"),
        "R5", "R6", "R4",
    ]
    u.add_fn(EV, "eval_call", rules=RULES, contract=Contract(
        requires=[("stack_nonempty", "old(env).stack.0@.len() >= 1"),
                  ("receiver_and_arguments_on_value_stack", "vals(*old(env)).len() >= paren_args.arguments@.len() + 1")],
        ensures=[("failed_call_hands_back_receiver_and_arguments", "r is Err ==> restores(*old(env), *final(env), r->Err_0.0.0@)", {"C07"}),
                 ("caller_frame_blocks_and_pending_untouched", "blocks(*final(env)) == blocks(*old(env)) && pend(*final(env)) == pend(*old(env))", {"C06"}),
                 ("new_frame_has_one_block", "r matches Ok(Some(f)) ==> f.bindings.block_bindings@.len() >= 1", {"C06"}),
                 ("other_frames_untouched", "others_same(*old(env), *final(env))", {"C06"})],
        hints=[dict(anchor="let mut saved_values", where="after_stmt", nth=0, text="let ghost init_a = saved_values@;"),
               dict(anchor="let mut saved_values", where="after_stmt", nth=1, text="let ghost init_b = saved_values@;"),
               dict(anchor="let stack_frame", where="before", name="popped_receiver_and_arguments",
                    text="proof { assert(vals(*old(env)) =~= vals(*env) + restore_of_call(receiver_value, arg_values@)); }\nlet ghost after_pops = *env;")],
        loops={1: dict(invariant=[("frame", "env.stack.0@.len() >= 1, others_same(*old(env), *env), blocks(*env) == blocks(*old(env)), pend(*env) == pend(*old(env))"),
                                  ("counted", "__i1 <= paren_args.arguments@.len(), arg_values@.len() == __i1, arg_positions@.len() == __i1"),
                                  ("popped_arguments_rebuild_the_stack", "vals(*old(env)) =~= vals(*env) + rev_from(arg_values@, 0)"),
                                  ("receiver_still_there", "vals(*env).len() >= paren_args.arguments@.len() - __i1 + 1")],
                       decreases="paren_args.arguments@.len() - __i1",
                       body_prelude="proof { lemma_rev_from_push(arg_values@, vals(*env).last()); }"),
               2: dict(invariant=[("built", "{I} <= arg_values@.len(), saved_values@ =~= init_a + rev_from(arg_values@, {I} as int)")], decreases="{I}"),
               9: dict(invariant=[("built", "{I} <= arg_values@.len(), saved_values@ =~= init_b + rev_from(arg_values@, {I} as int)")], decreases="{I}")},
        props=props))
    MRULES = RULES + [
        rw.simple("R2", r"let prev_meth_calls_for_ty = env\s*\.prev_method_call_args\s*\.entry\(receiver_type_name\.clone\(\)\)\s*\.or_default\(\);\s*if !prev_meth_calls_for_ty\.contains_key\(&meth_name\.name\) \{\s*prev_meth_calls_for_ty\.insert\(\s*meth_name\.name\.clone\(\),\s*\(receiver_value\.clone\(\), arg_values\.clone\(\)\),\s*\);\s*\}",
                  "vprev_method_call_record(env, &receiver_type_name, meth_name, &receiver_value, &arg_values);"),
        rw.simple("R2", r"env\.types\.get\(&receiver_type_name\)", "vtypes_get(env, &receiver_type_name)"),
        rw.simple("R2", r"receiver_type_and_methods\.methods\.get\(&meth_name\.name\)", "vmethods_get(receiver_type_and_methods, &meth_name.name)"),
        rw.simple("local", r"let mut arg_values: Vec<Value> = Vec::with_capacity\(paren_args\.arguments\.len\(\)\);", "let mut arg_values: Vec<Value> = Vec::new();"),
        rw.simple("local", r"let mut arg_positions: Vec<Position> = Vec::with_capacity\(paren_args\.arguments\.len\(\)\);", "let mut arg_positions: Vec<Position> = Vec::new();"),
        rw.simple("T1", r"FxHashMap<InternedSymbolId, Value>", "OpaqueMap<InternedSymbolId, Value>"),
    ]
    u.add_fn(EV, "eval_method_call", rules=MRULES, contract=Contract(
        requires=[("stack_nonempty", "old(env).stack.0@.len() >= 1"),
                  ("receiver_and_arguments_on_value_stack", "vals(*old(env)).len() >= paren_args.arguments@.len() + 1")],
        ensures=[("failed_call_hands_back_receiver_and_arguments", "r is Err ==> restores(*old(env), *final(env), r->Err_0.0.0@)", {"C07"}),
                 ("caller_frame_blocks_and_pending_untouched", "blocks(*final(env)) == blocks(*old(env)) && pend(*final(env)) == pend(*old(env))", {"C06"}),
                 ("new_frame_has_one_block", "r matches Ok(Some(f)) ==> f.bindings.block_bindings@.len() >= 1", {"C06"}),
                 ("other_frames_untouched", "others_same(*old(env), *final(env))", {"C06"})],
        hints=[dict(anchor="let mut saved_values", where="after_stmt", nth=0, text="let ghost init_a = saved_values@;"),
               dict(anchor="let mut saved_values", where="after_stmt", nth=1, text="let ghost init_b = saved_values@;"),
               dict(anchor="let receiver_type_name", where="before", name="popped_receiver_and_arguments",
                    text="proof { assert(vals(*old(env)) =~= vals(*env) + restore_of_call(receiver_value, arg_values@)); }")],
        loops={1: dict(invariant=[("frame", "env.stack.0@.len() >= 1, others_same(*old(env), *env), blocks(*env) == blocks(*old(env)), pend(*env) == pend(*old(env))"),
                                  ("counted", "__i1 <= paren_args.arguments@.len(), arg_values@.len() == __i1, arg_positions@.len() == __i1"),
                                  ("popped_arguments_rebuild_the_stack", "vals(*old(env)) =~= vals(*env) + rev_from(arg_values@, 0)"),
                                  ("receiver_still_there", "vals(*env).len() >= paren_args.arguments@.len() - __i1 + 1")],
                       decreases="paren_args.arguments@.len() - __i1",
                       body_prelude="proof { lemma_rev_from_push(arg_values@, vals(*env).last()); }"),
               2: dict(invariant=[("built", "{I} <= arg_values@.len(), saved_values@ =~= init_a + rev_from(arg_values@, {I} as int)")], decreases="{I}"),
               3: dict(invariant=[("built", "{I} <= arg_values@.len(), saved_values@ =~= init_b + rev_from(arg_values@, {I} as int)")], decreases="{I}")},
        props=props))
    u.add_canary_proof()
    u.raw(common.FOOTER)
    return u
