"""Unit `abort`: Stack::pop_to_toplevel (env.rs) and the Command::Abort arm (commands.rs).  C10."""
import os
import sys

HERE = os.path.dirname(os.path.abspath(__file__))
ROOT = os.path.dirname(os.path.dirname(HERE))
sys.path.insert(0, os.path.join(ROOT, "vc"))
sys.path.insert(0, os.path.join(ROOT, "units"))
import rewrite as rw  # noqa: E402
from gen import Contract, UnitFile  # noqa: E402
import common  # noqa: E402

ENV = "src/env.rs"
RLIMIT = 30
MIN_FUNCTIONS = 1

ASSUMPTIONS = dict(common.OPAQUE_ASSUMPTIONS)
ASSUMPTIONS.update(common.ENV_OPAQUE_ASSUMPTIONS)
ASSUMPTIONS.update(common.ENV_STRUCT_ASSUMPTIONS)
ASSUMPTIONS.update(common.AST_OPAQUE_ASSUMPTIONS)
ASSUMPTIONS.update({"IoError": "opaque stand-in for std::io::Error"})
ASSUMPTIONS.update({
    "Value": "opaque stand-in for values::Value (not inspected by pop_to_toplevel)",
    "default": "BlockBindings::default() is an empty block",
    "vc_clone": "Clone", "vs_string_eq_lit": "-", "vs_string_eq": "-", "vs_string_from_lit": "-",
})
LEMMAS = {}
UNVERIFIED = {"C10": [
    "the session loops that act on EvalAction::Abort (json_session.rs / cli_session.rs answer \"Aborted\" and read the next request)",
    "that a new evaluation on a stack satisfying the postcondition behaves as in a fresh session (needs the evaluator as a spec)"]}

GLUE = """
#[verifier::external_body] pub struct Value { _o: u8 }
#[verifier::external_body] pub struct IoError { _o: u8 }
// only the tag of commands::Command that selects the extracted arm
pub enum Command { Abort, Other }
"""

CLEAN = """
/// what "a clean top level" means for the evaluator stack after :abort (C10), relative to the stack before
pub open spec fn aborted(before: Seq<StackFrame>, after: Seq<StackFrame>) -> bool {
    (before.len() == 0 ==> after.len() == 0)
    && (before.len() > 0 ==> after.len() == 1
        && after[0].exprs_to_eval@.len() == 0
        && after[0].bindings_next_block@.len() == 0
        && after[0].evalled_values@ =~= prefix1(before[0].evalled_values@)
        && after[0].bindings.block_bindings@ =~= prefix1(before[0].bindings.block_bindings@)
        && after[0].namespace == before[0].namespace && after[0].enclosing_name == before[0].enclosing_name && after[0].type_bindings == before[0].type_bindings)
}
"""

DEFAULT_GLUE = """
impl BlockBindings {
    #[verifier::external_body]
    pub fn default() -> (r: Self) { unimplemented!() }
}
"""

WITNESSES = [
    {"match": r"abort_arm\.", "kind": "json-session", "props": ["C10"],
     "input": ["let x = 1", "if x == 1 { for i in [1, 2, 3] { let x = i * 100 if i == 2 { throw(\"boom\") } } }", "x", ":abort", "x", "i"],
     "expect": {"py": "(lambda tail: ('200' in tail or '\"Ok\": \"2\"' in tail) and 'locals of the aborted evaluation are still visible after :abort: ' + tail[-300:] or '')(out.split('run_command')[-1])"},
     "note": ":abort after inspecting a variable while stopped in a toplevel block must still unwind the block"},
    {"match": r"pop_to_toplevel\.", "kind": "json-session", "props": ["C10"],
     "input": ["let kept = 10", "fun boom(x) { throw(\"stop\") }",
               "if kept > 0 { let kept = 999  let outer_secret = 111  for i in [1, 2, 3] { if i == 2 { boom(i) } } }",
               ":abort", "kept", "outer_secret"],
     "expect": {"py": "('999' in out.split('Aborted')[-1] or '111' in out.split('Aborted')[-1]) and 'locals of the aborted evaluation are still visible: ' + out.split('Aborted')[-1][-400:] or ''"},
     "note": "after :abort, locals of every enclosing top-level block of the aborted evaluation are gone"},
    {"match": r"pop_to_toplevel\.post\[(no_pending|no_next_bindings)\]", "kind": "json-session", "props": ["C10"],
     "input": ["1 + \"a\"", ":abort", ":resume", "2"],
     "expect": {"py": "'panicked' in (out+err) and 'process panicked' or ''"},
     "note": "after :abort nothing of the aborted evaluation may be pending: :resume must not run it on the truncated value stack"},
]


def build(tier):
    u = UnitFile("abort")
    u.raw(common.HEADER)
    u.raw(common.prelude("strings.rs"), kind="prelude")
    u.raw(common.OPAQUE, kind="prelude")
    u.raw(GLUE, kind="prelude")
    common.add_env_full(u)
    u.add_type("src/commands.rs", "EvalAction", subst=[(r"ast::Expression", "Expression")])
    u.add_type("src/commands.rs", "CommandError", subst=[(r"std::io::Error", "IoError")])
    u.raw("pub open spec fn prefix1<T>(s: Seq<T>) -> Seq<T> { if s.len() >= 1 { s.take(1) } else { s } }", kind="spec")
    u.raw(CLEAN, kind="spec")
    # helpers a rewritten pop_to_toplevel may go through
    u.add_fn("src/eval.rs", "push_block", impl="Bindings", contract=Contract(
        ensures=[("one_more", "final(self).block_bindings@.len() == old(self).block_bindings@.len() + 1")], props={"C10"}))
    u.add_fn("src/eval.rs", "pop_block", impl="Bindings", contract=Contract(
        requires=[("at_least_two", "old(self).block_bindings@.len() >= 2")],
        ensures=[("one_less", "final(self).block_bindings@ == old(self).block_bindings@.drop_last()")],
        props={"C10"}))
    u.raw(DEFAULT_GLUE, kind="prelude")
    u.add_fn(ENV, "pop_to_toplevel", impl="Stack", contract=Contract(
        ensures=[
            ("empty_stays_empty", "old(self).0@.len() == 0 ==> final(self).0@.len() == 0"),
            ("one_frame", "old(self).0@.len() > 0 ==> final(self).0@.len() == 1"),
            ("no_pending", "old(self).0@.len() > 0 ==> final(self).0@[0].exprs_to_eval@.len() == 0"),
            ("no_next_bindings", "old(self).0@.len() > 0 ==> final(self).0@[0].bindings_next_block@.len() == 0"),
            ("values_truncated", "old(self).0@.len() > 0 ==> final(self).0@[0].evalled_values@ =~= prefix1(old(self).0@[0].evalled_values@)"),
            ("locals_truncated", "old(self).0@.len() > 0 ==> final(self).0@[0].bindings.block_bindings@ =~= prefix1(old(self).0@[0].bindings.block_bindings@)"),
            ("toplevel_frame_kept", "old(self).0@.len() > 0 ==> final(self).0@[0].namespace == old(self).0@[0].namespace && final(self).0@[0].enclosing_name == old(self).0@[0].enclosing_name && final(self).0@[0].type_bindings == old(self).0@[0].type_bindings"),
        ],
        props={"C10"}))
    # the `:abort` command itself: the Command::Abort arm of run_command (commands.rs), in ANY session state
    u.add_block_fn("src/commands.rs", "run_command", "Command::Abort => {",
                   sig="pub fn abort_arm(env: &mut Env) -> Result<(), CommandError>", name="abort_arm",
                   prefix="match Command::Abort {\n", suffix="\n        _ => {}\n    }\n    Ok(())",
                   contract=Contract(
                       ensures=[("abort_always_cleans_the_stack", "aborted(old(env).stack.0@, final(env).stack.0@)"),
                                ("reports_abort", "r matches Err(CommandError::Action(EvalAction::Abort))"),
                                ("rest_of_env_untouched", "*final(env) == (Env { stack: final(env).stack, ..*old(env) })")],
                       props={"C10"}))
    u.add_canary_proof()
    u.raw(common.FOOTER)
    return u
