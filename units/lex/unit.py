"""Unit `lex`: lex_between, lex (parser/lex.rs), Position::merge (parser/position.rs).
Properties C01 (lexer part) and C23 (lexer tokens, comments, lexer errors, merge)."""
import os
import re
import sys

HERE = os.path.dirname(os.path.abspath(__file__))
ROOT = os.path.dirname(os.path.dirname(HERE))
sys.path.insert(0, os.path.join(ROOT, "vc"))
sys.path.insert(0, os.path.join(ROOT, "units"))
import rewrite as rw  # noqa: E402
from gen import Contract, UnitFile  # noqa: E402
from extract import ExtractError, tokenize, code_tokens  # noqa: E402
import common  # noqa: E402

LEX = "src/parser/lex.rs"
POS = "src/parser/position.rs"
VFS = "src/parser/vfs.rs"
PAR = "src/parser.rs"
DIAG = "src/parser/diagnostics.rs"

RLIMIT = 400
MIN_FUNCTIONS = 3

# the reading of each anchored pattern is tied to its literal text; a changed pattern makes
# the unit undecided (the assumed spec was written for this text)
PATTERNS = {
    "FLOAT_RE": r'^-?[0-9][0-9_]*\.[0-9][0-9_]*',
    "INTEGER_RE": r'^-?[0-9][0-9_]*',
    "STRING_RE": (r'^"(\\"|[^"])*("|\z)', r'^"(\\.|[^"])*("|\z)'),
    "SYMBOL_RE": r'^[a-zA-Z_][a-zA-Z0-9_]*',
}

ASSUMPTIONS = dict(common.FMT_ASSUMPTIONS)
ASSUMPTIONS.update({
    "vc_clone": "Clone/Rc::clone returns a value equal to the original",
    "vs_string_eq_lit": "std String == &str", "vs_string_eq": "std String == String", "vs_string_from_lit": "std to_owned",
    "axiom_cb_ends": "0 and len are char boundaries of every str (std: is_char_boundary)",
    "axiom_char_len": "char::len_utf8 is 1..=4 and is 1 exactly for ASCII",
    "axiom_same_line": "if bytes a..b contain no newline, a and b are on the same line and columns differ by b-a (definition of line/column as line_numbers computes them)",
    "axiom_no_nl_empty": "an empty byte range contains no newline",
    "axiom_no_nl_split": "newline-freeness of adjacent ranges composes",
    "axiom_line_mono": "line numbers are monotone in the byte offset",
    "axiom_ws_empty": "an empty byte range is all-whitespace",
    "axiom_blen_bound": "a str is at most isize::MAX bytes long (Rust allocation limit)",
    "vs_len": "str::len is the byte length",
    "vs_slice_from": "&s[a..] panics unless a <= len and a is a char boundary; result is that sub-slice",
    "vs_slice": "&s[a..b] panics unless a <= b <= len and both are char boundaries; result is that sub-slice",
    "vs_starts_with_char": "str::starts_with(char): on true the char's UTF-8 bytes are a prefix",
    "vs_starts_with_str": "str::starts_with(&str): on true the pattern's bytes are a prefix",
    "vs_starts_with_lit": "str::starts_with(literal); the literal's byte length is computed by the rewriter from the literal text",
    "vs_ends_with_char": "str::ends_with(char) (no property used)",
    "vs_find_char": "str::find(char): byte index of the first occurrence; both ends are char boundaries; no earlier occurrence",
    "vs_first_char": "str::chars().next(): first char, whose UTF-8 length is a char boundary; None iff empty",
    "vc_is_whitespace": "char::is_whitespace (no property used: multi-byte whitespace exists)",
    "vc_len_utf8": "char::len_utf8",
    "vs_split_once_nl": "str::split_once(\"\\n\"): text before the first newline (a prefix, newline-free, strictly shorter)",
    "LinePositions": "opaque line_numbers::LinePositions", "LineNumber": "opaque line_numbers::LineNumber",
    "vlp_new": "LinePositions::from(s) indexes s",
    "from_offset": "LinePositions::from_offset(off) panics if off > len, else returns (0-based line, byte column <= off) (line-numbers 0.4.0 lib.rs:113-141)",
    "as_usize": "LineNumber::as_usize is the line number",
    "ReMatch": "opaque regex::Match", "end": "regex::Match::end", "as_str": "regex::Match::as_str",
    "vre_find_FLOAT_RE": "reading of ^-?[0-9][0-9_]*\\.[0-9][0-9_]*: match starts at 0, is non-empty ASCII without newline, ends on a char boundary, as_str is that prefix",
    "vre_find_INTEGER_RE": "reading of ^-?[0-9][0-9_]*: as FLOAT_RE",
    "vre_find_SYMBOL_RE": "reading of ^[a-zA-Z_][a-zA-Z0-9_]*: as FLOAT_RE",
    "vre_find_STRING_RE": "reading of ^\"(\\\\\"|[^\"])*(\"|\\z): match starts at 0 with a double quote (so non-empty, first byte not newline), ends on a char boundary, as_str is that prefix; MAY contain newlines",
    "PathBuf": "opaque std::path::PathBuf",
    "clone": "derived Clone on VfsPathBuf/Position returns an equal value",
    "vm_max": "std::cmp::max on usize",
    "MessagePart": "opaque MessagePart (message text is irrelevant)",
})

WITNESSES = [
    {"match": r"lex_between\.(safety@pre<vs_slice>|site\[error_pos)", "kind": "check", "props": ["C01", "C23"],
     "input": "let x = 1 \u00e9\n", "expect": {"stdout_contains": "Unrecognized syntax"},
     "note": "a non-ASCII character outside a string must be reported, not crash the lexer"},
    {"match": r"lex_between\.(loop#1\.inv\[char_boundary\]|safety@pre<vs_slice_from>)", "kind": "check", "props": ["C01"],
     "input": "let x = 1\u00a0+ 2\nlet y = \u2003 3\n", "expect": {},
     "note": "multi-byte Unicode whitespace must be skipped whole"},
    {"match": r"lex_between\.(site\[token_pos|loop#1\.inv\[tokens_ok\]|post\[tokens_ok\])", "kind": "check-json", "props": ["C23"],
     "input": "fun f() {\n  \"a\nb\"\n  1\n}\n",
     "expect": {"stdout_contains": "\"line_number\":2,\"end_line_number\":3,\"column\":2,\"end_column\":2"},
     "note": "a string literal spanning two lines ends on the line of its closing quote"},
    {"match": r"lex_between\.(site\[token_pos|loop#1\.inv\[tokens_ok\]|post\[tokens_ok\])", "kind": "check-json", "props": ["C23"],
     "input": "fun f() {\n  \"a\n \u00e9\"\n  1\n}\n",
     "expect": {"stdout_contains": "\"line_number\":2,\"end_line_number\":3,\"column\":2,\"end_column\":4"},
     "note": "columns are byte columns: a 2-byte character on the last line of a multi-line string counts as 2"},
    {"match": r"lex_between\.(site\[error_pos|loop#1\.inv\[errors_ok\])", "kind": "check-json", "props": ["C23"],
     "input": "let x = 1 \u00e9\n",
     "expect": {"stdout_contains": "\"column\":10,\"end_column\":12"},
     "note": "the error span of a 2-byte character covers both bytes"},
    {"match": r"lex_between\.(site\[|loop#1\.inv|post\[)", "kind": "session-positions", "props": ["C23"], "input": None, "expect": {},
     "note": "every position reported for the listed inputs agrees with its offsets"},
    {"match": r"lex_between\.loop#1\.decreases", "kind": "check", "props": ["C01"], "timeout": 10,
     "input": "let x = 1 // c\n\"abc\n", "expect": {}},
]

# C23 bounded stand-in: runtime errors raised at chosen tokens; every reported Position is validated against
# the source bytes (vc/replay.py kind session-positions)
POSITION_CORPUS = [
    'nosuch_a(1)\n',
    '"a\nb" nosuch_b(1)\n',
    '"a\n\nb" + nosuch_c\n',
    'let s = "x\ny"  nosuch_d()\n',
    '"\u00e9\nq" nosuch_e()\n',
    '// comment \u00e9\nnosuch_f()\n',
    '// c1\n// c2\n"m\nn" /* */ nosuch_g()\n'.replace(' /* */', ''),
    '"\U0001F600" nosuch_h()\n',
    '\u00a0 nosuch_i()\n',
    '"one" "two\nthree" "four\nfive" nosuch_j()\n',
    'let t = (1, "p\nq")  nosuch_k()\n',
    '[1, 2,\n 3].nosuch_method()\n',
    '1 + "s\nt" + nosuch_l\n',
    'assert("u\nv" == nosuch_m)\n',
    '"a\nb" // trailing \u00e9\nnosuch_n()\n',
    '\n\n   "w\n\tx"\t\tnosuch_o()',
    # escapes inside multi-line strings: an invalid escape is reported with the position of the whole literal
    'let s = "caf\u00e9 \\q\nau lait"\n',
    'let s = "caf\u00e9 \\\\\nau \\q lait"\n',
    'let s = "caf\u00e9 \\\nau lait"\n',
    'let s = "one \\\ntwo \\\nthree" nosuch_p()\n',
    '"x\\\n" nosuch_q()\n',
]
BOUNDED = [
    {"name": "quick_fix_ranges", "kind": "lsp-fix-ranges", "props": ["C23"], "input": common.LSP_FIX_PROGRAMS, "n_inputs": len(common.LSP_FIX_PROGRAMS), "bound": common.LSP_FIX_BOUND, "expect": {}},
    {"name": "position_corpus", "kind": "session-positions", "props": ["C23"], "input": POSITION_CORPUS, "n_inputs": len(POSITION_CORPUS),
     "bound": "%d listed inputs (a failing expression after multi-line strings, comments, multi-byte characters, tabs, blank lines, on the string's last line): every reported position must agree with its offsets" % len(POSITION_CORPUS),
     "expect": {}},
]

for _w in WITNESSES:
    if _w.get("kind") == "session-positions":
        _w["input"] = POSITION_CORPUS

LEMMAS = {}
UNVERIFIED = {
    "C01": ["parse_toplevel_items_from_span's callers: lex_between's precondition `offset is a char boundary, offset <= end_offset <= len` is pushed to them; the two JSON-session handlers that take the offsets from a request establish it (unit reqspan, C09); the other callers pass 0 and the length of the text, 0 and the start offset of an expression of the same text (extract_function.rs), or offsets found by searching the text for code-block fences (run_code_blocks.rs)",
            "checks.rs / checks/type_checker.rs / format.rs / main.rs dispatch: a panic introduced there is not seen",
            "native stack overflow on deeply nested input"],
    "C23": ["positions produced by the parser other than through Position::merge; runtime exception positions; LSP conversions",
            "CheckDiagnostic line/column export (syntax_check.rs)"],
}

GLUE = """
#[verifier::external_body] pub struct PathBuf { _o: u8 }
#[verifier::external_body] pub struct MessagePart { _o: u8 }
#[verifier::external_body]
pub fn vm_max(a: usize, b: usize) -> (r: usize)
    ensures r == (if a >= b { a } else { b }),
{ std::cmp::max(a, b) }
"""

CLONE_GLUE = """
impl Clone for VfsPathBuf {
    #[verifier::external_body]
    fn clone(&self) -> (r: Self) ensures r == *self { unimplemented!() }
}
impl Clone for Position {
    #[verifier::external_body]
    fn clone(&self) -> (r: Self) ensures r == *self { unimplemented!() }
}
"""


def lit_len(lit):
    """byte length of a Rust string literal (simple escapes only)"""
    body = lit[1:-1]
    body = re.sub(r"\\\\(n|t|r|0|\\\\|\"|')", "x", body)
    return len(body.encode("utf-8"))


def _starts_with(m):
    recv, arg = m.group(1), m.group(2).strip()
    if arg.startswith('"'):
        return "vs_starts_with_lit(%s, %s, %d, %s)" % (recv, arg, lit_len(arg), "true" if "\\n" in arg else "false")
    if arg.startswith("'") or arg.startswith("*"):
        return "vs_starts_with_char(%s, %s)" % (recv, arg)
    return "vs_starts_with_str(%s, %s)" % (recv, arg)


STR_RULES = [
    rw.simple("R1", r"&(\w+)\[(\w+)\.\.\]", r"vs_slice_from(\1, \2)"),
    rw.simple("R1", r"&(\w+)\[0\.\.([^\]]+)\]", r"vs_slice(\1, 0, \2)"),
    rw.simple("R2", r"\b(\w+)\.starts_with\(([^()]*)\)", _starts_with),
    rw.simple("R2", r"\b(\w+)\.ends_with\(('[^']*')\)", r"vs_ends_with_char(\1, \2)"),
    rw.simple("R2", r"\b(\w+)\.find\(('(?:\\.|[^'])')\)", r"vs_find_char(\1, \2)"),
    rw.simple("R2", r"\b(\w+)\.chars\(\)\.next\(\)", r"vs_first_char(\1)"),
    rw.simple("R2", r"\b(\w+)\.is_whitespace\(\)", r"vc_is_whitespace(\1)"),
    rw.simple("R2", r"\b(\w+)\.len_utf8\(\)", r"vc_len_utf8(\1)"),
    rw.simple("R2", r"\b(\w+)\.split_once\(\"\\n\"\)", r"vs_split_once_nl(\1)"),
    rw.simple("R2", r"\b(s|token_str|text_content|text)\.len\(\)", r"vs_len(\1)"),
    rw.simple("R3", r"\b(FLOAT_RE|INTEGER_RE|STRING_RE|SYMBOL_RE)\.find\((\w+)\)", r"vre_find_\1(\2)"),
    rw.simple("R2", r"LinePositions::from\((\w+)\)", r"vlp_new(\1)"),
    rw.simple("R11", r"Rc::clone\(&([\w\.]+)\)", r"vc_clone(&\1)"),
]


def table_accessors(u):
    """Literal tables TWO_CHAR_OPERATORS etc.: accessor functions whose facts (length; each
    entry non-empty ASCII without newline) are computed HERE from the literal text."""
    src = u.source(LEX)
    out = []
    for name, kind in (("TWO_CHAR_OPERATORS", "str"), ("TWO_CHAR_TOKENS", "str"),
                       ("ONE_CHAR_OPERATORS", "char"), ("ONE_CHAR_TOKENS", "char")):
        it = src.find_const(name)
        toks = code_tokens(tokenize(it.text))
        lits = [t.text for t in toks if t.kind == ("str" if kind == "str" else "char")]
        if not lits:
            raise ExtractError("table %s has no literal entries" % name)
        n = len(lits)
        u.items.append({"name": name, "generated_as": name + "_get", "kind": "const-table",
                        "where": it.where, "sha256_16": it.sha(), "skeleton": ""})
        if kind == "str":
            vals = [eval(l) for l in lits]  # simple Rust/Python-compatible literals
            ok_ascii = all(all(ord(ch) < 128 for ch in v) for v in vals)
            ok_nonempty = all(len(v) > 0 for v in vals)
            ok_nonl = all("\n" not in v for v in vals)
            ens = []
            if ok_nonempty:
                ens.append("blen(*r) > 0")
            if ok_nonl:
                ens.append("no_nl(*r, 0, blen(*r) as int)")
            out.append("""
pub open spec fn %s_n() -> nat { %d }
#[verifier::external_body]
pub fn %s_len() -> (r: usize) ensures r == %d { unimplemented!() }
#[verifier::external_body]
pub fn %s_get(i: usize) -> (r: &'static &'static str)
    requires i < %d,
    ensures %s,
{ unimplemented!() }
""" % (name, n, name, n, name, n, ", ".join(ens) if ens else "true"))
        else:
            vals = [eval(l) for l in lits]
            ok_ascii = all(ord(v) < 128 for v in vals)
            ok_nonl = all(v != "\n" for v in vals)
            ens = []
            if ok_ascii:
                ens.append("(*r as u32) < 128")
            if ok_nonl:
                ens.append("*r != '\\n'")
            out.append("""
pub open spec fn %s_n() -> nat { %d }
#[verifier::external_body]
pub fn %s_len() -> (r: usize) ensures r == %d { unimplemented!() }
#[verifier::external_body]
pub fn %s_get(i: usize) -> (r: &'static char)
    requires i < %d,
    ensures %s,
{ unimplemented!() }
""" % (name, n, name, n, name, n, ", ".join(ens) if ens else "true"))
        ASSUMPTIONS[name + "_len"] = "length of literal table %s, computed by the extractor from the literal text" % name
        ASSUMPTIONS[name + "_get"] = "entries of literal table %s: facts (non-empty / ASCII / no newline) computed by the extractor from the literal text; omitted if they do not hold" % name
    return "".join(out)


def regex_specs(u):
    src = u.source(LEX)
    out = []
    for name, want in PATTERNS.items():
        m = re.search(r"static\s+ref\s+%s\s*:\s*Regex\s*=\s*Regex::new\(r#?\"(.*?)\"#?\)\.unwrap\(\)" % name, src.text)
        if not m:
            raise ExtractError("regex %s not found in lex.rs" % name)
        if m.group(1) not in (want if isinstance(want, tuple) else (want,)):
            raise ExtractError("regex %s is now %r; the assumed reading was written for %r" % (name, m.group(1), want))
        extra = "fb_not_nl(rm_str(&r->Some_0))" if name == "STRING_RE" else "no_nl(s, 0, rm_end(&r->Some_0) as int)"
        out.append("""
#[verifier::external_body]
pub fn vre_find_%s<'a>(s: &'a str) -> (r: Option<ReMatch<'a>>)
    ensures r is Some ==> (re_match_ok(&r->Some_0, s) && %s),
{ unimplemented!() }
""" % (name, extra))
    return "".join(out)


INV = [
    ("bounds", "offset <= blen(src), end_offset <= blen(src)", {"C01"}),
    ("char_boundary", "is_cb(src, offset as int)", {"C01"}),
    ("lp", "lp_src(&lp) == src", {"C01", "C23"}),
    ("tokens_ok", "toks_ok(src, tokens@)", {"C23"}),
    ("tokens_in_source_order", "toks_sorted(tokens@), toks_upto(tokens@, offset as int)", {"C23", "C17"}),
    ("comments_ok", "comments_ok(src, preceding_comments@)", {"C23"}),
    ("errors_ok", "errs_ok(src, errors@)", {"C23"}),
]
INNER = [("s_is_rest", "is_sub(s, src, offset as int, blen(src) as int), offset < end_offset")]


DEFINITION_PROGRAMS = [
    # a leading byte order mark (three bytes that are part of the file)
    "\ufeff// a comment\nfun helper(): Int {\n  1\n}\n\nfun main(): Int {\n  let value = helper()\n  value + helper()\n}\n",
    "\ufefflet first = 1\nlet second = first + 1\nfun f(p: Int): Int { p + second }\n",
    # multi-byte characters and multi-line strings before the definitions and the uses
    "let s = \"\u00e9\U0001F600\nb\"  let t = s\nfun g(x: String): String {\n  x ^ t ^ s\n}\n// \u4e16\u754c\nlet u = g(t)\n",
    "\t\tfun tabbed(a: Int): Int {\n\t\t\ta\n\t\t}\n\u00a0let r = tabbed(1)\n",
]
BOUNDED.append({"name": "definition_positions", "kind": "definition-positions", "props": ["C23"], "input": DEFINITION_PROGRAMS, "n_inputs": len(DEFINITION_PROGRAMS), "timeout": 300,
                "bound": "%d listed files (a leading byte order mark, multi-byte characters, multi-line strings, tabs): go-to-definition at every identifier; every position printed for the file lies inside it on character boundaries, names an identifier, and its line / column agree with its offsets" % len(DEFINITION_PROGRAMS),
                "expect": {}})
WITNESSES.append({"match": r"lex\.", "kind": "definition-positions", "props": ["C23"], "input": DEFINITION_PROGRAMS, "timeout": 300, "expect": {},
                  "note": "go-to-definition positions in files with a byte order mark and multi-byte text"})
import findings  # noqa: E402
BOUNDED.append({"name": "position_finding:parse_error_of_an_imported_file", "kind": "check-json", "props": ["C23"], "n_inputs": 1, "filename": "main.gdn",
                "input": findings.C23_IMPORT_MAIN, "extra_files": {"lib.gdn": findings.C23_IMPORT_LIB}, "expect": {"py": findings.C23_IMPORT_ORACLE},
                "bound": "one project: a one-line main.gdn that imports a file with a parse error on its line 8: every position `garden check --json main.gdn` reports lies inside main.gdn"})


def build(tier):
    u = UnitFile("lex")
    u.raw(common.HEADER)
    u.raw(common.prelude("strings.rs"), kind="prelude")
    u.raw(common.prelude("str.rs"), kind="prelude")
    u.raw(GLUE, kind="prelude")
    u.add_type(VFS, "VfsId")
    u.add_type(VFS, "VfsPathBuf")
    u.add_type(POS, "Position")
    u.add_type(DIAG, "ErrorMessage")
    u.add_type(PAR, "ParseError")
    u.add_type(LEX, "Token")
    u.add_type(LEX, "TokenStream")
    u.raw(CLONE_GLUE, kind="prelude")
    u.raw(common.FMT, kind="prelude")
    u.raw(table_accessors(u), kind="prelude")
    u.raw(regex_specs(u), kind="prelude")
    u.raw(open(os.path.join(HERE, "specs.rs")).read(), kind="spec")

    both = {"C01", "C23"}
    iso = ["#[verifier::loop_isolation(false)]"]
    u.add_fn(LEX, "lex_between", rules=["R7"] + STR_RULES + [common.r9], contract=Contract(
        requires=[("range", "offset <= end_offset <= blen(s)"), ("start_boundary", "is_cb(s, offset as int)")],
        ensures=[("tokens_ok", "toks_ok(s, r.0.tokens@)", {"C23"}), ("trailing_ok", "comments_ok(s, r.0.trailing_comments@)", {"C23"}),
                 ("errors_ok", "errs_ok(s, r.1@)", {"C23"}), ("idx0", "r.0.idx == 0", {"C01"}),
                 ("tokens_in_source_order", "toks_sorted(r.0.tokens@)", {"C23", "C17"})],
        safety_props={"C01"},
        hints=[("let mut offset = offset;", "after", "let ghost src: &str = s;"),
               dict(anchor="tokens.push(Token {", where="after_stmt", nth="all", name="token_pos",
                    text="assert(tok_ok(src, tokens@.last()));", props={"C23"}),
               dict(anchor="errors.push(ParseError::Invalid {", where="after_stmt", nth="all", name="error_pos",
                    text="assert(err_ok(src, errors@.last()));", props={"C23"}),
               dict(anchor="preceding_comments.push((", where="after_stmt", nth="all", name="comment_pos",
                    text="assert(pos_ok(src, preceding_comments@.last().0));", props={"C23"}),
               ],
        loops={
            1: dict(attrs=iso, invariant=INV, decreases="blen(src) - offset"),
            2: dict(attrs=iso, invariant=[("idx", "__i1 <= TWO_CHAR_OPERATORS_n() + TWO_CHAR_TOKENS_n()")] + INNER + INV,
                    decreases="TWO_CHAR_OPERATORS_n() + TWO_CHAR_TOKENS_n() - __i1"),
            3: dict(attrs=iso, invariant=[("idx", "__i2 <= ONE_CHAR_OPERATORS_n() + ONE_CHAR_TOKENS_n()")] + INNER + INV,
                    decreases="ONE_CHAR_OPERATORS_n() + ONE_CHAR_TOKENS_n() - __i2"),
        },
        props=both))
    u.add_fn(LEX, "lex", rules=STR_RULES, contract=Contract(
        ensures=[("tokens_ok", "toks_ok(s, r.0.tokens@)", {"C23"}), ("errors_ok", "errs_ok(s, r.1@)", {"C23"})],
        safety_props={"C01"}, props=both))
    u.add_fn(POS, "merge", impl="Position",
             rules=[rw.simple("R2", r"std::cmp::max\(", "vm_max("), rw.simple("R11", r"Rc::clone\(&([\w\.]+)\)", r"vc_clone(&\1)")],
             contract=Contract(
                 ensures=[("merge_ok", "forall|s: &str| pos_ok(s, *first) && pos_ok(s, *second) ==> pos_ok(s, r)")],
                 props={"C23"}))
    u.add_canary_proof()
    u.raw(common.FOOTER)
    return u
