// ---- units/lex/specs.rs: what "a consistent source position" means (C23) and the lexer's
// result invariant (C01/C23).  Written from the property statements. -----------------------

/// C23: inside the file, on character boundaries, line/column agree with the byte offsets,
/// the end line is the line containing the end offset.
pub open spec fn pos_ok(s: &str, p: Position) -> bool {
    &&& p.start_offset <= p.end_offset <= blen(s)
    &&& is_cb(s, p.start_offset as int)
    &&& is_cb(s, p.end_offset as int)
    &&& p.line_number == line_of(s, p.start_offset as int)
    &&& p.column == col_of(s, p.start_offset as int)
    &&& p.end_line_number == line_of(s, p.end_offset as int)
    &&& p.end_column == col_of(s, p.end_offset as int)
}

pub open spec fn comments_ok<'a>(s: &str, cs: Seq<(Position, &'a str)>) -> bool {
    forall|i: int| 0 <= i < cs.len() ==> pos_ok(s, (#[trigger] cs[i]).0)
}

pub open spec fn tok_ok<'a>(s: &str, t: Token<'a>) -> bool {
    &&& pos_ok(s, t.position)
    &&& t.position.start_offset < t.position.end_offset
    &&& is_sub(t.text, s, t.position.start_offset as int, t.position.end_offset as int)
    &&& comments_ok(s, t.preceding_comments@)
}

pub open spec fn toks_ok<'a>(s: &str, ts: Seq<Token<'a>>) -> bool {
    forall|i: int| 0 <= i < ts.len() ==> tok_ok(s, #[trigger] ts[i])
}

pub open spec fn err_ok(s: &str, e: ParseError) -> bool {
    match e {
        ParseError::Invalid { position, .. } => pos_ok(s, position),
        ParseError::Incomplete { position, .. } => pos_ok(s, position),
    }
}

pub open spec fn errs_ok(s: &str, es: Seq<ParseError>) -> bool {
    forall|i: int| 0 <= i < es.len() ==> err_ok(s, #[trigger] es[i])
}

/// the tokens are in source order and do not overlap (C17/C23: consumers build text edits from the gaps between them)
pub open spec fn toks_sorted<'a>(ts: Seq<Token<'a>>) -> bool {
    forall|i: int, j: int| #![trigger ts[i], ts[j]] 0 <= i < j < ts.len() ==> ts[i].position.end_offset <= ts[j].position.start_offset
}
pub open spec fn toks_upto<'a>(ts: Seq<Token<'a>>, o: int) -> bool {
    forall|i: int| 0 <= i < ts.len() ==> (#[trigger] ts[i]).position.end_offset <= o
}
