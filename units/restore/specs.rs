// ---- units/restore/specs.rs (C07): a failed step must hand back exactly the values it popped,
// in the order that rebuilds the value stack.  eval_call / eval_method_call pop the arguments
// (last pushed first) into arg_values and then the receiver, so the stack before the step was
//      ... , receiver, arg_values[n-1], ..., arg_values[0]
// and the values to push back are  [receiver] ++ reverse(arg_values). -----------------------

/// arg_values[n-1], ..., arg_values[i]  (the reversed suffix from i)
pub open spec fn rev_from(args: Seq<Value>, i: int) -> Seq<Value> {
    Seq::new((args.len() - i) as nat, |k: int| args[args.len() - 1 - k])
}

pub open spec fn restore_of_call(receiver: Value, args: Seq<Value>) -> Seq<Value> {
    seq![receiver] + rev_from(args, 0)
}
