"""Unit `restore`: restore_stack_frame, check_arity, check_string, and every `saved_values`
builder in eval_built_in_call / eval_built_in_method_call / eval_call / eval_method_call.  C07 (+C02)."""
import os
import re
import sys

HERE = os.path.dirname(os.path.abspath(__file__))
ROOT = os.path.dirname(os.path.dirname(HERE))
sys.path.insert(0, os.path.join(ROOT, "vc"))
sys.path.insert(0, os.path.join(ROOT, "units"))
import rewrite as rw  # noqa: E402
from gen import Contract, UnitFile  # noqa: E402
from extract import ExtractError, Item, match_close  # noqa: E402
import common  # noqa: E402

EV = "src/eval.rs"
ENV = "src/env.rs"
RLIMIT = 100
MIN_FUNCTIONS = 20
HOSTS = ["eval_built_in_call", "eval_built_in_method_call", "eval_call", "eval_method_call"]

ASSUMPTIONS = dict(common.OPAQUE_ASSUMPTIONS)
ASSUMPTIONS.update(common.FMT_ASSUMPTIONS)
ASSUMPTIONS.update(common.ENV_OPAQUE_ASSUMPTIONS)
ASSUMPTIONS.update(common.ENV_STRUCT_ASSUMPTIONS)
ASSUMPTIONS.update(common.AST_OPAQUE_ASSUMPTIONS)
ASSUMPTIONS.update({
    "vc_clone": "Clone", "vs_string_eq_lit": "-", "vs_string_eq": "-", "vs_string_from_lit": "-",
    "Value": "opaque stand-in for values::Value (never inspected by the builders)",
    "clone": "Value::clone (Rc clone) returns an equal value; Position/SymbolName clone likewise",
    "Type": "opaque stand-in", "TypeNameLit": "-", "default": "BlockBindings::default() is an empty block",
    "format_type_error": "format_type_error returns some ErrorMessage and does not panic",
    "from_hint": "Type::from_hint returns some Result", "check_type": "check_type returns some Result",
    "is_string": "abstraction of `match value.as_ref() { Value_::String(s) => .. }` in check_string: not used",
})
LEMMAS = {}
UNVERIFIED = {
    "C07": ["that eval()/the session re-run exactly the restored step (json_session.rs :resume plumbing)",
            "error paths that do not go through a `saved_values` builder (literal RestoreValues(vec![..]) in the operator and control-flow functions) — second wave",
            "equality of the re-raised error's message and position"],
    "C02": ["only check_arity's index `arg_positions[expected]` is covered here"],
}

GLUE = """
#[verifier::external_body] pub struct Value { _o: u8 }
impl Clone for Value {
    #[verifier::external_body]
    fn clone(&self) -> (r: Self) ensures r == *self { unimplemented!() }
}
impl Clone for Position {
    #[verifier::external_body]
    fn clone(&self) -> (r: Self) ensures r == *self { unimplemented!() }
}
"""

GLUE2 = """
#[verifier::external_body] pub struct Type { _o: u8 }
#[verifier::external_body]
pub fn format_type_error<T>(expected: &T, value: &Value, env: &Env) -> (r: ErrorMessage) { unimplemented!() }
impl Clone for SymbolName {
    #[verifier::external_body]
    fn clone(&self) -> (r: Self) ensures r == *self { unimplemented!() }
}
impl BlockBindings {
    #[verifier::external_body]
    pub fn default() -> (r: Self) { unimplemented!() }
}
impl Value {
    // abstraction of `match value.as_ref() { Value_::String(s) => Ok(s), _ => .. }`
    #[verifier::external_body]
    pub fn is_string(&self) -> (r: Option<&String>) { unimplemented!() }
}
pub struct TypeNameLit { pub text: String }
"""

GLUE3 = """
impl Type {
    #[verifier::external_body]
    pub fn from_hint(hint: &TypeHint, types: &OpaqueMap<TypeName, TypeDefAndMethods>, type_bindings: &TypeVarEnv) -> (r: Result<Type, String>) { unimplemented!() }
}
#[verifier::external_body]
pub fn check_type(value: &Value, expected: &Type, env: &Env) -> (r: Result<(), ErrorMessage>) { unimplemented!() }
"""

# check_string looks inside the value (`match value.as_ref() { Value_::String(s) => Ok(s), _ => ..`);
# Value is opaque in this unit, so the scrutinee and the String arm are abstracted (unit-local rule)
STRING_MATCH = rw.simple("local", r"match value\.as_ref\(\) \{\s*Value_::String\(s\) => Ok\(s\),\s*_ =>",
                         "match value.is_string() { Some(s) => Ok(s), None =>")

WITNESSES = [
    {"match": r"restore\.", "kind": "resume-corpus", "props": ["C07"], "input": None, "expect": {},
     "note": "a failing step followed by :resume must reproduce the same error"},
    {"match": r"restore\.check_param_types", "kind": "json-session", "props": ["C07"],
     "input": ["fun f(x: Foo) { x }", "f(1)", ":resume", ":resume"],
     "expect": {"py": "('panicked' in out+err or out.count('Unbound type in hint') < 3) and 'resume after an unbound-type error did not reproduce it: ' + (out+err)[-300:] or ''"},
     "note": "an error raised while checking parameter types must be resumable"},
    {"match": r"restore\.check_param_types", "kind": "json-session", "props": ["C07"],
     "input": ["fun label(name: String, count: Int) { name }", "label(3, \"apples\")", ":resume", ":resume"],
     "expect": {"py": "(out.count('Expected `String` but `3`') < 3) and 'resuming changed the failing argument: ' + out[-400:] or ''"},
     "note": "resuming a failed parameter type check must re-run the call with the arguments in the same order"},
    {"match": r"restore\.site_fn_PreludePrint(ln)?_", "kind": "json-session", "props": ["C07"],
     "input": ["print(1)", ":resume", ":resume"],
     "expect": {"py": "(out.count('Expected `String`') < 3 or 'Expected `Function`' in out or 'panicked' in out+err) and 'resuming did not reproduce the same error: ' + out[-300:] or ''"},
     "note": "print(1) fails with a type error; resuming must fail with the same error again"},
]

# C07 bounded stand-in (vc/replay.py kind resume-corpus): a failing step, then `:resume` twice: same error each time
RESUME_CORPUS = [
    {"what": "built-in function type error", "session": ["print(1)"]},
    {"what": "built-in function after a successful call", "session": ["println(\"ok\")", "println(2)"]},
    {"what": "built-in method range error after a successful call of the same method", "session": ["\"hello\".substring(0, 2)", "\"abc\".substring(2, 1)"]},
    {"what": "built-in method type error after a successful call of the same method", "session": ["[1, 2, 3].slice(0, 1)", "[4, 5].slice(\"a\", 1)"]},
    {"what": "no such method after a successful method call on the same type", "session": ["[1].len()", "[2, 3].nosuch()"]},
    {"what": "user function arity error after a successful call", "session": ["fun two(a: Int, b: Int): Int { a + b }", "two(1, 2)", "two(5)"]},
    {"what": "user function parameter type error after a successful call", "session": ["fun label(name: String, count: Int): String { name }", "label(\"a\", 1)", "label(3, \"apples\")"]},
    {"what": "user method arity error after a successful call", "session": ["method twice(this: Int, by: Int): Int { this * by }", "2.twice(3)", "4.twice()"]},
    {"what": "closure call with a wrong argument count", "session": ["let f = fun(x: Int) { x }", "f(1)", "f(1, 2)"]},
    {"what": "integer operator on a string", "session": ["1 + 2", "3 + \"x\""]},
    {"what": "comparison of mixed types", "session": ["1 < 2", "3 < \"x\""]},
    {"what": "division by zero in a nested expression", "session": ["10 / 2", "(7 + 1) / (2 - 2)"]},
    {"what": "error inside a callee, resumed in the callee", "session": ["fun inner(x: Int): Int { x / 0 }", "fun outer(y: Int): Int { inner(y) + 1 }", "outer(1)"], "resumes": 2},
    {"what": "string method with a wrong receiver after success", "session": ["\"a,b\".split(\",\")", "\"c\".split(1)"]},
    {"what": "assert failure on a comparison", "session": ["assert(1 == 1)", "assert(1 == 2)"]},
    {"what": "assert failure on an ordering", "session": ["assert(1 < 0)"]},
    {"what": "assert on a plain False", "session": ["assert(False)"]},
    {"what": "`for` over a non-list", "session": ["fun t1() { for x in 1 { 2 } }", "t1()"]},
    {"what": "`for` destructuring a non-tuple element", "session": ["fun t2() { for (a, b) in [1] { a } }", "t2()"]},
    {"what": "`for` destructuring a tuple of the wrong size, second element", "session": ["fun t3() { for (a, b) in [(1, 2), (1, 2, 3)] { a } }", "t3()"]},
    {"what": "`match` on a non-enum", "session": ["match 1 { Some(x) => x }"]},
    {"what": "`match` with no matching case", "session": ["match Some(1) { None => 2 }"]},
    {"what": "dict literal with a non-string key after string keys", "session": ["Dict[\"a\" => 1, 2 => 3, \"c\" => 4]"]},
    {"what": "struct literal with a wrong field type", "session": ["struct P { x: Int, y: Int }", "P{ x: 1, y: \"a\" }"]},
    {"what": "struct literal with an unknown field", "session": ["struct Q { x: Int, y: Int }", "Q{ x: 1, z: 2 }"]},
    {"what": "struct literal with a missing field", "session": ["struct R { x: Int, y: Int }", "R{ x: 1 }"]},
    {"what": "unbound return type hint", "session": ["fun f(): Nosuch { 1 }", "f()"], "resumes": 3},
    {"what": "wrong return type", "session": ["fun g(): String { 1 }", "g()"], "resumes": 3},
    {"what": "`if` / `while` on a non-Bool", "session": ["if 1 { 2 }"]},
    {"what": "let with a wrong annotation", "session": ["let x: Int = \"a\""]},
    {"what": "destructuring let of the wrong size", "session": ["let (a, b) = (1, 2, 3)"]},
    {"what": "field access on a non-struct", "session": ["1.field"]},
    {"what": "string concatenation with an Int", "session": ["\"a\" ^ 1"]},
    {"what": "float operator on a string", "session": ["1.5 +. \"a\""]},
    {"what": "`+=` on a String variable at the toplevel", "session": ["let s = \"a\"", "s += 1"]},
    {"what": "`+=` with a String right-hand side", "session": ["let n = 1", "n += \"x\""]},
    {"what": "`+=` on a String parameter inside a loop in a callee", "session": ["fun tally(label, xs) { for x in xs { label += x } label }", "tally(\"total\", [1, 2, 3])"], "resumes": 3},
    {"what": "`-=` on an unbound variable", "session": ["fun dec() { nosuch -= 1 }", "dec()"]},
    {"what": "assignment to an unbound variable", "session": ["fun asg() { nosuch = 1 }", "asg()"]},
]
BOUNDED = [
    {"name": "resume_corpus", "kind": "resume-corpus", "props": ["C07"], "input": RESUME_CORPUS, "n_inputs": len(RESUME_CORPUS),
     "bound": "%d listed sessions (built-in functions and methods, user functions, methods and closures, operators; each failing after an earlier successful call of the same callee): the failing step and two `:resume`s must report the same message and position" % len(RESUME_CORPUS),
     "expect": {}},
]

WITNESSES[0]["input"] = RESUME_CORPUS


def builder_sites(src, host):
    """All `let mut saved_values ...` builders of one host function: the `let` statement and the
    immediately following statements that push into it (a `for` over arg_values, pushes)."""
    toks = src.toks
    idx = [k for k, t in enumerate(toks) if host.start <= t.start < host.end]
    sites = []
    for k in idx:
        if not (toks[k].text == "let" and toks[k + 1].text == "mut" and toks[k + 2].text == "saved_values"):
            continue
        # end of the let statement
        j = k
        depth = 0
        while True:
            u = toks[j]
            if u.kind == "punct":
                if u.text in "([{":
                    depth += 1
                elif u.text in ")]}":
                    depth -= 1
                elif u.text == ";" and depth == 0:
                    break
            j += 1
        end = j
        # following statements
        while True:
            n = end + 1
            if toks[n].text == "for":
                # for .. { body }
                b = n
                while toks[b].text != "{":
                    b += 1
                close = match_close(toks, b)
                body = src.text[toks[b].start:toks[close].end]
                if "saved_values.push" in body:
                    end = close
                    continue
                break
            if toks[n].text == "saved_values" and toks[n + 1].text == "." and toks[n + 2].text == "push":
                m = n
                depth = 0
                while True:
                    u = toks[m]
                    if u.kind == "punct":
                        if u.text in "([{":
                            depth += 1
                        elif u.text in ")]}":
                            depth -= 1
                        elif u.text == ";" and depth == 0:
                            break
                    m += 1
                end = m
                continue
            break
        # arm name: nearest preceding `BuiltIn(Function|Method)Kind::X =>` inside the host
        head = src.text[host.start:toks[k].start]
        arms = re.findall(r"BuiltIn(?:Function|Method)Kind::(\w+)\s*(?:\|[^=]*)?=>", head)
        arm = arms[-1] if arms else host.name
        sites.append((arm, Item(src, "block", "%s:%s" % (host.name, arm), toks[k].start, toks[end].end)))
    return sites


def build(tier):
    u = UnitFile("restore")
    u.raw(common.HEADER)
    u.raw(common.prelude("strings.rs"), kind="prelude")
    u.raw(common.OPAQUE, kind="prelude")
    u.raw(GLUE, kind="prelude")
    common.add_error_types(u)
    u.raw(common.FMT, kind="prelude")
    common.add_env_full(u, real_typename=True)
    u.raw(common.TOP_SPEC, kind="spec")
    u.raw(open(os.path.join(HERE, "specs.rs")).read(), kind="spec")
    u.raw(GLUE2, kind="prelude")
    both = {"C07", "C02"}
    common.add_env_accessors(u, {"C07"}, both)
    rw.ITER_BY_VALUE_OK.add("evalled_values")
    u.add_fn(EV, "restore_stack_frame", rules=["R4"], contract=Contract(
        requires=[("nonempty", "old(env).stack.0@.len() >= 1")],
        ensures=[("values_back", "top(*final(env)).evalled_values@ =~= top(*old(env)).evalled_values@ + evalled_values@"),
                 ("step_back", "top(*final(env)).exprs_to_eval@ =~= top(*old(env)).exprs_to_eval@.push(expr_to_eval)"),
                 ("blocks_same", "top(*final(env)).bindings == top(*old(env)).bindings"),
                 ("others", "final(env).stack.0@.len() == old(env).stack.0@.len() && final(env).stack.0@.drop_last() == old(env).stack.0@.drop_last()")],
        loops={1: dict(invariant=[
            ("prefix", "__i1 <= evalled_values@.len(), old(env).stack.0@.len() >= 1, env.stack.0@.len() == old(env).stack.0@.len(), env.stack.0@.drop_last() == old(env).stack.0@.drop_last()"),
            ("pushed", "top(*env).evalled_values@ =~= top(*old(env)).evalled_values@ + evalled_values@.take(__i1 as int)"),
            ("same", "top(*env).exprs_to_eval == top(*old(env)).exprs_to_eval && top(*env).bindings == top(*old(env)).bindings")],
            decreases="evalled_values@.len() - __i1")},
        props={"C07"}))
    u.add_fn(EV, "check_arity", rules=["R4", "R6", common.r9], contract=Contract(
        requires=[("same_len", "arg_positions@.len() == arg_values@.len()")],
        ensures=[("ok_means_arity", "r is Ok <==> arg_values@.len() == expected", both),
                 ("restores_call", "r is Err ==> r->Err_0.0.0@ =~= restore_of_call(*receiver_value, arg_values@)", {"C07"})],
        hints=[dict(anchor="let mut saved_values", where="after_stmt", text="let ghost init = saved_values@;")],
        loops={1: dict(invariant=[("built", "{I} <= arg_values@.len(), saved_values@ =~= init + rev_from(arg_values@, {I} as int)")],
                       decreases="{I}")},
        props=both))
    u.add_type("src/parser/ast.rs", "SymbolWithHint")
    u.raw(GLUE3, kind="prelude")
    u.add_fn(EV, "check_param_types", rules=["R5e", "R6", common.r9], contract=Contract(
        requires=[("same_len", "arg_positions@.len() == arg_values@.len()")],
        ensures=[("restores_call", "r is Err ==> r->Err_0.0.0@ =~= restore_of_call(*receiver_value, arg_values@)", {"C07"})],
        loops={1: dict(invariant=[("idx", "__i1 <= arg_values@.len(), arg_positions@.len() == arg_values@.len()")],
                       decreases="arg_values@.len() - __i1")},
        optional_loops=dict(pre="let ghost init{I} = saved_values@;",
                            invariant=[("built", "{I} <= arg_values@.len(), saved_values@ =~= init{I} + rev_from(arg_values@, {I} as int)")],
                            decreases="{I}"),
        props=both))
    u.add_fn(EV, "check_string", rules=[common.r9, STRING_MATCH, rw.simple("R11", r"(\"[^\"]*\")\.into\(\)", r"vs_string_from_lit(\1)")], contract=Contract(
        ensures=[("passes_saved_values", "r is Err ==> r->Err_0.0.0@ == saved_values@", {"C07"})],
        props={"C07"}))

    c07 = {"C07"}
    src = u.source(EV)
    total = 0
    for hname in HOSTS:
        host = src.find_fn(hname)
        seen = {}
        for (arm, it) in builder_sites(src, host):
            seen[arm] = seen.get(arm, 0) + 1
            label = "%s#%d" % (arm, seen[arm])
            gname = "site_%s_%s_%d" % ({"eval_built_in_call": "fn", "eval_built_in_method_call": "meth", "eval_call": "call", "eval_method_call": "mcall"}[hname], arm, seen[arm])
            recv = "receiver_value"
            u.add_item_fn(
                EV, it, gname,
                sig="pub fn %s(receiver_value: &Value, arg_values: &Vec<Value>) -> Vec<Value>" % gname,
                suffix="\n    saved_values",
                rules=["R6"],
                contract=Contract(
                    ret="saved",
                    ensures=[("restores_call", "saved@ =~= restore_of_call(*receiver_value, arg_values@)")],
                    hints=[dict(anchor="let mut saved_values", where="after_stmt", text="let ghost init = saved_values@;")],
                    # (a builder without a loop cannot satisfy the postcondition for every argument count: it is
                    # reported through the postcondition, not as an extraction error)
                    loops=({1: dict(invariant=[("built", "__i1 <= arg_values@.len(), saved_values@ =~= init + rev_from(arg_values@, __i1 as int)")],
                                    decreases="__i1")} if re.search(r"\bfor\b", it.text) else {}),
                    props=c07, canary=False),
                qual="%s[%s]" % (hname, label))
            total += 1
    if total < 40:
        raise ExtractError("only %d saved_values builders found (expected about 80)" % total)
    u.add_canary_proof()
    u.raw(common.FOOTER)
    return u
