"""Unit `extractvar` (C20, extract-variable half): the text splice of extract_variable (src/extract_variable.rs):
given the spans the AST search found (the top-level item, the block-level expression the `let` goes before, the
selected expression, the expression that becomes the initialiser), the result is the source with
`let NAME = <initialiser>`, a newline and the indentation inserted before the block-level expression and the selected
expression replaced by NAME, every other character kept.  That the new program behaves the same is checked on a
corpus only (bounded)."""
import os
import sys

HERE = os.path.dirname(os.path.abspath(__file__))
ROOT = os.path.dirname(os.path.dirname(HERE))
sys.path.insert(0, os.path.join(ROOT, "vc"))
sys.path.insert(0, os.path.join(ROOT, "units"))
import rewrite as rw  # noqa: E402
from gen import Contract, UnitFile  # noqa: E402
import common  # noqa: E402

XV = "src/extract_variable.rs"
POS = "src/parser/position.rs"
VFS = "src/parser/vfs.rs"
RLIMIT = 100
MIN_FUNCTIONS = 1

ASSUMPTIONS = {
    "axiom_clen": "char::len_utf8 is between 1 and 4, and 1 for ASCII", "axiom_clen16": "-", "axiom_len_bound": "a str is at most isize::MAX bytes long",
    "vt_len": "-", "vt_slice": "&s[a..b]: panics unless both are char boundaries; the chars between them", "vt_slice_from": "&s[a..]",
    "vt_find_char": "(unused here)", "vt_rfind_char": "(unused here)", "vt_utf16_count": "(unused here)",
    "vtc_len_utf8": "-", "vtc_len_utf16": "-", "vu_min": "-", "CharIndices": "(unused here)", "vt_char_indices": "(unused here)", "next": "(unused here)",
    "vc_clone": "-", "vs_string_eq_lit": "-", "vs_string_eq": "-", "vs_string_from_lit": "-",
    "PathBuf": "opaque", "VfsId": "opaque", "ExprView": "the `position` field of an ast::Expression",
    "vS_new": "String::new() is the empty text", "vS_push_str": "String::push_str appends the text", "vS_push_spaces": "push_str(&\" \".repeat(n)) appends n spaces",
}
LEMMAS = {k: {"C20"} for k in ("lemma_off_step", "lemma_off_zero", "lemma_off_mono", "lemma_off_inj", "lemma_cix", "lemma_cix_props",
                              "lemma_blen_concat", "lemma_off_sub", "lemma_u16_bounds", "lemma_u16_split")}
UNVERIFIED = {"C20": [
    "which spans are used: parsing, find_item_at, find_expr_of_id and the search for the enclosing block-level expression (that the four spans nest as the contract's precondition says, on character boundaries, and that the `let` lands in a scope where the initialiser's variables are bound)",
    "that the new program parses and behaves the same: needs the language semantics; only extractvar.bounded[extract_corpus] (bounded) checks it",
    "extract_function (the other half of C20) is not covered at all",
]}

GLUE = """
#[verifier::external_body] pub struct PathBuf { _o: u8 }
#[verifier::external_body] pub struct VfsId { _o: u8 }
#[verifier::external_body]
pub fn vS_new() -> (r: String) ensures r@ == Seq::<char>::empty() { unimplemented!() }
#[verifier::external_body]
pub fn vS_push_str(s: &mut String, t: &str) ensures final(s)@ == old(s)@ + t@ { unimplemented!() }
pub open spec fn spaces(n: nat) -> Seq<char> { Seq::new(n, |i: int| ' ') }
#[verifier::external_body]
pub fn vS_push_spaces(s: &mut String, n: usize) ensures final(s)@ == old(s)@ + spaces(n as nat) { unimplemented!() }
"""
GLUE2 = """
/// the part of ast::Expression this function reads
pub struct ExprView { pub position: Position }
"""

EXTRACT_PROGRAMS = [
    "fun add(x: Int, y: Int): Int { x + y * 2 }\nlet a = add(1, 2)\nprintln(string_repr(a))\nlet l = [a, add(a, 3)]\nprintln(string_repr(l.len()))\n",
    "fun f(o: Option<Int>): Int {\n  match o {\n    Some(v) => { v + 1 }\n    None => 0\n  }\n}\nprintln(string_repr(f(Some(2))))\nprintln(string_repr(f(None)))\n",
    "fun g(xs: List<Int>): Int {\n  let t = xs.len() * 2\n  if t > 2 { t + (xs.len() + 1) } else { 0 - t }\n}\nprintln(string_repr(g([1, 2, 3])))\nprintln(string_repr(g([])))\n",
    "struct P { x: Int, name: String }\nfun h(p: P): String {\n  let (m, n) = (p.x + 1, p.name ^ \"\\u00e9\\U0001F600\")\n  n ^ string_repr(m)\n}\nprintln(h(P{ x: 1, name: \"a\" }))\n",
    # an if / else if / else chain whose branches have their own lets
    "fun sign(n: Int): String {\n  if n < 0 {\n    let m = 0 - n\n    \"minus \" ^ string_repr(m * 2)\n  } else if n == 0 {\n    \"zero\"\n  } else if (n + 1) > 3 {\n    let q = n + 1\n    \"plus \" ^ string_repr(q)\n  } else {\n    \"small\"\n  }\n}\nprintln(sign(0 - 3))\nprintln(sign(0))\nprintln(sign(5))\nprintln(sign(1))\n",
    "fun k(x: Int): Int {\n  let mul = fun(y: Int) { y * x }\n  for i in [1, 2] {\n    println(string_repr(mul(i) + x))\n  }\n  mul(3)\n}\nprintln(string_repr(k(4)))\n",
]
BOUNDED = [
    {"name": "extract_corpus", "kind": "refactor-corpus", "props": ["C20"], "input": EXTRACT_PROGRAMS, "n_inputs": len(EXTRACT_PROGRAMS),
     "command": ["reftest-extract-variable", "{file}", "{offset}", "{offset}", "--name", "extracted_zz"],
     "bound": "%d listed programs without reassignment whose only effects are top-level / statement-level println (calls, match, if, tuples, structs, closures, a for loop): extract_variable at every cursor position of each; every result must print the same standard output and end with the same status as the original" % len(EXTRACT_PROGRAMS),
     "expect": {}},
]
WITNESSES = [
    {"match": r"extractvar\.", "kind": "refactor-corpus", "props": ["C20"], "input": EXTRACT_PROGRAMS, "expect": {},
     "command": ["reftest-extract-variable", "{file}", "{offset}", "{offset}", "--name", "extracted_zz"], "note": "extract_variable at every cursor position"},
]


def build(tier):
    u = UnitFile("extractvar")
    u.raw(common.HEADER)
    u.raw(common.prelude("strings.rs"), kind="prelude")
    u.raw(common.prelude("text.rs"), kind="prelude")
    u.raw(GLUE, kind="prelude")
    u.add_type(VFS, "VfsPathBuf")
    u.add_type(POS, "Position")
    u.raw(GLUE2, kind="prelude")
    c20 = {"C20"}
    RULES = [
        # R9f: `format!("let {} = {}\n{}", N, X, " ".repeat(C))` is "let " N " = " X "\n" and C spaces
        rw.simple("R9f", r"result\.push_str\(&format!\(\s*\"let \{\} = \{\}\\n\{\}\",\s*name,\s*&src\[([\w\.]+)\.\.([\w\.]+)\],\s*\" \"\.repeat\(([\w\.]+)\)\s*\)\);",
                  r'vS_push_str(&mut result, "let "); vS_push_str(&mut result, name); vS_push_str(&mut result, " = "); vS_push_str(&mut result, vt_slice(src, \1, \2)); vS_push_str(&mut result, "\\n"); vS_push_spaces(&mut result, \3);'),
        rw.simple("R7", r"result\.push_str\(\s*&src\[\.\.([\w\.]+)\],?\s*\);", r"vS_push_str(&mut result, vt_slice(src, 0, \1));"),
        rw.simple("R7", r"result\.push_str\(\s*&src\[([\w\.]+)\.\.([\w\.]+)\],?\s*\);", r"vS_push_str(&mut result, vt_slice(src, \1, \2));"),
        rw.simple("R7", r"result\.push_str\(\s*&src\[([\w\.]+)\.\.\],?\s*\);", r"vS_push_str(&mut result, vt_slice_from(src, \1));"),
        rw.simple("R2", r"result\.push_str\(name\);", "vS_push_str(&mut result, name);"),
    ]
    I0, I1 = "item_pos.start_offset", "item_pos.end_offset"
    B0 = "enclosing_block_level_expr.position.start_offset"
    E0, E1 = "expr.position.start_offset", "expr.position.end_offset"
    V0, V1 = "var_init_expr.position.start_offset", "var_init_expr.position.end_offset"
    cb = lambda x: "is_cbt(src@, %s as int)" % x
    ci = lambda x: "cix(src@, %s as int)" % x
    u.add_range_fn(XV, "extract_variable", "result.push_str(&src[..item_pos.start_offset]);", "result.push_str(&src[item_pos.end_offset..]);",
                   sig="pub fn extract_splice(src: &str, name: &str, item_pos: &Position, enclosing_block_level_expr: &ExprView, var_init_expr: &ExprView, expr: &ExprView) -> (result: String)",
                   prefix="    let mut result = vS_new();\n", suffix="\n    result", rules=RULES,
                   contract=Contract(
                       requires=[("spans_nest_in_the_text", "%s <= %s <= %s <= %s <= %s <= blen_cs(src@), %s <= %s <= blen_cs(src@)" % (I0, B0, E0, E1, I1, V0, V1)),
                                 ("on_boundaries", ", ".join(cb(x) for x in (I0, I1, B0, E0, E1, V0, V1)))],
                       ensures=[("let_before_the_block_level_expression_and_name_in_place_of_the_selection",
                                 "result@ == src@.subrange(0, %s) + \"let \"@ + name@ + \" = \"@ + src@.subrange(%s, %s) + \"\\n\"@ + spaces(enclosing_block_level_expr.position.column as nat)"
                                 " + src@.subrange(%s, %s) + name@ + src@.subrange(%s, src@.len() as int)" % (ci(B0), ci(V0), ci(V1), ci(B0), ci(E0), ci(E1)))],
                       body_prelude="proof { lemma_cix(src@, 0); lemma_off_zero(src@); lemma_cix(src@, src@.len() as int);\n"
                                    + "".join("    lemma_cix_props(src@, %s as int);\n" % x for x in (I0, I1, B0, E0, E1, V0, V1))
                                    + "    if %s > %s { lemma_off_mono(src@, %s, %s); } if %s > %s { lemma_off_mono(src@, %s, %s); }\n" % (ci(I0), ci(B0), ci(B0), ci(I0), ci(B0), ci(E0), ci(E0), ci(B0))
                                    + "    if %s > %s { lemma_off_mono(src@, %s, %s); } if %s > %s { lemma_off_mono(src@, %s, %s); } }" % (ci(E0), ci(E1), ci(E1), ci(E0), ci(E1), ci(I1), ci(I1), ci(E1)),
                       ret="result", props=c20))
    u.add_canary_proof()
    u.raw(common.FOOTER)
    return u
