"""Unit `valeq`: `impl PartialEq for Value_ :: eq` (values.rs).  Property C13."""
import os
import re
import sys

HERE = os.path.dirname(os.path.abspath(__file__))
ROOT = os.path.dirname(os.path.dirname(HERE))
sys.path.insert(0, os.path.join(ROOT, "vc"))
sys.path.insert(0, os.path.join(ROOT, "units"))
import rewrite as rw  # noqa: E402
from gen import Contract, UnitFile  # noqa: E402
from extract import ExtractError, tokenize, code_tokens, match_close  # noqa: E402
import common  # noqa: E402

VAL = "src/values.rs"
AST = "src/parser/ast.rs"
RLIMIT = 100
MIN_FUNCTIONS = 5

ASSUMPTIONS = dict(common.OPAQUE_ASSUMPTIONS)
ASSUMPTIONS.update(common.VALUE_GLUE_ASSUMPTIONS)
ASSUMPTIONS.update({
    "vc_clone": "Clone", "vs_string_eq_lit": "std String == &str",
    "vs_string_eq": "std `String == String` is equality of the character sequences",
    "vs_string_from_lit": "std to_owned",
    "Type": "opaque stand-in for garden_type::Type; its derived `==` is the ghost equivalence type_same",
    "TypeName": "opaque stand-in for parser::ast::TypeName",
    "Env": "opaque stand-in for env::Env",
    "axiom_sheight": "values are finite trees: every element of a sequence of values is lower than the sequence",
    "axiom_fheight": "values are finite trees: every struct field value is lower than the field list",
    "axiom_mheight": "values are finite trees: every dict value is lower than the dict's map",
    "axiom_vheight": "values are finite trees: the payload containers of a value are lower than the value (Value_ holds no cycles: Rc without interior mutability in the literal variants)",
    "axiom_float_eq": "IEEE-754 `==` restricted to finite floats is reflexive, symmetric and transitive",
    "axiom_type_same": "derived PartialEq on garden_type::Type is an equivalence relation",
    "rv_len": "rpds::Vector::len is the length of the ghost view",
    "rv_get": "rpds::Vector index i is element i of the ghost view",
    "hm_size": "rpds::HashTrieMap::size is the number of keys of the ghost view",
    "hm_keys": "rpds::HashTrieMap::iter visits every key exactly once",
    "hm_get": "rpds::HashTrieMap::get(k) is the ghost view's lookup",
    "vq_ptr_eq": "Rc::ptr_eq(a, b) implies the payloads are the same value",
    "vq_type_eq": "derived `==` on Type decides the ghost equivalence type_same",
    "vq_f64_eq": "`f64 == f64` is IEEE equality (ghost float_eq)",
    "vq_symbol_eq": "Symbol's PartialEq (no property used: function values are outside C13)",
    "vq_bkind_eq": "BuiltInFunctionKind's derived PartialEq (no property used)",
    "SymbolNameEq": "-",
})

LEMMAS = {"lemma_veq_refl": {"C13"}, "lemma_veq_sym": {"C13"}, "lemma_veq_trans": {"C13"},
          "lemma_seq_veq_refl": {"C13"}, "lemma_seq_veq_sym": {"C13"}, "lemma_seq_veq_trans": {"C13"}}

UNVERIFIED = {"C13": [
    "eval_equality_binop (eval.rs:2139-2158): pops two values and calls `==`/`!=` on Value; `!=` is std's negation of `==`",
    "the models of std/rpds container equality (slice, Option<Box<_>>, Rc<T: Eq>, rpds::Vector, rpds::HashTrieMap) are hand-written reference implementations of the library definitions (element-wise / key-wise equality), verified here but ASSUMED to be what the libraries do",
    "how values are printed ('the same printed form')"]}

_CROSS = open(os.path.join(os.path.dirname(os.path.abspath(__file__)), "cross_types.gdn"), encoding="utf-8").read()
WITNESSES = [
    {"match": r".", "kind": "run", "props": ["C13"], "input": _CROSS,
     "expect": {"stdout": "False True\n" * 8 + "True False\nFalse True\nTrue False"},
     "note": "values of different enums / structs with the same variant position, field names and payloads are different values, alone or nested"},
    {"match": r"eq\.post\[(Float|different_variants)\]", "kind": "run", "props": ["C13"],
     "input": "println(string_repr(1.5 == 1.5))\nprintln(string_repr(1.5 != 1.5))\nprintln(string_repr([1.5] == [1.5]))\nprintln(string_repr(1.5 == 2.5))",
     "expect": {"stdout": "True\nFalse\nTrue\nFalse"}, "note": "== is reflexive on finite floats"},
    {"match": r".", "kind": "run", "props": ["C13"],
     "input": "let a = 0.3\nlet b = 0.30000000000000004\nlet c = 0.0000000000000002\nlet d = 0.0000000000000004\nprintln(string_repr(a == b))\nprintln(string_repr(a != b))\nprintln(string_repr(0.0 == c))\nprintln(string_repr(c == d))\nprintln(string_repr([a] == [b]))\nprintln(string_repr(Dict[\"k\" => a] == Dict[\"k\" => b]))\nprintln(string_repr((a, 1) == (b, 1)))\nprintln(string_repr(Some(a) == Some(b)))\nprintln(string_repr(100000000.0 == 100000000.00000001))\nprintln(string_repr(0.1 +. 0.2 == 0.3))",
     "expect": {"stdout": "False\nTrue\nFalse\nFalse\nFalse\nFalse\nFalse\nFalse\nFalse\nFalse"}, "note": "distinct floats that are very close are still distinct, alone or nested"},
    {"match": r"eq\.post\[(Dict|different_variants)\]", "kind": "run", "props": ["C13"],
     "input": "println(string_repr(Dict[\"a\" => 1] == Dict[\"a\" => 1]))\nprintln(string_repr(Dict[\"a\" => 1] == Dict[\"a\" => 2]))\nprintln(string_repr(Dict[\"a\" => 1] == Dict[\"b\" => 1]))",
     "expect": {"stdout": "True\nFalse\nFalse"}, "note": "dicts built separately with the same entries are equal"},
    {"match": r"eq\.post\[(Int|String|List|Tuple|EnumVariant|Struct)\]", "kind": "run", "props": ["C13"],
     "input": "println(string_repr(1 == 1))\nprintln(string_repr(\"a\" == \"a\"))\nprintln(string_repr([1, 2] == [1, 2]))\nprintln(string_repr([1, 2] == [1, 3]))\nprintln(string_repr((1, \"x\") == (1, \"x\")))\nprintln(string_repr(Some(1) == Some(1)))\nprintln(string_repr(Some(1) == None))\nprintln(string_repr([1] == [1, 1]))\nprintln(string_repr((1, 2) == (1, 2, 3)))\nprintln(string_repr((1, 2, 3) == (1, 2)))\nprintln(string_repr((1, 2) != (1, 2, 3)))",
     "expect": {"stdout": "True\nTrue\nTrue\nFalse\nTrue\nTrue\nFalse\nFalse\nFalse\nFalse\nTrue"}},
]

GLUE_TYPES = """
#[verifier::external_body] pub struct Type { _o: u8 }
#[verifier::external_body] pub struct TypeName { _o: u8 }
#[verifier::external_body] pub struct Env { _o: u8 }
"""

# opaque Symbol etc. come from common.OPAQUE, but SymbolName must be the real struct (field names are compared)
OPAQUE = common.OPAQUE.replace("#[verifier::external_body] pub struct SymbolName { _o: u8 }\n", "")

MODELS = r"""
// ---- accessors of the opaque persistent containers (ASSUMED) ----------------------------
#[verifier::external_body]
pub fn rv_len(x: &RpdsVector<Value>) -> (r: usize) ensures r == rv_view(x).len() { unimplemented!() }
#[verifier::external_body]
pub fn rv_get(x: &RpdsVector<Value>, i: usize) -> (r: &Value)
    requires i < rv_view(x).len(), ensures *r == rv_view(x)[i as int] { unimplemented!() }
#[verifier::external_body]
pub fn hm_size(x: &RpdsHashTrieMap<String, Value>) -> (r: usize)
    ensures hm_view(x).dom().finite(), r == hm_view(x).dom().len() { unimplemented!() }
#[verifier::external_body]
pub fn hm_keys(x: &RpdsHashTrieMap<String, Value>) -> (r: Vec<String>)
    ensures r@.len() == hm_view(x).dom().len(), hm_view(x).dom().finite(),
        forall|i: int| #![trigger r@[i]] 0 <= i < r@.len() ==> hm_view(x).contains_key(r@[i]@),
        forall|k: Seq<char>| #![trigger hm_view(x).contains_key(k)] hm_view(x).contains_key(k) ==> exists|i: int| 0 <= i < r@.len() && r@[i]@ == k,
{ unimplemented!() }
#[verifier::external_body]
pub fn hm_get<'a>(x: &'a RpdsHashTrieMap<String, Value>, k: &String) -> (r: Option<&'a Value>)
    ensures r is Some <==> hm_view(x).contains_key(k@), r is Some ==> *r->Some_0 == hm_view(x)[k@] { unimplemented!() }
#[verifier::external_body]
pub fn vq_ptr_eq(a: &Value, b: &Value) -> (r: bool) ensures r ==> *a == *b { unimplemented!() }
#[verifier::external_body]
pub fn vq_type_eq(a: &Type, b: &Type) -> (r: bool) ensures r == type_same(*a, *b) { unimplemented!() }
#[verifier::external_body]
pub fn vq_f64_eq(a: &f64, b: &f64) -> (r: bool) ensures r == float_eq(*a, *b) { unimplemented!() }
#[verifier::external_body]
pub fn vq_symbol_eq(a: &Symbol, b: &Symbol) -> (r: bool) { unimplemented!() }
#[verifier::external_body]
pub fn vq_bkind_eq(a: &BuiltInFunctionKind, b: &BuiltInFunctionKind) -> (r: bool) { unimplemented!() }

// ---- reference implementations of the library `PartialEq`s that call back into Value_::eq -----
// `Rc<T: Eq> == Rc<T>`: pointer-equal, or the payloads compare equal
pub fn vq_value_eq(a: &Value, b: &Value) -> (r: bool)
    ensures lit(*a.0) && lit(*b.0) ==> r == veq(*a.0, *b.0),
    decreases vheight(*a.0), 1int,
{
    if vq_ptr_eq(a, b) {
        proof { if lit(pv(*a)) { lemma_veq_refl(pv(*a)); } }
        return true;
    }
    a.as_ref().eq(b.as_ref())
}

// `[Value] == [Value]`: same length and element-wise equal
pub fn vq_vec_eq(x: &Vec<Value>, y: &Vec<Value>) -> (r: bool)
    ensures seq_lit(x@) && seq_lit(y@) ==> r == seq_veq(x@, y@),
    decreases sheight(x@), 0int,
{
    if x.len() != y.len() { return false; }
    let mut i: usize = 0;
    while i < x.len()
        invariant 0 <= i <= x@.len(), x@.len() == y@.len(),
            seq_lit(x@) && seq_lit(y@) ==> forall|j: int| #![trigger x@[j]] 0 <= j < i ==> veq(*x@[j].0, *y@[j].0),
        decreases x@.len() - i,
    {
        if !vq_value_eq(&x[i], &y[i]) { return false; }
        i += 1;
    }
    true
}

// `rpds::Vector<Value> == rpds::Vector<Value>`: same length and element-wise equal
pub fn vq_rvec_eq(x: &RpdsVector<Value>, y: &RpdsVector<Value>) -> (r: bool)
    ensures seq_lit(rv_view(x)) && seq_lit(rv_view(y)) ==> r == seq_veq(rv_view(x), rv_view(y)),
    decreases sheight(rv_view(x)), 0int,
{
    if rv_len(x) != rv_len(y) { return false; }
    let mut i: usize = 0;
    while i < rv_len(x)
        invariant 0 <= i <= rv_view(x).len(), rv_view(x).len() == rv_view(y).len(),
            seq_lit(rv_view(x)) && seq_lit(rv_view(y)) ==> forall|j: int| #![trigger rv_view(x)[j]] 0 <= j < i ==> veq(*rv_view(x)[j].0, *rv_view(y)[j].0),
        decreases rv_view(x).len() - i,
    {
        if !vq_value_eq(rv_get(x, i), rv_get(y, i)) { return false; }
        i += 1;
    }
    true
}

// `Option<Box<Value>> == Option<Box<Value>>`
pub fn vq_opt_eq(a: &Option<Box<Value>>, b: &Option<Box<Value>>) -> (r: bool)
    ensures (match *a { Some(p) => lit(*p.0), None => true }) && (match *b { Some(p) => lit(*p.0), None => true }) ==>
        r == (match (*a, *b) { (Some(x), Some(y)) => veq(*x.0, *y.0), (None, None) => true, _ => false }),
    decreases opt_h(*a), 2int,
{
    match (a, b) {
        (Some(x), Some(y)) => vq_value_eq(x, y),
        (None, None) => true,
        _ => false,
    }
}

// `Vec<(SymbolName, Value)> == Vec<(SymbolName, Value)>`: same length, names and values pairwise equal
pub fn vq_fields_eq(x: &Vec<(SymbolName, Value)>, y: &Vec<(SymbolName, Value)>) -> (r: bool)
    ensures (forall|i: int| #![trigger x@[i]] 0 <= i < x@.len() ==> lit(*x@[i].1.0)) && (forall|i: int| #![trigger y@[i]] 0 <= i < y@.len() ==> lit(*y@[i].1.0)) ==>
        r == (x@.len() == y@.len() && forall|i: int| #![trigger x@[i]] 0 <= i < x@.len() ==> x@[i].0.text@ == y@[i].0.text@ && veq(*x@[i].1.0, *y@[i].1.0)),
    decreases fheight(x@), 0int,
{
    if x.len() != y.len() { return false; }
    let mut i: usize = 0;
    while i < x.len()
        invariant 0 <= i <= x@.len(), x@.len() == y@.len(),
            (forall|i: int| #![trigger x@[i]] 0 <= i < x@.len() ==> lit(*x@[i].1.0)) && (forall|i: int| #![trigger y@[i]] 0 <= i < y@.len() ==> lit(*y@[i].1.0)) ==>
                forall|j: int| #![trigger x@[j]] 0 <= j < i ==> x@[j].0.text@ == y@[j].0.text@ && veq(*x@[j].1.0, *y@[j].1.0),
        decreases x@.len() - i,
    {
        if !vs_string_eq(&x[i].0.text, &y[i].0.text) { return false; }
        if !vq_value_eq(&x[i].1, &y[i].1) { return false; }
        i += 1;
    }
    true
}
"""

MODEL_HMAP = r"""
pub open spec fn map_lit(m: Map<Seq<char>, Value>) -> bool {
    forall|k: Seq<char>| #![trigger m[k]] m.contains_key(k) ==> lit(*m[k].0)
}
pub open spec fn map_veq(x: Map<Seq<char>, Value>, y: Map<Seq<char>, Value>) -> bool {
    x.dom() =~= y.dom() && forall|k: Seq<char>| #![trigger x[k]] x.contains_key(k) ==> veq(*x[k].0, *y[k].0)
}
// `rpds::HashTrieMap<String, Value> == ...`: same size, and every (key, value) of the left has an
// equal value under the same key on the right  (rpds: size() == size() && iter().all(..get(k) == v))
pub fn vq_hmap_eq(x: &RpdsHashTrieMap<String, Value>, y: &RpdsHashTrieMap<String, Value>) -> (r: bool)
    ensures map_lit(hm_view(x)) && map_lit(hm_view(y)) ==> r == map_veq(hm_view(x), hm_view(y)),
    decreases mheight(hm_view(x)), 0int,
{
    if hm_size(x) != hm_size(y) { return false; }
    let keys = hm_keys(x);
    let mut i: usize = 0;
    while i < keys.len()
        invariant 0 <= i <= keys@.len(),
            forall|j: int| #![trigger keys@[j]] 0 <= j < keys@.len() ==> hm_view(x).contains_key(keys@[j]@),
            map_lit(hm_view(x)) && map_lit(hm_view(y)) ==> forall|j: int| #![trigger keys@[j]] 0 <= j < i ==>
                hm_view(y).contains_key(keys@[j]@) && veq(*hm_view(x)[keys@[j]@].0, *hm_view(y)[keys@[j]@].0),
        decreases keys@.len() - i,
    {
        let xv = hm_get(x, &keys[i]);
        match hm_get(y, &keys[i]) {
            None => { return false; }
            Some(v) => {
                match xv {
                    Some(w) => { if !vq_value_eq(w, v) { return false; } }
                    None => { return false; }
                }
            }
        }
        i += 1;
    }
    proof {
        if map_lit(hm_view(x)) && map_lit(hm_view(y)) {
            assert forall|k: Seq<char>| hm_view(x).contains_key(k) implies hm_view(y).contains_key(k) && veq(*hm_view(x)[k].0, *hm_view(y)[k].0) by {
                let j = choose|j: int| 0 <= j < keys@.len() && keys@[j]@ == k;
                let t = keys@[j];
            }
            assert(hm_view(x).dom().subset_of(hm_view(y).dom()));
            vstd::set_lib::lemma_subset_equality(hm_view(x).dom(), hm_view(y).dom());
        }
    }
    true
}
"""

# type-directed R10: which prelude function implements `==` for an operand of this declared type
EQ_BY_TYPE = {
    "i64": None, "usize": None,
    "f64": "vq_f64_eq",
    "String": "vs_string_eq",
    "Symbol": "vq_symbol_eq",
    "BuiltInFunctionKind": "vq_bkind_eq",
    "rpds::Vector<Value>": "vq_rvec_eq",
    "Vec<Value>": "vq_vec_eq",
    "rpds::HashTrieMap<String, Value>": "vq_hmap_eq",
    "Option<Box<Value>>": "vq_opt_eq",
    "Vec<(SymbolName, Value)>": "vq_fields_eq",
    "Type": "vq_type_eq",
    "Value": "vq_value_eq",
}


def _split_types(text):
    out, depth, cur = [], 0, []
    for c in text:
        if c in "([{<":
            depth += 1
        elif c in ")]}>":
            depth -= 1
        if c == "," and depth == 0:
            out.append("".join(cur).strip())
            cur = []
        else:
            cur.append(c)
    last = "".join(cur).strip()
    if last:
        out.append(last)
    return out


def variant_field_types(enum_text):
    """{(Variant, field_or_index): type_text} from the extracted enum text."""
    out = {}
    body = enum_text[enum_text.index("{") + 1:enum_text.rindex("}")]
    body = re.sub(r"//[^\n]*", "", body)
    i = 0
    rx = re.compile(r"\s*([A-Z]\w*)\s*")
    while i < len(body):
        m = rx.match(body, i)
        if not m:
            break
        name = m.group(1)
        j = m.end()
        if j < len(body) and body[j] in "({":
            close = rw._balanced(body, j)
            inner = body[j + 1:close - 1]
            parts = _split_types(inner)
            if body[j] == "(":
                for k, p in enumerate(parts):
                    out[(name, k)] = re.sub(r"\s+", " ", p).strip()
            else:
                for p in parts:
                    f, t = p.split(":", 1)
                    out[(name, f.strip())] = re.sub(r"\s+", " ", t).strip()
            j = close
        k = body.find(",", j)
        i = len(body) if k < 0 else k + 1
    return out


def typed_eq_rule(u):
    src = u.source(VAL)
    enum_text = src.find_type("Value_").text
    ftypes = variant_field_types(enum_text)

    def rule(text):
        # bindings introduced by patterns `Value_::V { f: x, .. }` / `Value_::V(x, ..)`,
        # each valid from its position to the next binding of the same name
        binds = []  # (pos, ident, type)
        for m in re.finditer(r"Value_::(\w+)\s*([({])", text):
            close = rw._balanced(text, m.end() - 1)
            inner = text[m.end():close - 1]
            parts = rw._split_args(inner)
            if m.group(2) == "(":
                for k, p in enumerate(parts):
                    p = p.strip()
                    if re.fullmatch(r"[a-z_]\w*", p) and (m.group(1), k) in ftypes:
                        binds.append((m.start(), p, ftypes[(m.group(1), k)]))
            else:
                for p in parts:
                    p = p.strip()
                    if p == "..":
                        continue
                    if ":" in p:
                        f, x = [q.strip() for q in p.split(":", 1)]
                    else:
                        f, x = p, p
                    if re.fullmatch(r"[a-z_]\w*", x) and (m.group(1), f) in ftypes:
                        binds.append((m.start(), x, ftypes[(m.group(1), f)]))

        # element bindings introduced by the loop desugarings (R5/R8): `let x = &xs[__i];`
        for m in re.finditer(r"let\s+(\w+)\s*=\s*&(\w+)\[__i\d+\];", text):
            ct = None
            for (bp, bi, bt) in binds:
                if bi == m.group(2) and bp < m.start():
                    ct = bt
            mm = re.fullmatch(r"Vec<(.+)>", ct or "")
            if mm:
                binds.append((m.start(), m.group(1), mm.group(1)))

        def type_at(ident, pos):
            best = None
            for (bp, bi, bt) in binds:
                if bi == ident and bp < pos and (best is None or bp > best[0]):
                    best = (bp, bt)
            return best[1] if best else None
        n = [0]

        def sub(m):
            a, op, b = m.group(1), m.group(2), m.group(3)
            ta, tb = type_at(a, m.start()), type_at(b, m.start())
            if ta is None or ta != tb:
                return m.group(0)
            if ta not in EQ_BY_TYPE:
                raise ExtractError("no equality model for operand type %r (%s == %s)" % (ta, a, b))
            fn = EQ_BY_TYPE[ta]
            if fn is None:
                return m.group(0)
            n[0] += 1
            return ("!" if op == "!=" else "") + "%s(%s, %s)" % (fn, a, b)
        text2 = re.sub(r"\b([a-z_]\w*)\s*(==|!=)\s*([a-z_]\w*)\b", sub, text)
        return text2, n[0]
    rule.rule_id = "R10"
    return rule


LIT2 = "lit(*self) && lit(*other)"


def build(tier):
    u = UnitFile("valeq")
    u.raw(common.HEADER)
    u.raw(common.prelude("strings.rs"), kind="prelude")
    u.raw(OPAQUE, kind="prelude")
    u.raw(GLUE_TYPES, kind="prelude")
    u.add_type(AST, "SymbolName")
    u.add_type(VAL, "Value")
    u.add_type(VAL, "Value_", rules=common.VALUE_TYPE_RULES)
    u.raw(common.VALUE_GLUE, kind="prelude")
    u.raw(open(os.path.join(HERE, "specs.rs")).read(), kind="spec")
    u.raw(open(os.path.join(HERE, "lemmas.rs")).read(), kind="spec")
    u.raw(MODELS, kind="prelude")
    u.raw(MODEL_HMAP, kind="prelude")
    u.add_fn(VAL, "eq", impl="PartialEq for Value_", wrap_impl="Value_", rules=["R8", rw.simple("R10", r"Rc::ptr_eq\(&(\w+)\.0, &(\w+)\.0\)", r"vq_ptr_eq(\1, \2)"), typed_eq_rule(u)],
             contract=Contract(
                 ensures=[
                     ("Int", "%s && self is Int && other is Int ==> r == veq(*self, *other)" % LIT2),
                     ("Float", "%s && self is Float && other is Float ==> r == veq(*self, *other)" % LIT2),
                     ("String", "%s && self is String && other is String ==> r == veq(*self, *other)" % LIT2),
                     ("List", "%s && self is List && other is List ==> r == veq(*self, *other)" % LIT2),
                     ("Tuple", "%s && self is Tuple && other is Tuple ==> r == veq(*self, *other)" % LIT2),
                     ("Dict", "%s && self is Dict && other is Dict ==> r == veq(*self, *other)" % LIT2),
                     ("EnumVariant", "%s && self is EnumVariant && other is EnumVariant ==> r == veq(*self, *other)" % LIT2),
                     ("Struct", "%s && self is Struct && other is Struct ==> r == veq(*self, *other)" % LIT2),
                     ("different_variants", "%s && !same_variant(*self, *other) ==> !r" % LIT2),
                 ],
                 decreases="vheight(*self), 0int",
                 props={"C13"}))
    u.add_canary_proof()
    u.raw(common.FOOTER)
    return u
