pub open spec fn pv(v: Value) -> Value_ { *v.0 }
// ---- C13: structural equality is an equivalence on values with literal syntax -------------
pub proof fn lemma_veq_refl(a: Value_)
    requires lit(a),
    ensures veq(a, a),
    decreases vheight(a), 0int,
{
    broadcast use val_model::axiom_float_eq, val_model::axiom_type_same;
    match a {
        Value_::List { items, .. } => { lemma_seq_veq_refl(rv_view(&items)); }
        Value_::Tuple { items, .. } => { lemma_seq_veq_refl(items@); }
        Value_::Dict { items, .. } => {
            assert forall|k: Seq<char>| #![trigger hm_view(&items)[k]] hm_view(&items).contains_key(k) implies veq(*hm_view(&items)[k].0, *hm_view(&items)[k].0) by {
                lemma_veq_refl(*hm_view(&items)[k].0);
            }
        }
        Value_::EnumVariant { payload, .. } => { match payload { Some(p) => { lemma_veq_refl(pv(*p)); } None => {} } }
        Value_::Struct { fields, .. } => {
            assert forall|i: int| #![trigger fields@[i]] 0 <= i < fields@.len() implies veq(*fields@[i].1.0, *fields@[i].1.0) by {
                lemma_veq_refl(*fields@[i].1.0);
            }
        }
        Value_::Float(f) => { axiom_float_eq(f, f, f); }
        _ => {}
    }
}

pub proof fn lemma_seq_veq_refl(s: Seq<Value>)
    requires seq_lit(s),
    ensures seq_veq(s, s),
    decreases sheight(s), 0int,
{
    assert forall|i: int| #![trigger s[i]] 0 <= i < s.len() implies veq(*s[i].0, *s[i].0) by { lemma_veq_refl(*s[i].0); }
}

pub proof fn lemma_veq_sym(a: Value_, b: Value_)
    requires veq(a, b),
    ensures veq(b, a),
    decreases vheight(a), 0int,
{
    broadcast use val_model::axiom_float_eq, val_model::axiom_type_same;
    match (a, b) {
        (Value_::List { items: x, .. }, Value_::List { items: y, .. }) => { lemma_seq_veq_sym(rv_view(&x), rv_view(&y)); }
        (Value_::Tuple { items: x, .. }, Value_::Tuple { items: y, .. }) => { lemma_seq_veq_sym(x@, y@); }
        (Value_::Dict { items: x, .. }, Value_::Dict { items: y, .. }) => {
            assert forall|k: Seq<char>| #![trigger hm_view(&y)[k]] hm_view(&y).contains_key(k) implies veq(*hm_view(&y)[k].0, *hm_view(&x)[k].0) by {
                assert(hm_view(&x).contains_key(k));
                let t = hm_view(&x)[k];
                lemma_veq_sym(*hm_view(&x)[k].0, *hm_view(&y)[k].0);
            }
        }
        (Value_::EnumVariant { payload: p1, runtime_type: t1, .. }, Value_::EnumVariant { payload: p2, runtime_type: t2, .. }) => {
            axiom_type_same(t1, t2, t1);
            match (p1, p2) { (Some(x), Some(y)) => { lemma_veq_sym(pv(*x), pv(*y)); } _ => {} }
        }
        (Value_::Struct { fields: f1, runtime_type: t1, .. }, Value_::Struct { fields: f2, runtime_type: t2, .. }) => {
            axiom_type_same(t1, t2, t1);
            assert forall|i: int| #![trigger f2@[i]] 0 <= i < f2@.len() implies f2@[i].0.text@ == f1@[i].0.text@ && veq(*f2@[i].1.0, *f1@[i].1.0) by {
                let t = f1@[i];
                lemma_veq_sym(*f1@[i].1.0, *f2@[i].1.0);
            }
        }
        (Value_::Float(x), Value_::Float(y)) => { axiom_float_eq(x, y, x); }
        _ => {}
    }
}

pub proof fn lemma_seq_veq_sym(x: Seq<Value>, y: Seq<Value>)
    requires seq_veq(x, y),
    ensures seq_veq(y, x),
    decreases sheight(x), 0int,
{
    assert forall|i: int| #![trigger y[i]] 0 <= i < y.len() implies veq(*y[i].0, *x[i].0) by {
        let t = x[i];
        lemma_veq_sym(*x[i].0, *y[i].0);
    }
}

pub proof fn lemma_veq_trans(a: Value_, b: Value_, c: Value_)
    requires veq(a, b), veq(b, c),
    ensures veq(a, c),
    decreases vheight(a), 0int,
{
    broadcast use val_model::axiom_float_eq, val_model::axiom_type_same;
    match (a, b, c) {
        (Value_::List { items: x, .. }, Value_::List { items: y, .. }, Value_::List { items: z, .. }) => { lemma_seq_veq_trans(rv_view(&x), rv_view(&y), rv_view(&z)); }
        (Value_::Tuple { items: x, .. }, Value_::Tuple { items: y, .. }, Value_::Tuple { items: z, .. }) => { lemma_seq_veq_trans(x@, y@, z@); }
        (Value_::Dict { items: x, .. }, Value_::Dict { items: y, .. }, Value_::Dict { items: z, .. }) => {
            assert forall|k: Seq<char>| #![trigger hm_view(&x)[k]] hm_view(&x).contains_key(k) implies veq(*hm_view(&x)[k].0, *hm_view(&z)[k].0) by {
                assert(hm_view(&y).contains_key(k));
                let t = hm_view(&y)[k];
                lemma_veq_trans(*hm_view(&x)[k].0, *hm_view(&y)[k].0, *hm_view(&z)[k].0);
            }
        }
        (Value_::EnumVariant { payload: p1, runtime_type: t1, .. }, Value_::EnumVariant { payload: p2, runtime_type: t2, .. }, Value_::EnumVariant { payload: p3, runtime_type: t3, .. }) => {
            axiom_type_same(t1, t2, t3);
            match (p1, p2, p3) { (Some(x), Some(y), Some(z)) => { lemma_veq_trans(pv(*x), pv(*y), pv(*z)); } _ => {} }
        }
        (Value_::Struct { fields: f1, runtime_type: t1, .. }, Value_::Struct { fields: f2, runtime_type: t2, .. }, Value_::Struct { fields: f3, runtime_type: t3, .. }) => {
            axiom_type_same(t1, t2, t3);
            assert forall|i: int| #![trigger f1@[i]] 0 <= i < f1@.len() implies f1@[i].0.text@ == f3@[i].0.text@ && veq(*f1@[i].1.0, *f3@[i].1.0) by {
                let t = f2@[i];
                lemma_veq_trans(*f1@[i].1.0, *f2@[i].1.0, *f3@[i].1.0);
            }
        }
        (Value_::Float(x), Value_::Float(y), Value_::Float(z)) => { axiom_float_eq(x, y, z); }
        _ => {}
    }
}

pub proof fn lemma_seq_veq_trans(x: Seq<Value>, y: Seq<Value>, z: Seq<Value>)
    requires seq_veq(x, y), seq_veq(y, z),
    ensures seq_veq(x, z),
    decreases sheight(x), 0int,
{
    assert forall|i: int| #![trigger x[i]] 0 <= i < x.len() implies veq(*x[i].0, *z[i].0) by {
        let t = y[i];
        lemma_veq_trans(*x[i].0, *y[i].0, *z[i].0);
    }
}
