// ---- units/valeq/specs.rs: structural equality of Garden values (C13), written from the
// property statement, over ghost views of the containers. --------------------------------

pub mod val_model {
    use super::*;
    /// ghost views of the opaque persistent containers
    pub uninterp spec fn rv_view(x: &RpdsVector<Value>) -> Seq<Value>;
    pub uninterp spec fn hm_view(x: &RpdsHashTrieMap<String, Value>) -> Map<Seq<char>, Value>;
    /// IEEE `==` on f64 (true for equal finite floats; false for NaN)
    pub uninterp spec fn float_eq(x: f64, y: f64) -> bool;
    pub uninterp spec fn float_finite(x: f64) -> bool;
    /// derived `==` on runtime types
    pub uninterp spec fn type_same(a: Type, b: Type) -> bool;

    /// values are finite trees: a height on which every child is smaller (ASSUMED)
    pub uninterp spec fn vheight(v: Value_) -> nat;
    pub uninterp spec fn sheight(s: Seq<Value>) -> nat;
    pub uninterp spec fn fheight(s: Seq<(SymbolName, Value)>) -> nat;
    pub uninterp spec fn mheight(m: Map<Seq<char>, Value>) -> nat;
    pub open spec fn opt_h(a: Option<Box<Value>>) -> nat { match a { Some(p) => vheight(*p.0), None => 0 } }

    #[verifier::external_body]
    pub broadcast proof fn axiom_sheight(s: Seq<Value>, i: int)
        requires 0 <= i < s.len(),
        ensures vheight(*(#[trigger] s[i]).0) < sheight(s),
    {}
    #[verifier::external_body]
    pub broadcast proof fn axiom_fheight(s: Seq<(SymbolName, Value)>, i: int)
        requires 0 <= i < s.len(),
        ensures vheight(*(#[trigger] s[i]).1.0) < fheight(s),
    {}
    #[verifier::external_body]
    pub broadcast proof fn axiom_mheight(m: Map<Seq<char>, Value>, k: Seq<char>)
        requires m.contains_key(k),
        ensures vheight(*(#[trigger] m[k]).0) < mheight(m),
    {}
    #[verifier::external_body]
    pub broadcast proof fn axiom_vheight(v: Value_)
        ensures #![trigger vheight(v)] match v {
            Value_::Tuple { items, .. } => sheight(items@) < vheight(v),
            Value_::List { items, .. } => sheight(rv_view(&items)) < vheight(v),
            Value_::Dict { items, .. } => mheight(hm_view(&items)) < vheight(v),
            Value_::Struct { fields, .. } => fheight(fields@) < vheight(v),
            Value_::EnumVariant { payload, .. } => opt_h(payload) < vheight(v),
            _ => true,
        },
    {}
    /// IEEE equality is an equivalence on finite floats
    #[verifier::external_body]
    pub broadcast proof fn axiom_float_eq(x: f64, y: f64, z: f64)
        ensures #![trigger float_eq(x, y), float_eq(y, z)]
            (float_finite(x) ==> float_eq(x, x)),
            (float_eq(x, y) ==> float_eq(y, x)),
            (float_eq(x, y) && float_eq(y, z) ==> float_eq(x, z)),
    {}
    #[verifier::external_body]
    pub broadcast proof fn axiom_type_same(a: Type, b: Type, c: Type)
        ensures #![trigger type_same(a, b), type_same(b, c)]
            type_same(a, a), (type_same(a, b) ==> type_same(b, a)),
            (type_same(a, b) && type_same(b, c) ==> type_same(a, c)),
    {}
}
pub use val_model::*;
broadcast use {val_model::axiom_sheight, val_model::axiom_fheight, val_model::axiom_mheight, val_model::axiom_vheight};

/// values that have literal syntax (C12/C13): ints, floats, strings, lists, tuples, dicts,
/// enum variants (Bool/Unit/Option/Result/user enums) and structs, all the way down
pub open spec fn lit(v: Value_) -> bool
    decreases vheight(v),
{
    match v {
        Value_::Int(_) => true,
        Value_::Float(f) => float_finite(f),
        Value_::String(_) => true,
        Value_::List { items, .. } => seq_lit(rv_view(&items)),
        Value_::Tuple { items, .. } => seq_lit(items@),
        Value_::Dict { items, .. } =>
            forall|k: Seq<char>| #![trigger hm_view(&items)[k]] hm_view(&items).contains_key(k) ==> lit(*hm_view(&items)[k].0),
        Value_::EnumVariant { payload, .. } => match payload { Some(p) => lit(*p.0), None => true },
        Value_::Struct { fields, .. } =>
            forall|i: int| #![trigger fields@[i]] 0 <= i < fields@.len() ==> lit(*fields@[i].1.0),
        _ => false,
    }
}

pub open spec fn seq_lit(s: Seq<Value>) -> bool
    decreases sheight(s),
{
    forall|i: int| #![trigger s[i]] 0 <= i < s.len() ==> lit(*s[i].0)
}

/// C13: same variant and structurally equal payloads
pub open spec fn veq(a: Value_, b: Value_) -> bool
    decreases vheight(a),
{
    match (a, b) {
        (Value_::Int(x), Value_::Int(y)) => x == y,
        (Value_::Float(x), Value_::Float(y)) => float_eq(x, y),
        (Value_::String(x), Value_::String(y)) => x@ == y@,
        (Value_::List { items: x, .. }, Value_::List { items: y, .. }) => seq_veq(rv_view(&x), rv_view(&y)),
        (Value_::Tuple { items: x, .. }, Value_::Tuple { items: y, .. }) => seq_veq(x@, y@),
        (Value_::Dict { items: x, .. }, Value_::Dict { items: y, .. }) =>
            hm_view(&x).dom() =~= hm_view(&y).dom()
            && forall|k: Seq<char>| #![trigger hm_view(&x)[k]] hm_view(&x).contains_key(k) ==> veq(*hm_view(&x)[k].0, *hm_view(&y)[k].0),
        (Value_::EnumVariant { runtime_type: t1, variant_idx: i1, payload: p1, .. },
         Value_::EnumVariant { runtime_type: t2, variant_idx: i2, payload: p2, .. }) =>
            type_same(t1, t2) && i1 == i2 && match (p1, p2) {
                (Some(x), Some(y)) => veq(*x.0, *y.0),
                (None, None) => true,
                _ => false,
            },
        (Value_::Struct { fields: f1, runtime_type: t1, .. }, Value_::Struct { fields: f2, runtime_type: t2, .. }) =>
            type_same(t1, t2) && f1@.len() == f2@.len()
            && forall|i: int| #![trigger f1@[i]] 0 <= i < f1@.len() ==> f1@[i].0.text@ == f2@[i].0.text@ && veq(*f1@[i].1.0, *f2@[i].1.0),
        _ => false,
    }
}

pub open spec fn seq_veq(x: Seq<Value>, y: Seq<Value>) -> bool
    decreases sheight(x),
{
    x.len() == y.len() && forall|i: int| #![trigger x[i]] 0 <= i < x.len() ==> veq(*x[i].0, *y[i].0)
}

pub open spec fn same_variant(a: Value_, b: Value_) -> bool {
    (a is Int && b is Int) || (a is Float && b is Float) || (a is String && b is String)
    || (a is List && b is List) || (a is Tuple && b is Tuple) || (a is Dict && b is Dict)
    || (a is EnumVariant && b is EnumVariant) || (a is Struct && b is Struct)
}
