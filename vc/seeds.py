#!/usr/bin/env python3
"""Regression run over /verif/seeded/*: apply each stored property-breaking patch to /repo's
working tree, run the property's quick check, expect exit 1 with a VIOLATION line, undo.

    python3 vc/seeds.py [seed-dir-name ...]

Refuses to start when /repo has uncommitted changes.  Writes seeded/RESULTS.json.
"""
import json
import os
import subprocess
import sys
import time

ROOT = os.path.dirname(os.path.dirname(os.path.abspath(__file__)))
REPO = os.environ.get("VERIF_REPO", "/repo")


def sh(cmd, **kw):
    return subprocess.run(cmd, shell=True, capture_output=True, text=True, **kw)


def main():
    if sh("git -C %s status --porcelain -- src" % REPO).stdout.strip():
        print("refusing: %s has uncommitted changes under src/" % REPO)
        return 2
    names = sys.argv[1:] or sorted(d for d in os.listdir(os.path.join(ROOT, "seeded"))
                                   if os.path.isdir(os.path.join(ROOT, "seeded", d)))
    results = {}
    for name in names:
        d = os.path.join(ROOT, "seeded", name)
        patch = os.path.join(d, "patch.diff")
        if not os.path.exists(patch):
            continue
        prop = json.load(open(os.path.join(d, "meta.json")))["property"]
        a = sh("git -C %s apply %s" % (REPO, patch))
        if a.returncode != 0:
            results[name] = {"property": prop, "applied": False, "error": a.stderr[-300:]}
            print("%-40s patch does not apply" % name)
            continue
        t0 = time.time()
        try:
            r = sh("%s/check %s --tier quick" % (ROOT, prop))
        finally:
            sh("git -C %s checkout -- src" % REPO)
        viol = [ln for ln in r.stdout.split("\n") if ln.startswith("VIOLATION")]
        und = [ln for ln in r.stdout.split("\n") if ln.startswith("UNDECIDED")]
        results[name] = {"property": prop, "applied": True, "exit": r.returncode, "violations": viol,
                         "undecided": und[:5], "wall_s": round(time.time() - t0, 1),
                         "caught": r.returncode == 1 and bool(viol),
                         "with_input": any(not v.endswith("no-failing-input-found") for v in viol)}
        print("%-40s exit=%s caught=%s %s" % (name, r.returncode, results[name]["caught"],
                                              "; ".join(v.split("replay=")[-1].split("/")[-1] for v in viol)[:160]))
    # the unchanged tree must be quiet again
    json.dump(results, open(os.path.join(ROOT, "seeded", "RESULTS.json"), "w"), indent=1)
    return 0 if all(r.get("caught") for r in results.values()) else 1


if __name__ == "__main__":
    sys.exit(main())
