#!/usr/bin/env python3
"""Regression run over /verif/seeded/*: apply each stored property-breaking patch to a SCRATCH
COPY of /repo, run the property's quick check against that copy, expect exit 1 with a
VIOLATION line.

    python3 vc/seeds.py [seed-dir-name ...]

/repo itself is only read: the copy (sources + a copy of target/ so the bounded stand-ins do not
rebuild the dependencies) lives under /var/tmp/verif_seeds_<pid> and is removed at the end, and
the evidence/replay files of these runs go to the same scratch directory (VERIF_OUT_DIR), never
to /verif/evidence.  (An earlier version patched /repo's working tree in place and undid it with
`git checkout`; a half-applied patch was once left behind that way, see DESIGN §9.)
Writes seeded/RESULTS.json.
"""
import json
import os
import shutil
import subprocess
import sys
import time

ROOT = os.path.dirname(os.path.dirname(os.path.abspath(__file__)))
REPO = os.environ.get("VERIF_REPO", "/repo")


def sh(cmd, **kw):
    return subprocess.run(cmd, shell=True, capture_output=True, text=True, **kw)


def fresh_sources(scratch_repo):
    """(Re)create the scratch copy's tracked sources from REPO's current working tree."""
    r = sh("rsync -a --delete --exclude /target --exclude /.git %s/ %s/" % (REPO, scratch_repo))
    if r.returncode != 0:
        raise RuntimeError("rsync failed: " + r.stderr[-300:])


def main():
    argv = sys.argv[1:]
    jobs, part_out = 1, None
    if "--jobs" in argv:
        i = argv.index("--jobs")
        jobs = int(argv[i + 1])
        del argv[i:i + 2]
    if "--part-out" in argv:
        i = argv.index("--part-out")
        part_out = argv[i + 1]
        del argv[i:i + 2]
    explicit = bool(argv)
    names = argv or sorted(d for d in os.listdir(os.path.join(ROOT, "seeded"))
                           if os.path.isdir(os.path.join(ROOT, "seeded", d)))
    if jobs > 1:
        # several seeds at a time: each child has its own scratch copy and cache directory and writes a part file
        parts = [names[i::jobs] for i in range(jobs)]
        procs = []
        for i, part in enumerate(parts):
            if not part:
                continue
            po = "/var/tmp/verif_seeds_part_%d_%d.json" % (os.getpid(), i)
            procs.append((po, subprocess.Popen([sys.executable, os.path.abspath(__file__), "--part-out", po] + part)))
        results = {}
        for po, pr in procs:
            pr.wait()
            try:
                results.update(json.load(open(po)))
                os.remove(po)
            except Exception as e:  # noqa: BLE001
                print("part %s lost: %s" % (po, e))
        return write_results(results, explicit)
    scratch = "/var/tmp/verif_seeds_%d" % os.getpid()
    srepo, starget, sout = (os.path.join(scratch, x) for x in ("repo", "target", "out"))
    results = {}
    try:
        os.makedirs(srepo)
        os.makedirs(sout)
        if os.path.isdir(os.path.join(REPO, "target", "debug")):
            os.makedirs(starget)
            sh("cp -a --reflink=auto %s/target/debug %s/debug" % (REPO, starget))
        env = dict(os.environ)
        env.update({"VERIF_REPO": srepo, "VERIF_TARGET_DIR": starget, "VERIF_OUT_DIR": sout,
                    "VERIF_CACHE_SUFFIX": "_seeds%d" % os.getpid(), "CARGO_NET_OFFLINE": "true"})
        for name in names:
            d = os.path.join(ROOT, "seeded", name)
            patch = os.path.join(d, "patch.diff")
            if not os.path.exists(patch):
                continue
            prop = json.load(open(os.path.join(d, "meta.json")))["property"]
            fresh_sources(srepo)
            a = sh("git apply --unsafe-paths --directory=%s %s" % (srepo, patch), cwd="/")
            if a.returncode != 0:
                a = sh("patch -p1 --no-backup-if-mismatch -d %s < %s" % (srepo, patch))
            if a.returncode != 0:
                results[name] = {"property": prop, "applied": False, "error": (a.stderr or a.stdout)[-300:]}
                print("%-40s patch does not apply" % name)
                continue
            t0 = time.time()
            r = subprocess.run([sys.executable, os.path.join(ROOT, "vc", "check.py"), prop, "--tier", "quick"],
                               capture_output=True, text=True, env=env)
            viol = [ln for ln in r.stdout.split("\n") if ln.startswith("VIOLATION")]
            und = [ln for ln in r.stdout.split("\n") if ln.startswith("UNDECIDED")]
            results[name] = {"property": prop, "applied": True, "exit": r.returncode,
                             "violations": [v.replace(sout, "<scratch>") for v in viol],
                             "undecided": und[:5], "wall_s": round(time.time() - t0, 1),
                             "caught": r.returncode == 1 and bool(viol),
                             "with_input": any(not v.endswith("no-failing-input-found") for v in viol)}
            print("%-40s exit=%s caught=%s %s" % (name, r.returncode, results[name]["caught"],
                                                  "; ".join(v.split("replay=")[-1].split("/")[-1] for v in viol)[:160]))
    finally:
        shutil.rmtree(scratch, ignore_errors=True)
        shutil.rmtree(os.path.join(ROOT, ".cache", "gen_seeds%d" % os.getpid()), ignore_errors=True)
    if part_out:
        json.dump(results, open(part_out, "w"))
        return 0
    return write_results(results, explicit)


def write_results(results, explicit):
    rp = os.path.join(ROOT, "seeded", "RESULTS.json")
    merged = {}
    if explicit and os.path.exists(rp):      # a partial run updates only the seeds it ran
        try:
            merged = json.load(open(rp))
        except Exception:
            merged = {}
    merged.update(results)
    json.dump(merged, open(rp, "w"), indent=1, sort_keys=True)
    return 0 if results and all(r.get("caught") for r in results.values()) else 1


if __name__ == "__main__":
    sys.exit(main())
