#!/usr/bin/env python3
"""manifest_add.py <Cxx> <design_ref> <text-file>: add/replace a check entry in MANIFEST.json
(text-file: first line = level_claimed.text, rest = level_note) and drop the id from not_applicable."""
import json, sys
pid, ref, tf = sys.argv[1], sys.argv[2], sys.argv[3]
lines = open(tf).read().strip().split("\n")
text, note = lines[0], " ".join(lines[1:])
p = "/verif/MANIFEST.json"
m = json.load(open(p))
entry = {"property_id": pid, "quick_cmd": "./check %s --tier quick" % pid, "thorough_cmd": "./check %s --tier thorough" % pid,
         "evidence_file": "evidence/%s.json" % pid, "replay_cmd_template": "./check %s --replay {path}" % pid,
         "engine": "verus-contracts", "level_claimed": {"category": "proof", "text": text, "design_ref": ref},
         "level_note": note,
         "technique": "contract-based deductive verification (Verus) of code extracted mechanically from /repo"}
m["checks"] = [c for c in m["checks"] if c["property_id"] != pid] + [entry]
m["not_applicable"] = [n for n in m.get("not_applicable", []) if n["property_id"] != pid]
for e in m["engines"]:
    if e["name"] == "verus-contracts" and pid not in e["serves_properties"]:
        e["serves_properties"].append(pid)
json.dump(m, open(p, "w"), indent=1)
open(p, "a").write("\n")
print("ok", pid)
