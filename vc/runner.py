"""Run Verus on a generated unit file and turn its diagnostics into obligation results."""
import json
import os
import re
import subprocess
import time

CACHE = os.path.join(os.path.dirname(os.path.dirname(os.path.abspath(__file__))), ".cache")

VIOLATION_MSGS = (
    "postcondition not satisfied",
    "precondition not satisfied",
    "invariant not satisfied",
    "assertion failed",
    "possible arithmetic underflow/overflow",
    "possible division by zero",
    "possible bit shift underflow/overflow",
    "decreases not satisfied",
    "could not prove termination",
    "recommendation not met",
    "unreachable",
    "index out of bounds",
    "loop invariant",
    "failed to satisfy",
    "requires not satisfied",
    "ensures not satisfied",
    "cannot show invariant holds",
)
UNDECIDED_MSGS = ("resource limit", "rlimit", "timed out", "timeout", "smt solver")


class Diag:
    def __init__(self, message, spans, rendered):
        self.message, self.spans, self.rendered = message, spans, rendered

    def classify(self):
        m = self.message.lower()
        if any(u in m for u in UNDECIDED_MSGS):
            return "undecided"
        if any(v in m for v in VIOLATION_MSGS):
            return "violated"
        return "tool"


def run_verus(path, rlimit=30, threads=None, extra=()):
    os.makedirs(CACHE, exist_ok=True)
    cmd = ["verus", path, "--output-json", "--time-expanded", "--rlimit", str(rlimit),
           "--multiple-errors", "8", "--no-report-long-running"]
    if threads:
        cmd += ["--num-threads", str(threads)]
    cmd += list(extra) + ["--", "--error-format=json"]
    t0 = time.time()
    env = dict(os.environ)
    env.setdefault("CARGO_NET_OFFLINE", "true")
    p = subprocess.run(cmd, capture_output=True, text=True, cwd=os.path.dirname(path), env=env)
    wall = time.time() - t0
    res = {"cmd": " ".join(cmd), "rc": p.returncode, "wall_s": wall, "diags": [],
           "functions": {}, "verified": 0, "errors": 0, "smt_s": 0.0, "raw_stderr": p.stderr,
           "ran": False, "vir_error": False, "notes": []}
    try:
        js = json.loads(p.stdout)
    except Exception:
        js = None
    if js:
        vr = js.get("verification-results", {})
        res["verified"] = vr.get("verified", 0)
        res["errors"] = vr.get("errors", 0)
        res["vir_error"] = vr.get("encountered-vir-error", False)
        res["ran"] = "verified" in vr
        tm = js.get("times-ms", {})
        smt = tm.get("smt", {})
        res["smt_s"] = (smt.get("total", 0) or 0) / 1000.0
        for mod in smt.get("smt-run-module-times", []):
            for fb in mod.get("function-breakdown", []):
                name = fb["function"].split("::", 1)[-1]
                f = res["functions"].setdefault(name, {"success": True, "time_ms": 0, "rlimit": 0})
                f["success"] = f["success"] and bool(fb.get("success"))
                f["time_ms"] += fb.get("time", 0)
                f["rlimit"] += fb.get("rlimit", 0)
    for ln in p.stderr.split("\n"):
        ln = ln.strip()
        if not ln.startswith("{"):
            continue
        try:
            d = json.loads(ln)
        except Exception:
            continue
        if d.get("$message_type") != "diagnostic":
            continue
        if d.get("level") == "note" and "took" in d.get("message", ""):
            continue
        if d.get("level") not in ("error",):
            if d.get("level") == "warning":
                res["notes"].append(d.get("message", ""))
            continue
        msg = d.get("message", "")
        if msg.startswith("aborting due to"):
            continue
        spans = [(s["line_start"], s["line_end"], bool(s.get("is_primary")), s.get("label") or "")
                 for s in d.get("spans", [])]
        for ch in d.get("children", []):
            for s in ch.get("spans", []):
                spans.append((s["line_start"], s["line_end"], False, ch.get("message", "")))
        res["diags"].append(Diag(msg, spans, d.get("rendered", "")))
    # a rustc / Verus front-end error (type error, unsupported construct) means nothing was verified
    if any(d.classify() == "tool" for d in res["diags"]) and res["verified"] == 0 and not any(
            d.classify() == "violated" for d in res["diags"]):
        res["ran"] = False
    return res
