#!/usr/bin/env python3
"""./check <Cxx> [--tier quick|thorough]   (DESIGN §2.6, §2.8, §2.10)

Exit 0: every obligation of the property discharged (or a listed known finding).
Exit 1: `VIOLATION property=<id> replay=<path>` for an obligation the verifier rejects.
Exit 2: undecided (anchor lost, unsupported construct, rlimit, vacuity guard) -- never an alarm.
"""
import argparse
import hashlib
import importlib.util
import json
import os
import re
import subprocess
import sys
import time

HERE = os.path.dirname(os.path.abspath(__file__))
ROOT = os.path.dirname(HERE)
sys.path.insert(0, HERE)

from extract import ExtractError  # noqa: E402
import gen  # noqa: E402
import runner  # noqa: E402
import replay as replay_mod  # noqa: E402

CACHE = os.path.join(ROOT, ".cache")
# Where evidence/ and replays/ are written.  /verif by default; the seeded-mutant regression
# (vc/seeds.py) points it at a scratch directory so that a run on a deliberately broken copy can
# never overwrite the evidence of the real tree.
OUT = os.environ.get("VERIF_OUT_DIR") or ROOT
ASSUME_RX = re.compile(r"external_body|assume_specification|\baxiom\b|\bassume\s*\(|\badmit\s*\(|external_fn_specification|external_type_specification|#\[verifier::external\b")


def load_unit(name):
    p = os.path.join(ROOT, "units", name, "unit.py")
    spec = importlib.util.spec_from_file_location("unit_" + name, p)
    mod = importlib.util.module_from_spec(spec)
    spec.loader.exec_module(mod)
    return mod


def registry():
    with open(os.path.join(ROOT, "units", "registry.json")) as f:
        return json.load(f)


def known_findings():
    known, fixed = [], []
    p = os.path.join(ROOT, "known_findings.txt")
    if os.path.exists(p):
        for ln in open(p):
            ln = ln.strip()
            if ln.startswith("known:"):
                # `observed~REGEX` (optional, no spaces): the finding is this one only while what the stand-in observes
                # matches; the same stand-in failing in another way is reported as a violation
                m = re.match(r"known:\s+property=(\S+)\s+obligation=(\S+)\s+(?:observed~(\S+)\s+)?(.*)", ln)
                if m:
                    known.append({"property": m.group(1), "obligation": m.group(2), "observed_rx": m.group(3), "what": m.group(4)})
            elif ln.startswith("fixed:"):
                fixed.append(ln)
    return known, fixed


class UnitResult:
    pass


def run_unit(uname, tier, prop):
    """Generate + verify one unit.  Returns a UnitResult."""
    R = UnitResult()
    R.unit = uname
    R.status = "ok"
    R.undecided = []
    R.failures = []     # dict(obligation, fn, message, props, rendered, repo)
    R.uf = None
    R.verus = None
    mod = load_unit(uname)
    R.mod = mod
    try:
        uf = mod.build(tier)
    except ExtractError as e:
        R.status = "undecided"
        R.undecided.append("extraction: %s" % e)
        return R
    R.uf = uf
    # one directory per property: two properties that share a unit (C14/C15, C08/C25, ...) may be
    # checked concurrently without racing on the generated file
    gdir = os.path.join(CACHE, "gen" + os.environ.get("VERIF_CACHE_SUFFIX", ""), prop)
    os.makedirs(gdir, exist_ok=True)
    path = os.path.join(gdir, "%s.rs" % uname)
    text = uf.text()
    with open(path, "w") as f:
        f.write(text)
    R.path = path
    # assumption scan (§2.3): every trusted item in the generated file must be declared
    found = scan_assumptions(uf)
    declared = set(getattr(mod, "ASSUMPTIONS", {}).keys())
    R.assumptions_found = found
    undeclared = sorted(set(found) - declared)
    if undeclared:
        R.status = "undecided"
        R.undecided.append("undeclared assumptions: %s" % ", ".join(undeclared))
    rl = getattr(mod, "RLIMIT", 30)
    v = runner.run_verus(path, rlimit=rl)
    # helpers the extracted code calls but the unit does not name: pull them in and retry
    for _round in range(3):
        if v["ran"]:
            break
        missing = set()
        for d in v["diags"]:
            m = re.search(r"cannot find function `(\w+)` in this scope", d.message)
            if m:
                missing.add(m.group(1))
        added = [n for n in sorted(missing) if uf.append_missing_fn(n)]
        if not added:
            # an auto-added helper that itself does not compile here: stub it (arbitrary result)
            broken = set()
            for d in v["diags"]:
                for (l0, _l1, _p, _lab) in d.spans:
                    t = uf.tag_at(l0)
                    if t is not None and t.fn in getattr(uf, "auto_added", []) and t.fn not in getattr(uf, "auto_stubbed", []):
                        broken.add(t.fn)
            added = [n for n in sorted(broken) if uf.stub_auto_added(n)]
        if not added:
            break
        with open(path, "w") as f:
            f.write(uf.text())
        v = runner.run_verus(path, rlimit=rl)
    R.verus = v
    if not v["ran"]:
        R.status = "undecided"
        msgs = [d.message for d in v["diags"]][:5]
        R.undecided.append("verus did not reach verification: %s" % ("; ".join(msgs) or v["raw_stderr"][-400:]))
        return R
    # map diagnostics
    canary_failed = set()
    for d in v["diags"]:
        cls = d.classify()
        tags = []
        for (l0, l1, primary, label) in d.spans:
            t = uf.tag_at(l0)
            if t is not None:
                tags.append((primary, label, t, l0))
        tags.sort(key=lambda x: not x[0])
        fn = None
        for (_, _, t, _) in tags:
            if t.fn:
                fn = t.fn
                break
        prim = tags[0][2] if tags else None
        if prim is not None and (prim.kind == "canary" or (fn or "").startswith("__canary_")):
            canary_failed.add(fn)
            continue
        # obligation id: prefer a contract clause among the spans
        oid, props, repo, callee = None, None, None, None
        for (_, _, t, _) in tags:
            if t.kind == "contract" and oid is None:
                oid, props = t.clause, t.props
            if t.kind == "repo" and repo is None:
                repo = "%s:%s" % (t.repo_file, t.repo_line)
            if t.kind in ("prelude", "spec") and t.fn and callee is None:
                callee = t.fn
        if prim is not None and prim.kind == "repo":
            repo = "%s:%s" % (prim.repo_file, prim.repo_line)
            if oid is not None and fn and oid.startswith("%s.%s." % (uname, fn)):
                # a clause of this very function (invariant at a continue/break, post at a return)
                pass
            else:
                # failure located in repo code: panic-freedom / callee precondition
                c2 = oid.split(".", 1)[-1] if oid else callee
                oid = "%s.%s.safety@%s" % (uname, fn, short_msg(d.message))
                if c2:
                    oid += "<" + c2 + ">"
                props = None
                sp = getattr(uf, "safety_props", {}).get(fn)
                props = sp if sp is not None else prim.props
                if short_msg(d.message) == "decreases":
                    # termination is a contract clause of the function, not a panic-freedom side condition
                    oid = "%s.%s.decreases@%s" % (uname, fn, {"continue": "continue", "end": "end_of_loop"}.get(
                        "continue" if "continue" in d.message else "end", "loop"))
                    props = uf.fn_props.get(fn, prim.props)
        if oid is None:
            oid = "%s.%s.%s" % (uname, fn, short_msg(d.message))
            props = prim.props if prim is not None else None
        lem = getattr(mod, "LEMMAS", {})
        if fn in lem and (prim is None or prim.kind in ("spec", "prelude")):
            oid = "%s.%s.lemma" % (uname, fn)
            props = lem[fn]
        if props is None:
            props = uf.fn_props.get(fn, set())
        entry = {"obligation": oid, "fn": fn, "message": d.message, "props": sorted(props or []),
                 "rendered": d.rendered, "repo": repo, "class": cls,
                 "gen_line": tags[0][3] if tags else None}
        if cls == "violated":
            R.failures.append(entry)
        else:
            R.status = "undecided"
            R.undecided.append("%s: %s" % (oid, d.message))
    # vacuity guard: every canary must have failed
    R.canaries_total = len(uf.canaries)
    alive = [c for c in uf.canaries if c not in canary_failed]
    R.canaries_ok = len(uf.canaries) - len(alive)
    if alive:
        R.status = "undecided"
        R.undecided.append("vacuity: canary verified (contradictory precondition/prelude): %s" % alive)
    # function results present?
    R.functions = v["functions"]
    minimum = getattr(mod, "MIN_FUNCTIONS", 1)
    if len([f for f in R.functions if not f.startswith("__canary_")]) < minimum:
        R.status = "undecided"
        R.undecided.append("only %d functions reached the solver (minimum %d)" % (len(R.functions), minimum))
    # skeleton check: a failed obligation in a restructured function is undecided unless replayed
    R.skeleton_changed = []
    recorded = getattr(mod, "SKELETONS", {})
    skp = os.path.join(ROOT, "units", uname, "skeletons.json")
    if os.path.exists(skp):
        try:
            recorded = json.load(open(skp))
        except Exception:
            recorded = {}
    R.skeletons_now = dict(uf.skeletons)
    for fn, h in uf.skeletons.items():
        if fn in recorded and recorded[fn] != h:
            R.skeleton_changed.append(fn)
    for fn in uf.unspecified_loops:
        if fn not in R.skeleton_changed:
            R.skeleton_changed.append(fn)
    return R


def short_msg(m):
    m = m.lower()
    for k, v in (("overflow", "overflow"), ("precondition", "pre"), ("postcondition", "post"),
                 ("invariant", "inv"), ("assertion", "assert"), ("division", "div0"),
                 ("termination", "decreases"), ("decreases", "decreases"), ("unreach", "unreachable")):
        if k in m:
            return v
    return re.sub(r"[^a-z0-9]+", "_", m)[:24]


def scan_assumptions(uf):
    """Mechanical scan of the generated file for trusted items.  Returns names."""
    found = []
    lines = uf.lines
    for k, ln in enumerate(lines):
        code = ln.split("//")[0]
        if not ASSUME_RX.search(code):
            continue
        # name = next fn/struct/type name at or after this line
        name = None
        m = re.search(r"assume_specification\s*(?:<[^>]*>)?\s*\[\s*([^\]]+)\]", code)
        if m:
            found.append(m.group(1).split("::")[-1].strip())
            continue
        for j in range(k, min(k + 6, len(lines))):
            m = re.search(r"\b(fn|struct|enum|type)\s+(\w+)", lines[j])
            if m:
                name = m.group(2)
                break
        if name is None:
            m = re.search(r"assume\s*\(|admit\s*\(", code)
            name = "inline-assume@%d" % (k + 1) if m else "unknown@%d" % (k + 1)
        found.append(name)
    return sorted(set(found))


def obligations_for(uf, prop, mod):
    """Enumerate this property's obligations in a unit: spliced clauses, lemmas,
    and one safety obligation per extracted function."""
    obs = []
    for (oid, props, text) in uf.clauses:
        if prop in props:
            obs.append({"id": oid, "kind": "clause", "text": re.sub(r"\s+", " ", text)[:300],
                        "fn": oid.split(".")[1]})
    for fn, props in uf.fn_props.items():
        props = uf.safety_props.get(fn, props)
        if prop in props:
            obs.append({"id": "%s.%s.safety" % (uf.unit, fn), "kind": "safety", "fn": fn,
                        "text": "no panic / overflow / out-of-bounds; callee preconditions hold"})
    for lemma, props in getattr(mod, "LEMMAS", {}).items():
        if prop in props:
            obs.append({"id": "%s.%s.lemma" % (uf.unit, lemma), "kind": "lemma", "fn": lemma,
                        "text": "lemma proved by Verus"})
    return obs


def main():
    ap = argparse.ArgumentParser()
    ap.add_argument("prop")
    ap.add_argument("--tier", default=os.environ.get("VERIF_TIER", "quick"))
    ap.add_argument("--replay", default=None)
    ap.add_argument("--keep", action="store_true")
    ap.add_argument("--raw-json", action="store_true",
                    help="print one JSON line with the violated/undecided obligation ids; write no evidence, replay nothing")
    ap.add_argument("--record-skeletons", action="store_true",
                    help="record the control skeletons of the extracted functions (only when every obligation is discharged)")
    a = ap.parse_args()
    prop, tier = a.prop, a.tier
    if tier not in ("quick", "thorough"):
        tier = "quick"
    seed = int(os.environ.get("VERIF_SEED", "0") or 0)
    t0 = time.time()
    reg = registry()
    if a.replay:
        return replay_mod.replay_file(a.replay)
    if prop not in reg:
        print("unknown property %s" % prop)
        return 2
    units = reg[prop]["units"]
    known, fixed = known_findings()
    results = [run_unit(u, tier, prop) for u in units]
    extra = []
    for u in results:
        hook = getattr(u.mod, "extra_checks", None)
        if hook and u.uf is not None:
            extra.append((u, hook(prop, tier, u)))

    obligations, failures, undecided = [], [], []
    trusted, assumptions, functions, rules = [], [], [], {}
    smt_s, checker_cmds = 0.0, []
    bounded = []
    for u in results:
        for msg in u.undecided:
            undecided.append("%s: %s" % (u.unit, msg))
        if u.uf is None:
            continue
        obs = obligations_for(u.uf, prop, u.mod)
        obligations += obs
        for f in u.failures:
            if prop in f["props"]:
                f = dict(f)
                f["unit"] = u.unit
                f["skeleton_changed"] = f["fn"] in u.skeleton_changed
                failures.append(f)
        decl = getattr(u.mod, "ASSUMPTIONS", {})
        for name in u.assumptions_found:
            trusted.append("%s: %s — %s" % (u.unit, name, decl.get(name, "UNDECLARED")))
        for rid, n in sorted(u.uf.rules_used.items()):
            assumptions.append("%s: rewrite %s applied %d× — %s" % (
                u.unit, rid, n, getattr(u.mod, "RULE_NOTES", {}).get(rid, RULE_NOTES.get(rid.split(":")[0], "unit-local call renaming to a prelude function"))))
        for it in u.uf.items:
            if it["kind"] != "type":
                functions.append({k: it[k] for k in ("name", "kind", "where", "sha256_16", "skeleton")})
        for s in getattr(u.mod, "UNVERIFIED", {}).get(prop, []):
            assumptions.append("%s: not under contract: %s" % (u.unit, s))
        for n in getattr(u.uf, "auto_added", []) if u.uf is not None else []:
            if n in getattr(u.uf, "auto_stubbed", []):
                assumptions.append("%s: helper `%s` (called by code under contract, not named by the unit) could not be extracted; used as an arbitrary-result stub: assumed to terminate, not to panic and to have no side effects" % (u.unit, n))
            else:
                assumptions.append("%s: helper `%s` (called by code under contract, not named by the unit) extracted and verified for panic-freedom only" % (u.unit, n))
        if u.verus:
            smt_s += u.verus["smt_s"]
            checker_cmds.append(u.verus["cmd"])
    # bounded stand-ins (labelled bounded, never counted as proved): a fixed list of inputs replayed
    # against the real binary for the parts of a property no contract reaches
    bounded_fail = []
    for u in results:
        for b in getattr(u.mod, "BOUNDED", []):
            if prop not in b.get("props", [prop]):
                continue
            if tier == "quick" and b.get("tier") == "thorough":
                continue
            if os.environ.get("VERIF_NO_BOUNDED"):
                continue          # the mutation self-test exercises the contracts only (its scratch copy has no build)
            binp = replay_mod.build_binary()
            if binp is None:
                undecided.append("%s: bounded stand-in %s: cargo build failed" % (u.unit, b["name"]))
                continue
            obs = replay_mod.run_witness(binp, b)
            bounded.append({"name": "%s.bounded[%s]" % (u.unit, b["name"]), "bound": b.get("bound", "the listed inputs only"),
                            "passed": not obs.get("reproduced"), "inputs": b.get("n_inputs")})
            if obs.get("reproduced"):
                bounded_fail.append((u, b, obs))
    unclaimed = []
    for u in results:
        for f in u.failures:
            if not f["props"]:
                unclaimed.append({"obligation": f["obligation"], "message": f["message"], "where": f.get("repo")})
    for (u, ex) in extra:
        if not ex:
            continue
        obligations += ex.get("obligations", [])
        failures += [f for f in ex.get("failures", []) if prop in f["props"]]
        undecided += ex.get("undecided", [])
        trusted += ex.get("trusted", [])
        smt_s += ex.get("solver_s", 0.0)
        checker_cmds += ex.get("cmds", [])
        bounded += ex.get("bounded", [])

    # classify failures: known finding / violation / undecided (skeleton changed and no replay)
    failed_fns = set()
    viol, known_hits = [], []
    for f in failures:
        failed_fns.add((f.get("unit"), f["fn"]))
        hit = None
        for k in known:
            if k["property"] == prop and obligation_match(k["obligation"], f["obligation"]):
                hit = k
                break
        if hit:
            known_hits.append((hit, f))
        else:
            viol.append(f)
    # discharged = obligations whose function has no failure and whose id did not fail
    failed_ids = set(f["obligation"] for f in failures)
    discharged = 0
    undischarged = []
    for o in obligations:
        bad = o["id"] in failed_ids or any(
            fid.startswith(o["id"]) for fid in failed_ids) or (
            o["kind"] in ("safety", "lemma") and any(f["fn"] == o["fn"] and ".safety@" in f["obligation"] or (o["kind"] == "lemma" and f["fn"] == o["fn"]) for f in failures))
        if o.get("failed"):
            bad = True
        if o["id"].endswith("decreases") and any(f["fn"] == o["fn"] and ".decreases@" in f["obligation"] for f in failures):
            bad = True
        if bad:
            undischarged.append(o["id"])
        else:
            discharged += 1
    if undecided:
        # nothing of an undecided unit counts as discharged
        pass

    # obligations covered by a listed known finding are reported separately: the proof-level
    # counts (obligations == discharged on a clean run) are about the rest
    known_ids = set(f["obligation"] for (_, f) in known_hits)
    n_known_excluded = 0
    if known_ids:
        keep = []
        for o in obligations:
            if o["id"] in known_ids or any(k.startswith(o["id"]) for k in known_ids):
                n_known_excluded += 1
            else:
                keep.append(o)
        undischarged = [x for x in undischarged if x not in known_ids and not any(k.startswith(x) for k in known_ids)]
        discharged = len(keep) - len(undischarged)
        obligations = keep
    if a.raw_json:
        print(json.dumps({"violated": sorted(set(f["obligation"] for f in viol)),
                          "known": sorted(set(f["obligation"] for (_, f) in known_hits)),
                          "undecided": undecided, "obligations": len(obligations)}))
        return 0
    rc = 0
    lines = []
    replay_paths = []
    for (k, f) in known_hits:
        lines.append("KNOWN-FINDING: property=%s %s [%s]" % (prop, k["what"], f["obligation"]))
    seen = set()
    for f in viol:
        if f["obligation"] in seen:
            continue
        seen.add(f["obligation"])
        rp, reproduced = replay_mod.make_replay(OUT, prop, f, results, tier)
        if f.get("skeleton_changed") and not reproduced:
            undecided.append("%s failed but the control skeleton of %s changed and no input reproduced; contracts may be stale" % (f["obligation"], f["fn"]))
            continue
        rc = 1
        replay_paths.append(rp)
        lines.append("VIOLATION property=%s replay=%s%s" % (
            prop, rp, "" if reproduced else " no-failing-input-found"))
    bounded_known = []
    for (u, b, obs) in bounded_fail:
        oid = "%s.bounded[%s]" % (u.unit, b["name"])
        kh = [k for k in known if k["property"] == prop and obligation_match(k["obligation"], oid)
              and (not k.get("observed_rx") or re.search(k["observed_rx"], str(obs.get("why", "")), re.S))]
        if kh:
            lines.append("KNOWN-FINDING: property=%s %s [%s]" % (prop, kh[0]["what"], oid))
            bounded_known.append(oid)
            for be in bounded:
                if be["name"] == oid:
                    be["known_finding"] = kh[0]["what"][:300]
            continue
        os.makedirs(os.path.join(OUT, "replays"), exist_ok=True)
        rp = os.path.join(OUT, "replays", "%s-%s.json" % (prop, re.sub(r"[^A-Za-z0-9_.#@\[\]-]+", "_", oid)))
        with open(rp, "w") as fh:
            json.dump({"property": prop, "obligation": oid, "kind": "bounded stand-in (not a proof obligation)",
                       "reproduced": True, "failing_input": obs.get("failing_inputs") or b.get("input"), "observed": obs,
                       "witnesses_tried": [{"witness": {k: b[k] for k in b if k != "props"}, "observed": obs}]}, fh, indent=1)
        rc = 1
        seen.add(oid)
        lines.append("VIOLATION property=%s replay=%s" % (prop, rp))
    if rc == 0 and undecided:
        # The verifier could not decide (lost anchor, construct outside Verus, rlimit).  The unit's
        # candidate inputs are still replayed against the real binary: a reproduced crash or wrong
        # result has been shown on the real code and IS a violation (DESIGN 2.6); otherwise exit 2.
        for u in results:
            if not u.undecided:
                continue
            f = {"obligation": "%s.undecided" % u.unit, "fn": None, "unit": u.unit, "repo": None,
                 "message": "verifier undecided: " + "; ".join(u.undecided)[:400], "rendered": "\n".join(u.undecided)[:4000],
                 "props": [prop], "skeleton_changed": True, "match_all_witnesses": True}
            rp, reproduced = replay_mod.make_replay(OUT, prop, f, results, tier)
            if reproduced:
                rc = 1
                lines.append("VIOLATION property=%s replay=%s" % (prop, rp))
                seen.add(f["obligation"])
        if rc == 0:
            rc = 2

    # thorough tier: mutation self-test of the contracts (does a small breaking edit of the extracted
    # source fail a named obligation? does a benign edit stay green?).  Strength report only:
    # a surviving mutant is a weakness of the CHECK, not a violation of the property.
    mutation = None
    if tier == "thorough" and rc == 0 and not a.raw_json and not os.environ.get("VERIF_NO_MUTATION"):
        try:
            mp = subprocess.run([sys.executable, os.path.join(ROOT, "vc", "mutate.py"), prop],
                                capture_output=True, text=True, timeout=3600)
            ml = [l for l in mp.stdout.split("\n") if l.startswith("{")]
            res = json.loads(ml[-1])["mutants"] if ml else []
            mutation = {"mutants": len(res),
                        "killed": sum(1 for r in res if r["status"] == "killed"),
                        "survived": [r["name"] for r in res if r["status"] == "SURVIVED"],
                        "benign_kept_green": sum(1 for r in res if r["status"] == "kept-green"),
                        "benign_false_alarms": [r["name"] for r in res if r["status"] == "FALSE-ALARM"],
                        "not_applicable": [r["name"] for r in res if r["status"] == "not-applicable"],
                        "errors": [r["name"] for r in res if r["status"] == "error"]}
        except Exception as e:  # noqa: BLE001
            mutation = {"error": str(e)[:200]}

    wall = time.time() - t0
    ev = {
        "property_id": prop, "tier": tier, "seed": seed, "level": "proof",
        "coverage": {
            "obligations": len(obligations),
            "discharged": discharged if not undecided else 0,
            "checker_cmd": " ; ".join(checker_cmds) or "verus <unit>.rs",
            "trusted_base": sorted(set(trusted)),
            "samples": [{"id": o["id"], "text": o["text"]} for o in obligations[:6]],
            "functions_under_contract": functions,
            "backends": sorted(set(["verus 0.2026.09.13 (Z3)"] + [b for (_, ex) in extra if ex for b in ex.get("backends", [])])),
            "solver_time_s": round(smt_s, 3),
            "violated": sorted(set(f["obligation"] for f in viol)),
            "known_findings": sorted(set(f["obligation"] for (_, f) in known_hits) | set(bounded_known)),
            "known_finding_obligations_excluded_from_counts": n_known_excluded,
            "undischarged": undischarged,
            "undecided": undecided,
            "unclaimed_failures": unclaimed,
            "bounded": bounded,
            "mutation_selftest": mutation,
            "canaries": {u.unit: "%d/%d failed as required" % (getattr(u, "canaries_ok", 0), getattr(u, "canaries_total", 0)) for u in results},
            "units": units,
            "exit_status": rc,
        },
        "assumptions": sorted(set(assumptions)) + ["Verus+Z3 and rustc are trusted; extractor vc/extract.py and rewrite table vc/rewrite.py are trusted to be meaning-preserving as stated per rule"],
        "wall_s": round(wall, 2),
        "violations": len(seen),
    }
    if a.record_skeletons and rc == 0 and not viol and not known_hits:
        for u in results:
            if u.uf is not None:
                with open(os.path.join(ROOT, "units", u.unit, "skeletons.json"), "w") as f:
                    json.dump(u.skeletons_now, f, indent=1, sort_keys=True)
                    f.write("\n")
    os.makedirs(os.path.join(OUT, "evidence"), exist_ok=True)
    with open(os.path.join(OUT, "evidence", "%s.json" % prop), "w") as f:
        json.dump(ev, f, indent=1, sort_keys=True)
        f.write("\n")
    print("%s tier=%s units=%s obligations=%d discharged=%d violated=%d known=%d undecided=%d smt=%.2fs wall=%.1fs" % (
        prop, tier, ",".join(units), len(obligations), ev["coverage"]["discharged"], len(seen),
        len(known_hits) + len(bounded_known), len(undecided), smt_s, wall))
    for u in undecided:
        print("UNDECIDED: " + u)
    if mutation and "mutants" in mutation:
        print("mutation self-test: %d mutants, %d killed, %d survived%s; %d benign edits kept green, %d false alarms" % (
            mutation["mutants"], mutation["killed"], len(mutation["survived"]),
            (" (" + ", ".join(mutation["survived"][:6]) + ")") if mutation["survived"] else "",
            mutation["benign_kept_green"], len(mutation["benign_false_alarms"])))
    for ln in lines:
        print(ln)
    return rc


def obligation_match(pattern, oid):
    if pattern == oid:
        return True
    if pattern.endswith("*"):
        return oid.startswith(pattern[:-1])
    return False


RULE_NOTES = {
    "R0d": "field-less enum: derived PartialEq/Eq/Clone/Copy kept and Verus' Structural added (derived equality of a C-like enum is variant equality)",
    "R0": "visibility `pub(crate)`/`pub(super)` -> `pub` (no run-time meaning; the generated file is one crate)",
    "R4": "`for x in A.iter()`/`&A` over Vec/slice -> index loop (definition of slice iteration; increment before body)",
    "R4b": "`for x in V` consuming a Vec -> `let mut it = V.into_iter(); while let Some(x) = it.next()` (definition of `for`)",
    "R6": "`for x in A.iter().rev()` -> descending index loop (definition of rev on slices)",
    "R7": "`for x in A.iter().chain(B.iter())` over literal tables -> index loop over A then B",
    "R5": "`for (a,b) in A.iter().zip(B)` -> index loop to min(len) (definition of zip on slices)",
    "R8": "`A.iter().zip(B.iter()).all(f)` -> short-circuit index loop (definition of all)",
    "R9": "format!/msgtext!/msgcode!/print macros -> opaque value (no obligation depends on message text)",
}

if __name__ == "__main__":
    try:
        rc = main()
    except SystemExit:
        raise
    except BaseException as e:  # a crash of the machinery is never an alarm
        import traceback
        traceback.print_exc()
        print("UNDECIDED: internal error in the checker: %r" % (e,))
        rc = 2
    sys.exit(rc)
