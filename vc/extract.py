"""Mechanical extraction of Rust items from /repo's working tree (DESIGN §2.1).

A small Rust tokenizer (strings, raw strings, chars vs lifetimes, comments) and a
bracket matcher on top of it.  Nothing here understands what the code computes.
"""
import hashlib
import os
import re

KW_SKELETON = {"fn", "loop", "while", "for", "if", "else", "match", "return",
               "break", "continue"}


class ExtractError(Exception):
    """An anchor (function, type, block pattern) was not found -> undecided."""


class Tok:
    __slots__ = ("kind", "text", "start", "end")

    def __init__(self, kind, text, start, end):
        self.kind, self.text, self.start, self.end = kind, text, start, end

    def __repr__(self):
        return "Tok(%s,%r)" % (self.kind, self.text)


_ident = re.compile(r"[A-Za-z_][A-Za-z0-9_]*")
_num = re.compile(r"[0-9][0-9a-zA-Z_]*(\.[0-9][0-9a-zA-Z_]*)?")
_raw = re.compile(r"b?r(#*)\"")


def tokenize(src):
    """Return code tokens only (comments and whitespace dropped)."""
    toks = []
    i, n = 0, len(src)
    while i < n:
        c = src[i]
        if c.isspace():
            i += 1
            continue
        if src.startswith("//", i):
            j = src.find("\n", i)
            j = n if j < 0 else j
            toks.append(Tok("comment", src[i:j], i, j))
            i = j
            continue
        if src.startswith("/*", i):
            depth, j = 1, i + 2
            while j < n and depth:
                if src.startswith("/*", j):
                    depth += 1
                    j += 2
                elif src.startswith("*/", j):
                    depth -= 1
                    j += 2
                else:
                    j += 1
            toks.append(Tok("comment", src[i:j], i, j))
            i = j
            continue
        m = _raw.match(src, i)
        if m:
            close = '"' + m.group(1)
            j = src.find(close, m.end())
            if j < 0:
                raise ExtractError("unterminated raw string at %d" % i)
            j += len(close)
            toks.append(Tok("str", src[i:j], i, j))
            i = j
            continue
        if c == '"' or (c == "b" and src.startswith('b"', i)):
            j = i + (2 if c == "b" else 1)
            while j < n and src[j] != '"':
                j += 2 if src[j] == "\\" else 1
            j += 1
            toks.append(Tok("str", src[i:j], i, j))
            i = j
            continue
        if c == "'":
            # char literal or lifetime
            if i + 2 < n and src[i + 1] == "\\":
                j = src.find("'", i + 3 if src[i + 2] != "'" else i + 3)
                # handle '\'' specially
                if src[i + 2] == "'":
                    j = i + 3
                j += 1
                toks.append(Tok("char", src[i:j], i, j))
                i = j
                continue
            if i + 2 < n and src[i + 2] == "'":
                toks.append(Tok("char", src[i:i + 3], i, i + 3))
                i += 3
                continue
            # multi-byte char literal like 'é'
            m2 = re.compile(r"'[^'\\\n]'").match(src, i)
            if m2 and not _ident.match(src, i + 1):
                toks.append(Tok("char", m2.group(0), i, m2.end()))
                i = m2.end()
                continue
            m3 = _ident.match(src, i + 1)
            if m3:
                toks.append(Tok("lifetime", src[i:m3.end()], i, m3.end()))
                i = m3.end()
                continue
            toks.append(Tok("punct", c, i, i + 1))
            i += 1
            continue
        m = _ident.match(src, i)
        if m:
            toks.append(Tok("ident", m.group(0), i, m.end()))
            i = m.end()
            continue
        m = _num.match(src, i)
        if m:
            toks.append(Tok("num", m.group(0), i, m.end()))
            i = m.end()
            continue
        toks.append(Tok("punct", c, i, i + 1))
        i += 1
    return toks


OPEN = {"(": ")", "[": "]", "{": "}"}
CLOSE = {")", "]", "}"}


def code_tokens(toks):
    return [t for t in toks if t.kind != "comment"]


def match_close(toks, i):
    """toks[i] is an opening bracket; return index of its closing bracket."""
    depth = 0
    for j in range(i, len(toks)):
        t = toks[j]
        if t.kind == "punct":
            if t.text in OPEN:
                depth += 1
            elif t.text in CLOSE:
                depth -= 1
                if depth == 0:
                    return j
    raise ExtractError("unbalanced bracket at offset %d" % toks[i].start)


class Source:
    def __init__(self, path, text=None):
        self.path = path
        self.text = open(path, encoding="utf-8").read() if text is None else text
        self.all_toks = tokenize(self.text)
        self.toks = code_tokens(self.all_toks)
        self._line_starts = [0]
        for m in re.finditer("\n", self.text):
            self._line_starts.append(m.end())

    def line_of(self, off):
        import bisect
        return bisect.bisect_right(self._line_starts, off)

    # -- item location ----------------------------------------------------
    def _item_start(self, k):
        """Walk back from token k (the `fn`/`struct`/`enum` keyword) over
        visibility and qualifiers and attributes; return (tok_index_of_first_kept,
        char offset where the item text starts (after attributes))."""
        j = k
        while j > 0:
            p = self.toks[j - 1]
            if p.kind == "ident" and p.text in ("pub", "const", "async", "unsafe", "extern"):
                j -= 1
                continue
            if p.kind == "punct" and p.text == ")" :
                # pub(crate) / pub(super)
                q = j - 1
                while q > 0 and not (self.toks[q].kind == "punct" and self.toks[q].text == "("):
                    q -= 1
                if q > 0 and self.toks[q - 1].kind == "ident" and self.toks[q - 1].text == "pub":
                    j = q - 1
                    continue
            break
        return j

    def impl_ranges(self):
        """Yield (header_text, body_open_idx, body_close_idx) for each top-level or nested impl."""
        out = []
        for k, t in enumerate(self.toks):
            if t.kind == "ident" and t.text == "impl":
                # header runs to the first `{` at depth 0
                depth = 0
                j = k + 1
                while j < len(self.toks):
                    u = self.toks[j]
                    if u.kind == "punct":
                        if u.text in "([":
                            depth += 1
                        elif u.text in ")]":
                            depth -= 1
                        elif u.text == "{" and depth == 0:
                            break
                        elif u.text == ";" and depth == 0:
                            j = None
                            break
                    j += 1
                if j is None or j >= len(self.toks):
                    continue
                header = self.text[t.start:self.toks[j].start]
                out.append((re.sub(r"\s+", " ", header).strip(), j, match_close(self.toks, j)))
        return out

    def _depths(self):
        if not hasattr(self, "_depth_cache"):
            d, out = 0, []
            for t in self.toks:
                if t.kind == "punct" and t.text == "}":
                    d -= 1
                out.append(d)
                if t.kind == "punct" and t.text == "{":
                    d += 1
            self._depth_cache = out
        return self._depth_cache

    def find_fn(self, name, impl=None, nth=0):
        """Locate `fn name`. impl: the impl header it must sit in (e.g. 'Bindings',
        'PartialEq for Value_'); None = a module-level free function."""
        depths = self._depths()
        if impl is not None:
            cands = [(r[1], r[2], depths[r[1]] + 1) for r in self.impl_ranges()
                     if _impl_matches(r[0], impl)]
            if not cands:
                raise ExtractError("impl %r not found in %s" % (impl, self.path))
        else:
            cands = [(-1, len(self.toks), 0)]
        found = []
        for (lo, hi, want_depth) in cands:
            for k in range(lo + 1, hi):
                t = self.toks[k]
                if (t.kind == "ident" and t.text == "fn" and k + 1 < hi
                        and self.toks[k + 1].text == name and depths[k] == want_depth):
                    found.append(k)
        if len(found) <= nth:
            raise ExtractError("fn %s%s not found in %s" % (
                name, " in impl " + impl if impl else "", self.path))
        k = found[nth]
        # body: first `{` at bracket depth 0 after the signature
        depth = 0
        j = k
        while j < len(self.toks):
            u = self.toks[j]
            if u.kind == "punct":
                if u.text in "([":
                    depth += 1
                elif u.text in ")]":
                    depth -= 1
                elif u.text == "{" and depth == 0:
                    break
                elif u.text == ";" and depth == 0:
                    raise ExtractError("fn %s has no body" % name)
            j += 1
        close = match_close(self.toks, j)
        s = self._item_start(k)
        return Item(self, "fn", name, self.toks[s].start, self.toks[close].end,
                    sig_end=self.toks[j].start)

    def all_fns(self, skip_test_mods=True):
        """every `fn` with a body, at any nesting depth (free functions, methods, nested functions), in source
        order; functions inside `mod tests { .. }` are skipped.  Items are named `name` or `name#k` (k-th of that name)."""
        skip = []
        if skip_test_mods:
            for k, t in enumerate(self.toks):
                if t.kind == "ident" and t.text == "mod" and k + 2 < len(self.toks) and self.toks[k + 1].text == "tests" \
                        and self.toks[k + 2].text == "{":
                    skip.append((k, match_close(self.toks, k + 2)))
        out, seen = [], {}
        for k, t in enumerate(self.toks):
            if not (t.kind == "ident" and t.text == "fn" and k + 1 < len(self.toks) and self.toks[k + 1].kind == "ident"):
                continue
            if any(a <= k <= b for (a, b) in skip):
                continue
            depth, j, ok = 0, k, False
            while j < len(self.toks):
                u = self.toks[j]
                if u.kind == "punct":
                    if u.text in "([":
                        depth += 1
                    elif u.text in ")]":
                        depth -= 1
                    elif u.text == "{" and depth == 0:
                        ok = True
                        break
                    elif u.text == ";" and depth == 0:
                        break
                j += 1
            if not ok:
                continue
            close = match_close(self.toks, j)
            name = self.toks[k + 1].text
            seen[name] = seen.get(name, 0) + 1
            it = Item(self, "fn", name if seen[name] == 1 else "%s#%d" % (name, seen[name]),
                      self.toks[k].start, self.toks[close].end, sig_end=self.toks[j].start)
            out.append(it)
        return out

    def find_type(self, name):
        for k, t in enumerate(self.toks):
            if (t.kind == "ident" and t.text in ("struct", "enum") and k + 1 < len(self.toks)
                    and self.toks[k + 1].text == name):
                j = k + 2
                depth = 0
                while j < len(self.toks):
                    u = self.toks[j]
                    if u.kind == "punct":
                        if u.text == "<":
                            depth += 1
                        elif u.text == ">":
                            depth -= 1
                        elif u.text in "{(" and depth == 0:
                            break
                        elif u.text == ";" and depth == 0:
                            break
                    j += 1
                u = self.toks[j]
                if u.text == ";":
                    end = u.end
                else:
                    close = match_close(self.toks, j)
                    end = self.toks[close].end
                    if u.text == "(":  # tuple struct: include trailing `;`
                        if self.toks[close + 1].text == ";":
                            end = self.toks[close + 1].end
                s = self._item_start(k)
                return Item(self, "type", name, self.toks[s].start, end)
        raise ExtractError("type %s not found in %s" % (name, self.path))

    def find_const(self, name):
        for k, t in enumerate(self.toks):
            if (t.kind == "ident" and t.text in ("const", "static") and k + 1 < len(self.toks)
                    and self.toks[k + 1].text == name):
                j = k
                while self.toks[j].text != ";":
                    if self.toks[j].text in OPEN:
                        j = match_close(self.toks, j)
                    j += 1
                s = self._item_start(k)
                return Item(self, "const", name, self.toks[s].start, self.toks[j].end)
        raise ExtractError("const %s not found in %s" % (name, self.path))

    def find_block(self, within, pattern, nth=0, upto=None):
        """Inside Item `within`, locate the nth occurrence (in code tokens) of the
        normalised text `pattern`; the block extends from the pattern start to the
        bracket that closes the first `{` at/after the pattern end -- or, with
        upto=';', to the next `;` at depth 0 after that."""
        ptoks = [t.text for t in code_tokens(tokenize(pattern))]
        idxs = [k for k, t in enumerate(self.toks) if within.start <= t.start < within.end]
        hits = []
        for a in idxs:
            if a + len(ptoks) > len(self.toks):
                break
            if all(self.toks[a + d].text == ptoks[d] for d in range(len(ptoks))):
                hits.append(a)
        if len(hits) <= nth:
            raise ExtractError("block %r (occurrence %d) not found in %s:%s" % (
                pattern, nth, self.path, within.name))
        a = hits[nth]
        # first `{` at or after the last pattern token (pattern may end with `{`)
        j = a + len(ptoks) - 1
        while self.toks[j].text != "{":
            j += 1
        close = match_close(self.toks, j)
        end = self.toks[close].end
        if upto == ";":
            q = close + 1
            while self.toks[q].text != ";":
                if self.toks[q].text in OPEN:
                    q = match_close(self.toks, q)
                q += 1
            end = self.toks[q].end
        return Item(self, "block", within.name + ":" + pattern, self.toks[a].start, end)


def _find_range(self, within, start_pattern, end_pattern, nth=0, exclusive=False):
    """Inside Item `within`: the statements from the nth occurrence of `start_pattern` up to and
    including the statement that contains the next occurrence of `end_pattern` (that statement ends
    at the next `;` at bracket depth 0, or at the `}` closing a block opened by the pattern)."""
    ptoks = [t.text for t in code_tokens(tokenize(start_pattern))]
    etoks = [t.text for t in code_tokens(tokenize(end_pattern))]
    idxs = [k for k, t in enumerate(self.toks) if within.start <= t.start < within.end]
    hits = [a for a in idxs if a + len(ptoks) <= len(self.toks)
            and all(self.toks[a + d].text == ptoks[d] for d in range(len(ptoks)))]
    if len(hits) <= nth:
        raise ExtractError("range start %r (occurrence %d) not found in %s:%s" % (start_pattern, nth, self.path, within.name))
    a = hits[nth]
    b = None
    for k in idxs:
        if k >= a and k + len(etoks) <= len(self.toks) and all(self.toks[k + d].text == etoks[d] for d in range(len(etoks))):
            b = k
            break
    if b is None:
        raise ExtractError("range end %r not found after %r in %s:%s" % (end_pattern, start_pattern, self.path, within.name))
    if exclusive:
        # everything before the statement that starts with the end pattern
        return Item(self, "block", within.name + ":" + start_pattern + " ..< " + end_pattern, self.toks[a].start, self.toks[b - 1].end)
    q = b
    depth = 0
    while True:
        t = self.toks[q].text
        if t in OPEN:
            q = match_close(self.toks, q)
            if self.toks[q].text == "}" and depth == 0 and self.toks[q + 1].text != ";" and self.toks[q + 1].text not in (".", "else", "?"):
                break
        elif t == ";":
            break
        elif t == "}":
            # an unmatched `}`: the end pattern is in the tail expression of the enclosing block, which ends before it
            q -= 1
            break
        q += 1
    return Item(self, "block", within.name + ":" + start_pattern + " .. " + end_pattern, self.toks[a].start, self.toks[q].end)


Source.find_range = _find_range


def _impl_matches(header, want):
    h = re.sub(r"<[^>]*>", "", header)  # drop generics for matching
    h = re.sub(r"\s+", " ", h).strip()
    w = re.sub(r"\s+", " ", want).strip()
    if " for " in w:
        return h.endswith(w) or (w in h)
    # inherent impl: `impl Name` exactly
    return h == "impl " + w


ATTR_DROP = re.compile(r"^\s*#\[(derive|serde|allow|cfg_attr|must_use|inline)\b.*\]\s*$")


class Item:
    def __init__(self, src, kind, name, start, end, sig_end=None):
        self.src, self.kind, self.name = src, kind, name
        self.start, self.end, self.sig_end = start, end, sig_end
        self.text = src.text[start:end]
        self.line0 = src.line_of(start)
        self.line1 = src.line_of(end - 1)

    @property
    def where(self):
        import os
        return "%s:%d-%d" % (os.path.relpath(self.src.path, os.environ.get("VERIF_REPO", "/repo")), self.line0, self.line1)

    def sha(self):
        return hashlib.sha256(self.text.encode()).hexdigest()[:16]

    def lines(self):
        """[(repo_line_no, text)] with doc comments, dropped attributes and `#[cfg(test)]`
        elements removed (line numbers preserved for the survivors)."""
        out = []
        raw = self.text.split("\n")
        skip_until = -1
        k = 0
        while k < len(raw):
            ln = raw[k]
            s = ln.strip()
            if k <= skip_until:
                k += 1
                continue
            if s == "#[cfg(test)]":
                # drop the attribute and the element it guards: a `{ .. }` block / item
                # (through its matching brace) or a single field / statement line
                j = k + 1
                while j < len(raw) and raw[j].strip() == "":
                    j += 1
                if j < len(raw):
                    depth, seen, m = 0, False, j
                    while m < len(raw):
                        code = raw[m].split("//")[0]
                        depth += code.count("{") - code.count("}")
                        seen = seen or "{" in code
                        if not seen or depth <= 0:
                            break
                        m += 1
                    skip_until = m
                k += 1
                continue
            if s.startswith("///") or s.startswith("//!"):
                k += 1
                continue
            if ATTR_DROP.match(ln):
                k += 1
                continue
            out.append((self.line0 + k, ln))
            k += 1
        return out

    def skeleton(self):
        return skeleton(self.text)


def skeleton(text):
    """Control skeleton: nesting sequence of control keywords, braces-free."""
    out = []
    toks = code_tokens(tokenize(text))
    for k, t in enumerate(toks):
        if t.kind == "ident" and t.text in KW_SKELETON:
            out.append(t.text)
        elif t.kind == "punct" and t.text == "?":
            out.append("?")
        elif t.kind == "punct" and t.text == "=" and k + 1 < len(toks) and toks[k + 1].text == ">" \
                and toks[k + 1].start == t.end:
            out.append("=>")
    return " ".join(out)


def skeleton_hash(text):
    return hashlib.sha256(skeleton(text).encode()).hexdigest()[:12]
