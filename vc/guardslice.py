"""Guard slice: of one function, keep the control structure, every test of the length of an indexed vector
(`V.len() == 2`, `V.len() >= 1`, `V.is_empty()`, in conditions, match-arm guards, `&&` / `||` / `!` combinations),
every index by a literal (`V[0]`, `hint.args[1]`), every explicit panic site (unreachable!, panic!, todo!,
unimplemented!, assert!, unwrap(), expect()) and every place where the indexed vector may change or be rebound
(the length becomes arbitrary again).  Everything else is dropped: other conditions become nondeterministic.
The slice over-approximates the paths of the function, so "on no path of the slice is a literal index out of range
or a panic site reached" implies it for the code, PROVIDED the vector's length only changes where the slice says.
"""
import re

from slicer import Slicer

KEY_RX = r"(?<![\w!#])((?:\w+\s*\.\s*)*\w+)\s*\[\s*(\d+)\s*\]"
MUTATORS = ("push|pop|clear|remove|truncate|retain|insert|extend|drain|append|swap_remove|split_off|dedup|dedup_by_key|"
            "resize|push_back|push_front|pop_back|pop_front|extend_from_slice|take")
# (String::truncate / split_at / split_off / replace_range / drain panic on an offset that is out of range or not a character
# boundary; Vec::truncate does not panic, but the slicer does not know the receiver's type: every such call is a listed site)
# (an index that is not a literal — `xs[i]`, `map[&key]`, `v[v.len() - 1]` — panics when it is out of range / absent; literal
# indexes are decided by the slice itself, ranges `xs[a..b]` are listed with the slicing calls of the text units)
COMPUTED_INDEX_RX = r"(?<![\w!#&'])[A-Za-z_][\w\.]*(?:\(\))?\s*\[\s*(?!\d+\s*\])(?![^\]\n]*\.\.)[^\]\[\n;=]+\]"
PANIC_RX = (r"\b(?:unreachable|panic|todo|unimplemented|assert|assert_eq|assert_ne)!\s*[(\[{]|\.\s*unwrap\s*\(\s*\)|\.\s*expect\s*\(|\.\s*(?:truncate|split_at|split_off|replace_range|drain|swap_remove)\s*\(|"
            + COMPUTED_INDEX_RX)
KEYWORDS = {"self", "Self", "crate", "super", "vec"}


def _split_top(s):
    parts, depth, cur = [], 0, ""
    for ch in s:
        if ch in "([{":
            depth += 1
        elif ch in ")]}":
            depth -= 1
        if ch == "," and depth == 0:
            parts.append(cur)
            cur = ""
        else:
            cur += ch
    if cur.strip():
        parts.append(cur)
    return parts


def norm(s):
    return re.sub(r"\s+", "", s)


def var_of(key):
    return "len_" + re.sub(r"\W+", "_", norm(key))


class GuardSlicer(Slicer):
    def __init__(self, src, fn_item, allowed_panic=0, allowed_index=(), panic_sites=True, arity_fn=None):
        self.fn_text = fn_item.text
        keys = {}
        for m in re.finditer(KEY_RX, self.fn_text):
            k = norm(m.group(1))
            root = k.split(".")[0]
            if root in KEYWORDS or root[0].isdigit():
                continue
            keys.setdefault(k, var_of(k))
        self.keys = keys
        self.allowed_panic = int(allowed_panic or 0)
        self.n_allowed_panic = 0
        self.allowed_index = [re.compile(p) for p in allowed_index]
        alts = []
        if keys:
            kalt = "|".join(re.escape(k).replace(r"\.", r"\s*\.\s*") for k in sorted(keys, key=len, reverse=True))
            alts.append(r"(?<![\w.])(?P<ikey>%s)\s*\[\s*(?P<n>\d+)\s*\]" % kalt)
            alts.append(r"(?<![\w.])(?P<mkey>%s)\s*(?:\.\s*(?:%s)\s*\(|=(?![=>]))" % (kalt, MUTATORS))
            alts.append(r"&\s*mut\s+(?P<bkey>%s)\b(?!\s*[.\[])" % kalt)
            alts.append(r"\|(?P<closure>[^|\n]*)\|")
        if arity_fn and keys:
            # `arity_fn(name, receiver, pos, N, &positions, &values)?`: returns Err unless both have N elements
            alts.insert(0, r"\b%s\s*\((?P<arity_args>[^;]*?)\)\s*\?" % re.escape(arity_fn))
        alts.append(r"(?P<panic>%s)" % (PANIC_RX if panic_sites else r"\bno_such_zz\b"))
        Slicer.__init__(self, src, "|".join(alts), flag_rx=r"\bno_such_flag_zz\b")
        self.ret = "return;"
        self.loop_may_exit = True
        self.n_index = self.n_panic = self.n_allowed = self.n_len_tests = 0

    # ---- effects ---------------------------------------------------------------------
    def _keys_rooted_in(self, text):
        idents = set(re.findall(r"\b[A-Za-z_]\w*\b", text))
        return [k for k in self.keys if k.split(".")[0] in idents]

    def havoc(self, keys):
        return " ".join("%s = nondet_usize();" % self.keys[k] for k in sorted(set(keys)))

    def render_effect(self, m):
        gd = m.groupdict()
        if gd.get("arity_args"):
            parts = [x.strip() for x in _split_top(gd["arity_args"])]
            if len(parts) >= 6 and re.fullmatch(r"\d+", parts[3]):
                out = []
                for a in parts[4:6]:
                    k = norm(a.lstrip("&"))
                    if k in self.keys:
                        out.append("if %s != %s { %s }" % (self.keys[k], parts[3], self.ret))
                self.n_len_tests += len(out)
                return " ".join(out) if out else "if nondet() { %s }" % self.ret
            return "if nondet() { %s }" % self.ret
        if gd.get("ikey"):
            k = norm(gd["ikey"])
            site = norm(m.group(0))
            if any(p.search(site) for p in self.allowed_index):
                self.n_allowed += 1
                return "assumed_in_range();"
            self.n_index += 1
            return "idx(%s, %s);" % (self.keys[k], gd["n"])
        if gd.get("mkey"):
            return self.havoc([norm(gd["mkey"])])
        if gd.get("bkey"):
            return self.havoc([norm(gd["bkey"])])
        if gd.get("closure") is not None:
            ks = self._keys_rooted_in(gd["closure"])
            return self.havoc(ks) if ks else ""
        if gd.get("panic"):
            self.n_panic += 1
            return "panic_site();"
        return ""

    def effects_in(self, a, b, indent):
        if a >= b:
            return
        base = self.toks[a].start
        seg = self.src.text[base:self.toks[b - 1].end]
        for m in self.effect_rx.finditer(seg):
            if m.groupdict().get("panic"):
                # the unit lists how many panic sites of this function are assumed dead (the first N in source order)
                if self.n_allowed_panic < self.allowed_panic:
                    self.n_allowed += 1
                    self.n_allowed_panic += 1
                    self.out.append((indent + "assumed_not_to_panic();", self.src.line_of(base + m.start())))
                    continue
            r = self.render_effect(m)
            if r:
                self.out.append((indent + r, self.src.line_of(base + m.start())))
                self.n_effects += 1

    def effects_inline(self, a, b):
        """the effects of tokens [a,b) as one line of statements (for use inside a condition)"""
        saved = self.out
        self.out = []
        try:
            self.effects_in(a, b, "")
            return " ".join(t for (t, _l) in self.out)
        finally:
            self.out = saved

    # ---- conditions --------------------------------------------------------------------
    def _split(self, a, b, op):
        """split tokens [a,b) at depth 0 on the two-character operator op (`&&` or `||`)"""
        parts, depth, start, k = [], 0, a, a
        while k < b:
            t = self.toks[k]
            if t.kind == "punct" and t.text in "([{":
                k = self.close(k) + 1
                continue
            if t.kind == "punct" and t.text == op[0] and k + 1 < b and self.toks[k + 1].text == op[1] \
                    and self.toks[k + 1].start == t.end and (k + 2 >= b or True):
                # `&&x` (double reference) at the start of an operand is not a conjunction
                if k > start:
                    parts.append((start, k))
                    start = k + 2
                k += 2
                continue
            if t.text == op and t.kind == "punct":
                if k > start:
                    parts.append((start, k))
                    start = k + 1
                k += 1
                continue
            k += 1
        parts.append((start, b))
        return parts

    def _atom(self, a, b):
        txt = norm(self.text(a, b))
        if not txt:
            return "nondet()"
        if txt.startswith("!") and not txt.startswith("!="):
            return "!(%s)" % self._expr(a + 1, b)
        if self.toks[a].text == "(" and self.close(a) == b - 1:
            return "(%s)" % self._expr(a + 1, b - 1)
        for k, v in self.keys.items():
            ke = re.escape(k)
            m = re.fullmatch(r"%s\.len\(\)(==|!=|>=|<=|>|<)(\d+)" % ke, txt)
            if m:
                self.n_len_tests += 1
                return "%s %s %s" % (v, m.group(1), m.group(2))
            m = re.fullmatch(r"(\d+)(==|!=|>=|<=|>|<)%s\.len\(\)" % ke, txt)
            if m:
                self.n_len_tests += 1
                return "%s %s %s" % (m.group(1), m.group(2), v)
            if re.fullmatch(r"%s\.is_empty\(\)" % ke, txt):
                self.n_len_tests += 1
                return "%s == 0" % v
        eff = self.effects_inline(a, b)
        return "{ %s nondet() }" % eff if eff else "nondet()"

    def _expr(self, a, b):
        ors = self._split(a, b, "||")
        if len(ors) > 1:
            return " || ".join("(%s)" % self._expr(x, y) for (x, y) in ors)
        ands = self._split(a, b, "&&")
        if len(ands) > 1:
            return " && ".join("(%s)" % self._expr(x, y) for (x, y) in ands)
        return self._atom(a, b)

    def cond(self, a, b):
        # a condition with a nested control construct (`if x { .. } else { .. } == y`) is left to the base class
        for k in range(a, b):
            if self.toks[k].kind == "ident" and self.toks[k].text in ("if", "match", "loop", "while", "for"):
                return "nondet()"
        return self._expr(a, b)

    # ---- bindings ----------------------------------------------------------------------
    # A pattern that (re)binds the root of an indexed expression makes its length arbitrary.  The havoc is
    # emitted before the construct (nothing between there and the bound scope tests the length), so it also
    # covers the scope after the construct, where it is merely imprecise.
    def let_stmt(self, k, b, indent):
        eq = self.find0(k, b, lambda u: u.text in ("=", ";"))
        end = Slicer.let_stmt(self, k, b, indent)
        pat_end = eq if eq is not None else end
        ks = self._keys_rooted_in(self.text(k + 1, pat_end))
        if ks:
            self.emit(indent + self.havoc(ks), k)
        return end

    def control(self, k, b, indent):
        t = self.toks[k]
        if t.text in ("if", "while") and self.toks[k + 1].text == "let":
            open_ = self._body_open(k, b)
            eq = self.find0(k + 2, open_, lambda u: u.text == "=")
            ks = self._keys_rooted_in(self.text(k + 2, eq if eq is not None else open_))
            if ks:
                self.emit(indent + self.havoc(ks), k)
        elif t.text == "for":
            open_ = self._body_open(k, b)
            kin = self.find0(k + 1, open_, lambda u: u.kind == "ident" and u.text == "in")
            pat = self.text(k + 1, kin if kin is not None else open_)
            ks = self._keys_rooted_in(pat)
            if ks:
                self.emit(indent + self.havoc(ks), k)
            m = re.search(r"\.\s*(?:windows|chunks_exact)\s*\(\s*(\d+)\s*\)\s*$", self.text(kin + 1, open_) if kin is not None else "")
            if m and norm(pat) in self.keys:
                # every item yielded by windows(N) / chunks_exact(N) has exactly N elements (assumed std fact)
                self.emit("%s%s = windows_len(%s);" % (indent, self.keys[norm(pat)], m.group(1)), k)
        return Slicer.control(self, k, b, indent)

    def emit_arms(self, arms, k, indent):
        scrut = norm(getattr(self, "scrutinee", ""))
        lk = [key for key in self.keys if scrut in (key + ".len()", "(" + key + ").len()")]
        pats = [norm(self.text(p, arrow)) for (_k, _a, _b, arrow, p) in arms]
        if lk and arms and all(re.fullmatch(r"\d+(\|\d+)*|_|\d+\.\.=?\d*", p) for p in pats) and pats[-1] == "_":
            # `match V.len() { 0 => .., 1 => .., _ => .. }`: a real match on the tracked length
            self.n_len_tests += 1
            self.emit("%smatch %s {" % (indent, self.keys[lk[0]]), k)
            for (kind, a2, b2, arrow, p), pt in zip(arms, pats):
                self.emit("%s    %s => {" % (indent, pt.replace("|", " | ")), arrow)
                self.block(a2, b2, indent + "        ")
                self.emit("%s    }" % indent, b2 - 1 if b2 > 0 else arrow)
            self.emit("%s}" % indent, k)
            return
        self.emit("%smatch nondet_u8() {" % indent, k)
        for i, (kind, a2, b2, arrow, p) in enumerate(arms):
            pat = "_" if i == len(arms) - 1 else str(i)
            self.emit("%s    %s => {" % (indent, pat), arrow)
            # pattern and guard
            g = None
            j = p
            while j < arrow:
                u = self.toks[j]
                if u.kind == "punct" and u.text in "([{":
                    j = self.close(j) + 1
                    continue
                if u.kind == "ident" and u.text == "if":
                    g = j
                    break
                j += 1
            ks = self._keys_rooted_in(self.text(p, g if g is not None else arrow))
            if ks:
                self.emit("%s        %s" % (indent, self.havoc(ks)), arrow)
            if g is not None:
                c = self.cond(g + 1, arrow)
                if c != "nondet()":
                    # the arm is entered only if the guard holds (otherwise a later arm is tried: covered by
                    # the nondeterministic choice of the arm)
                    self.emit("%s        if !(%s) { %s }" % (indent, c, self.ret), arrow)
                else:
                    self.inner(g + 1, arrow, indent + "        ")
            self.block(a2, b2, indent + "        ")
            self.emit("%s    }" % indent, b2 - 1 if b2 > 0 else arrow)
        if not arms:
            self.emit("%s    _ => {}" % indent, k)
        self.emit("%s}" % indent, k)


GLUE = """
#[verifier::external_body]
pub fn nondet() -> (r: bool) { unimplemented!() }
#[verifier::external_body]
pub fn nondet_u8() -> (r: u8) { unimplemented!() }
#[verifier::external_body]
pub fn nondet_usize() -> (r: usize) { unimplemented!() }
/// `V[k]` with V.len() == n: panics unless k < n
pub fn idx(n: usize, k: usize) requires k < n { }
/// an explicit panic (unreachable!, panic!, assert!, unwrap(), ..) kept by the slice: must not be reached
pub fn panic_site() requires false { }
/// a listed site that is not an obligation (see the unit's assumptions)
pub fn assumed_not_to_panic() { }
pub fn assumed_in_range() { }
/// every item yielded by `windows(n)` / `chunks_exact(n)` has exactly n elements
#[verifier::external_body]
pub fn windows_len(n: usize) -> (r: usize) ensures r == n { unimplemented!() }
"""


def slice_function(src, fn_item, gname, allowed_panic=0, allowed_index=(), panic_sites=True, arity_fn=None):
    """-> (lines [(text, repo_line)], slicer) for the body of fn_item, or None if it has no index / panic site"""
    sl = GuardSlicer(src, fn_item, allowed_panic, allowed_index, panic_sites, arity_fn)
    toks = sl.toks
    idx = [k for k, t in enumerate(toks) if fn_item.start <= t.start < fn_item.end]
    # body: the `{` at depth 0 after the signature
    depth, k0 = 0, None
    for k in idx:
        tt = toks[k].text
        if toks[k].kind == "punct" and tt in "([":
            depth += 1
        elif toks[k].kind == "punct" and tt in ")]":
            depth -= 1
        elif tt == "{" and depth == 0:
            k0 = k
            break
    if k0 is None:
        return None, sl
    c = sl.close(k0)
    sl.block(k0 + 1, c, "    ")
    if sl.n_index + sl.n_panic + sl.n_allowed == 0:
        return None, sl
    head = ["#[verifier::exec_allows_no_decreases_clause]", "pub fn %s()" % gname, "{"]
    decl = ["    let mut %s: usize = nondet_usize();" % v for v in sorted(set(sl.keys.values()))]
    lines = [(h, fn_item.line0) for h in head] + [(d, fn_item.line0) for d in decl]
    for (text, ln) in sl.out:
        text = re.sub(r"^(\s*)(while|loop)\b", r"\1#[verifier::loop_isolation(false)] \2", text)
        lines.append((text, ln))
    lines.append(("}", fn_item.line0))
    return lines, sl
