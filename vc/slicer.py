"""Control-flow slice of a Rust block (used by unit `sandbox`, C24).

Given the tokens of a block, produce a Verus skeleton that keeps, in order:
  * the control structure (if / else / match arms / loops / return / break / continue / `?`),
  * every test of the sandbox flag (`env.enforce_sandbox`),
  * every call of an effect API (by the effect patterns supplied),
and drops everything else: all other expressions become nondeterministic choices.
The slice over-approximates the paths of the original block (every branch may go either way),
so "no path reaches an effect with the flag set" on the slice implies it for the code, PROVIDED
the dropped text contains no effect outside the pattern list and never assigns the flag.
"""
import re

CONTROL = {"if", "match", "while", "for", "loop"}


class Slicer:
    def __init__(self, src, effect_rx, flag_rx=r"env\s*\.\s*enforce_sandbox", flag_name="sandboxed"):
        self.src = src                # extract.Source
        self.toks = src.toks
        self.effect_rx = re.compile(effect_rx)
        self.flag_rx = re.compile(r"^\s*(!?)\s*" + flag_rx + r"\s*$")
        self.flag_any = re.compile(flag_rx)
        self.flag_name = flag_name
        self.out = []                 # (text, repo_line)
        self.n_effects = 0
        self.n_guards = 0
        self.n_mixed = 0              # conditions that mention the flag but are not a pure test of it
        self.ret = "return Err(());"  # what an early return looks like in the slice
        self.loop_may_exit = True     # `loop {}`: add a nondeterministic break (sandbox slices only)

    # -- helpers -----------------------------------------------------------------------
    def text(self, a, b):
        if a >= b:
            return ""
        return self.src.text[self.toks[a].start:self.toks[b - 1].end]

    def line(self, k):
        return self.src.line_of(self.toks[min(k, len(self.toks) - 1)].start)

    def close(self, k):
        """index of the bracket matching toks[k]"""
        depth = 0
        pairs = {"(": ")", "[": "]", "{": "}"}
        for j in range(k, len(self.toks)):
            t = self.toks[j]
            if t.kind == "punct":
                if t.text in pairs:
                    depth += 1
                elif t.text in ")]}":
                    depth -= 1
                    if depth == 0:
                        return j
        raise ValueError("unbalanced at %d" % k)

    def find0(self, a, b, pred):
        """first index in [a,b) at bracket depth 0 where pred(tok) holds"""
        depth = 0
        k = a
        while k < b:
            t = self.toks[k]
            if t.kind == "punct":
                if t.text in "([{":
                    if depth == 0 and pred(t):
                        return k
                    depth += 1
                    k += 1
                    continue
                if t.text in ")]}":
                    depth -= 1
                    k += 1
                    continue
            if depth == 0 and pred(t):
                return k
            k += 1
        return None

    def emit(self, s, k):
        self.out.append((s, self.line(k)))

    def effects_in(self, a, b, indent):
        """emit one effect() per effect-pattern occurrence in tokens [a,b)"""
        if a >= b:
            return
        base = self.toks[a].start
        seg = self.src.text[base:self.toks[b - 1].end]
        for m in self.effect_rx.finditer(seg):
            ln = self.src.line_of(base + m.start())
            self.out.append((indent + self.render_effect(m), ln))
            self.n_effects += 1

    def render_effect(self, m):
        what = re.sub(r"\s+", "", m.group(0))[:40]
        return "effect(%s, \"%s\");" % (self.flag_name, what.replace('"', "'"))

    def _unused(self):
        if False:
            pass

    def maybe_return(self, a, b, indent):
        """`?` in an opaque expression: the statement may return early"""
        for k in range(a, b):
            t = self.toks[k]
            if t.kind == "punct" and t.text == "?":
                self.emit("%sif nondet() { %s }" % (indent, self.ret), k)
                return

    def cond(self, a, b):
        txt = self.text(a, b)
        m = self.flag_rx.match(txt)
        if m:
            self.n_guards += 1
            return ("!" if m.group(1) else "") + self.flag_name
        if self.flag_any.search(txt):
            self.n_mixed += 1
        return "nondet()"

    # -- statements --------------------------------------------------------------------
    def block(self, a, b, indent):
        """slice the statements in tokens [a,b) (the inside of a `{ }`)"""
        k = a
        while k < b:
            t = self.toks[k]
            if t.kind == "punct" and t.text == ";":
                k += 1
                continue
            if t.kind == "lifetime" and k + 1 < b and self.toks[k + 1].text == ":":
                k += 2
                continue
            if t.kind == "ident" and t.text in CONTROL:
                k = self.control(k, b, indent)
                continue
            if t.kind == "ident" and t.text == "return":
                e = self.find0(k, b, lambda u: u.text == ";")
                e = b if e is None else e
                self.inner(k + 1, e, indent)
                self.emit("%s%s" % (indent, self.ret), k)
                k = e + 1
                continue
            if t.kind == "ident" and t.text in ("break", "continue"):
                e = self.find0(k, b, lambda u: u.text == ";")
                e = b if e is None else e
                # labels are dropped: the slice only needs some exit from the loop
                self.emit("%s%s;" % (indent, t.text), k)
                k = e + 1
                continue
            if t.kind == "ident" and t.text == "let":
                k = self.let_stmt(k, b, indent)
                continue
            if t.kind == "punct" and t.text == "{":
                c = self.close(k)
                self.emit("%s{" % indent, k)
                self.block(k + 1, c, indent + "    ")
                self.emit("%s}" % indent, c)
                k = c + 1
                continue
            # expression statement (or tail expression)
            e = self.find0(k, b, lambda u: u.text == ";")
            e = b if e is None else e
            self.inner(k, e, indent)
            k = e + 1

    def inner(self, a, b, indent):
        """an expression that is not itself a control construct: keep nested control
        constructs that appear at its top level (e.g. `foo(..)?`, `x = match .. {}`), and
        treat the rest as opaque: effects first, then a possible early return."""
        k = a
        first = a
        while k < b:
            t = self.toks[k]
            if t.kind == "ident" and t.text in CONTROL and self._at_expr_start(k, a):
                self.effects_in(first, k, indent)
                self.maybe_return(first, k, indent)
                k = self.control(k, b, indent)
                first = k
                continue
            if t.kind == "punct" and t.text in "([{":
                # descend into brackets only for closures / nested blocks with control flow
                c = self.close(k)
                if t.text == "{" and self._is_block(k):
                    self.effects_in(first, k, indent)
                    self.maybe_return(first, k, indent)
                    self.emit("%s{" % indent, k)
                    self.block(k + 1, c, indent + "    ")
                    self.emit("%s}" % indent, c)
                    first = c + 1
                k = c + 1
                continue
            k += 1
        self.effects_in(first, b, indent)
        self.maybe_return(first, b, indent)

    def _at_expr_start(self, k, a):
        if k == a:
            return True
        p = self.toks[k - 1]
        return p.kind == "punct" and p.text in "=(,{|&!" or (p.kind == "ident" and p.text in ("return", "else"))

    def _is_block(self, k):
        """`{` that opens a block expression (closure body, unsafe, plain block), not a struct literal"""
        if k == 0:
            return True
        p = self.toks[k - 1]
        if p.kind == "punct" and p.text in "|=(,{;":
            # `|x| {`, `= {`, `({`, ...: block unless it looks like a struct literal `Name {`
            return True
        if p.kind == "ident" and p.text in ("unsafe", "else", "move"):
            return True
        return False

    def let_stmt(self, k, b, indent):
        eq = self.find0(k, b, lambda u: u.text in ("=", ";"))
        if eq is None:
            return b
        if self.toks[eq].text == ";":
            return eq + 1
        # `=` may be part of `==`/`=>`: in a `let` the first `=` at depth 0 is the binding
        s = eq + 1
        e = self.find0(s, b, lambda u: u.text == ";")
        e = b if e is None else e
        # let-else: `let PAT = EXPR else { .. };`
        els = None
        j = s
        depth = 0
        while j < e:
            u = self.toks[j]
            if u.kind == "punct" and u.text in "([{":
                j = self.close(j) + 1
                continue
            if u.kind == "ident" and u.text == "else" and j + 1 < e and self.toks[j + 1].text == "{":
                # only a let-else if not the else of an if/else expression at depth 0
                if not self._belongs_to_if(s, j):
                    els = j
                    break
            j += 1
        expr_end = els if els is not None else e
        self.inner(s, expr_end, indent)
        if els is not None:
            c = self.close(els + 1)
            self.emit("%sif nondet() {" % indent, els)
            self.block(els + 2, c, indent + "    ")
            self.emit("%s    %s" % (indent, self.ret), c)
            self.emit("%s}" % indent, c)
        return e + 1

    def _belongs_to_if(self, s, j):
        return self.toks[s].kind == "ident" and self.toks[s].text == "if"

    def match_arms(self, open_, c):
        """[(kind, body_start, body_end, arrow_index, pattern_start)] of the match whose braces are open_..c"""
        arms = []
        j = open_ + 1
        while j < c:
            arrow = None
            m = j
            while m < c:
                u = self.toks[m]
                if u.kind == "punct" and u.text in "([{":
                    m = self.close(m) + 1
                    continue
                if u.kind == "punct" and u.text == "=" and m + 1 < c and self.toks[m + 1].text == ">" \
                        and self.toks[m + 1].start == u.end:
                    arrow = m
                    break
                m += 1
            if arrow is None:
                break
            # a guard `if COND` in the pattern may test the flag: conservatively ignored (nondet)
            pat = j
            bs = arrow + 2
            if bs < c and self.toks[bs].text == "{":
                be = self.close(bs)
                arms.append(("block", bs + 1, be, arrow, pat))
                j = be + 1
            else:
                e = self.find0(bs, c, lambda u: u.text == ",")
                e = c if e is None else e
                arms.append(("expr", bs, e, arrow, pat))
                j = e
            if j < c and self.toks[j].text == ",":
                j += 1
        return arms

    dropped_return = "Err(())"

    def drop_arm(self, scrutinee, pattern):
        """hook: True when a unit declares (as an assumption) that this arm is never taken"""
        return False

    def emit_arms(self, arms, k, indent):
        scrut = getattr(self, "scrutinee", "")
        self.emit("%smatch nondet_u8() {" % indent, k)
        for i, (kind, a2, b2, arrow, _p) in enumerate(arms):
            pat = "_" if i == len(arms) - 1 else str(i)
            self.emit("%s    %s => {" % (indent, pat), arrow)
            if self.drop_arm(scrut, self.text(_p, arrow)):
                self.emit("%s        return %s;" % (indent, self.dropped_return), arrow)
            else:
                self.block(a2, b2, indent + "        ")
            self.emit("%s    }" % indent, b2 - 1 if b2 > 0 else arrow)
        if not arms:
            self.emit("%s    _ => {}" % indent, k)
        self.emit("%s}" % indent, k)

    def _body_open(self, k, b):
        """the `{` that opens the body of the `if` / `while` / `for` at token k: in `if let PAT = EXPR {` and
        `for PAT in EXPR {` the pattern may itself contain braces (`Type::Fun { params, .. }`)"""
        t = self.toks[k]
        s = k + 1
        if t.text in ("if", "while") and self.toks[k + 1].text == "let":
            eq = self.find0(k + 2, b, lambda u: u.kind == "punct" and u.text == "=")
            s = eq + 1 if eq is not None else s
        elif t.text == "for":
            kin = self.find0(k + 1, b, lambda u: u.kind == "ident" and u.text == "in")
            s = kin + 1 if kin is not None else s
        return self.find0(s, b, lambda u: u.text == "{")

    def control(self, k, b, indent):
        t = self.toks[k]
        if t.text == "if":
            open_ = self._body_open(k, b)
            c = self.close(open_)
            cs, ce = k + 1, open_
            if self.toks[cs].text == "let":
                eq = self.find0(cs, ce, lambda u: u.text == "=")
                self.inner(eq + 1 if eq is not None else cs, ce, indent)
                cond = "nondet()"
            else:
                cond = self.cond(cs, ce)
                if cond == "nondet()":
                    self.inner(cs, ce, indent)
            self.emit("%sif %s {" % (indent, cond), k)
            self.block(open_ + 1, c, indent + "    ")
            nxt = c + 1
            if nxt < b and self.toks[nxt].kind == "ident" and self.toks[nxt].text == "else":
                if self.toks[nxt + 1].text == "if":
                    self.emit("%s} else {" % indent, nxt)
                    nxt = self.control(nxt + 1, b, indent + "    ")
                    self.emit("%s}" % indent, nxt - 1)
                    return nxt
                c2 = self.close(nxt + 1)
                self.emit("%s} else {" % indent, nxt)
                self.block(nxt + 2, c2, indent + "    ")
                self.emit("%s}" % indent, c2)
                return c2 + 1
            self.emit("%s}" % indent, c)
            return nxt
        if t.text == "match":
            open_ = self.find0(k + 1, b, lambda u: u.text == "{")
            c = self.close(open_)
            self.inner(k + 1, open_, indent)
            arms = self.match_arms(open_, c)
            self.scrutinee = self.text(k + 1, open_)
            self.emit_arms(arms, k, indent)
            return c + 1
        if t.text in ("while", "for"):
            open_ = self._body_open(k, b)
            c = self.close(open_)
            if t.text == "for":
                kin = self.find0(k + 1, open_, lambda u: u.kind == "ident" and u.text == "in")
                self.inner(kin + 1 if kin is not None else k + 1, open_, indent)
                cond = "nondet()"
            else:
                cs = k + 1
                if self.toks[cs].text == "let":
                    eq = self.find0(cs, open_, lambda u: u.text == "=")
                    cs = eq + 1 if eq is not None else cs
                    cond = "nondet()"
                else:
                    cond = self.cond(cs, open_)
                # effects in a loop condition are evaluated each iteration: put them in the body
            self.emit("%swhile %s {" % (indent, cond), k)
            if t.text == "while":
                self.inner(k + 1, open_, indent + "    ") if cond == "nondet()" else None
            self.block(open_ + 1, c, indent + "    ")
            self.emit("%s}" % indent, c)
            return c + 1
        if t.text == "loop":
            open_ = k + 1
            c = self.close(open_)
            self.emit("%sloop {" % indent, k)
            if self.loop_may_exit:
                self.emit("%s    if nondet() { break; }" % indent, k)
            self.block(open_ + 1, c, indent + "    ")
            self.emit("%s}" % indent, c)
            return c + 1
        return k + 1
